#!/usr/bin/env python3
"""Compare a pytest junit xml with the stable-pass list of /root/.vp/BASELINE.json.
usage: check_baseline.py <junit.xml>"""
import json, sys, xml.etree.ElementTree as ET
base = set(json.load(open("/root/.vp/BASELINE.json"))["stable_pass"])
root = ET.parse(sys.argv[1]).getroot()
passed, failed = set(), set()
for tc in root.iter("testcase"):
    tid = f"{tc.get('classname')}::{tc.get('name')}"
    bad = any(ch.tag in ("failure", "error") for ch in tc)
    skipped = any(ch.tag == "skipped" for ch in tc)
    if bad:
        failed.add(tid)
    elif not skipped:
        passed.add(tid)
missing = sorted(base - passed)
print(f"baseline stable tests: {len(base)}; passed now: {len(base & passed)}; missing/failed: {len(missing)}; total passed {len(passed)} failed {len(failed)}")
for m in missing[:40]:
    print("  NOT PASSING:", m, "(failed)" if m in failed else "(absent)")
sys.exit(1 if missing else 0)
