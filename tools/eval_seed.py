#!/usr/bin/env python3
"""Run every registered quick check against a tree (default /repo, or VERIF_REPO-style path) and summarise which
properties report a violation.  Used to evaluate seeded changes:

    tools/eval_seed.py --repo /tmp/wt/C02            # a worktree with the change applied
    tools/eval_seed.py --patch seeded/x/patch.diff   # apply to /repo, run, undo (git checkout -- .)
"""
import argparse
import concurrent.futures as cf
import json
import os
import subprocess
import sys
import tempfile

VERIF = os.path.dirname(os.path.dirname(os.path.abspath(__file__)))


def run_one(prop, repo, out):
    env = dict(os.environ, VERIF_REPO=repo, VERIF_OUT_DIR=out)
    p = subprocess.run(["/venv/bin/python", "-m", "sa.cli", "check", prop], cwd=VERIF, env=env, capture_output=True, text=True)
    lines = [l for l in (p.stdout + p.stderr).splitlines() if l.startswith(("  R-", "ANALYSIS-ERROR"))]
    if p.returncode != 0 and not lines:
        lines = ["(no report line) " + " | ".join((p.stdout + p.stderr).strip().splitlines()[-3:])]
    return prop, p.returncode, lines


def main():
    ap = argparse.ArgumentParser()
    ap.add_argument("--repo", default="/repo")
    ap.add_argument("--patch")
    ap.add_argument("--props", default="")
    ns = ap.parse_args()
    man = json.load(open(os.path.join(VERIF, "MANIFEST.json")))
    props = [c["property_id"] for c in man["checks"]]
    if ns.props:
        props = [p for p in props if p in ns.props.split(",")]
    applied = False
    if ns.patch:
        subprocess.run(["git", "-C", "/repo", "apply", os.path.abspath(ns.patch)], check=True)
        applied = True
    out = tempfile.mkdtemp(prefix="verif-seed-out-")
    try:
        with cf.ThreadPoolExecutor(8) as ex:
            res = list(ex.map(lambda p: run_one(p, ns.repo, out), props))
    finally:
        if applied:
            subprocess.run(["git", "-C", "/repo", "checkout", "--", "."], check=True)
        subprocess.run(["rm", "-rf", out])
    fired = {}
    for prop, rc, lines in res:
        if rc != 0:
            fired[prop] = {"exit": rc, "reports": [l.strip()[:400] for l in lines[:6]]}
    print(json.dumps({"fired": fired, "silent": [p for p, rc, _ in res if rc == 0]}, indent=1))
    return 0


if __name__ == "__main__":
    sys.exit(main())
