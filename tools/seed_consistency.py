#!/usr/bin/env python3
"""Compare, per seeded change, the hand-written `caught_by` text with `checks_fired` as re-evaluated at HEAD.
Prints seeds whose own property does not fire at HEAD and whose text does not say missed / neutralised / does not apply."""
import glob, json, os
V = os.path.dirname(os.path.dirname(os.path.abspath(__file__)))
for p in sorted(glob.glob(os.path.join(V, "seeded", "*", "meta.json"))):
    m = json.load(open(p))
    fired = m.get("checks_fired") or {}
    own = m.get("property")
    txt = (m.get("caught_by", "") + " " + m.get("strengthened", "")).lower()
    if m.get("applies_at_head") is False:
        status = "no-apply"
    elif own in fired:
        continue
    else:
        status = "own-silent"
    documented = any(w in txt for w in ("missed", "neutralised", "no longer applies", "does not apply"))
    print(m.get("id"), status, "fired=" + ",".join(sorted(fired)) or "-", "evaluated_at=" + str(m.get("evaluated_at")), "| documented" if documented else "| UNDOCUMENTED", "|", m.get("caught_by", "")[:70])
