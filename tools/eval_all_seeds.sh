#!/bin/bash
# evaluate every seeded patch against current /repo HEAD; result lines: <seed> <applies?> fired=<props>
cd /verif
for s in $(ls seeded); do
  if git -C /repo apply --check /verif/seeded/$s/patch.diff 2>/dev/null; then
    r=$(python3 tools/eval_seed.py --patch seeded/$s/patch.diff 2>/dev/null | python3 -c "import sys,json; d=json.load(sys.stdin); print(','.join(f'{k}({v[\"exit\"]})' for k,v in sorted(d['fired'].items())) or '-')")
    echo "$s applies fired=$r"
  else
    echo "$s DOES-NOT-APPLY"
  fi
done
