#!/usr/bin/env python3
"""Regenerate /verif/MANIFEST.json from the per-property table below and validate it."""
import json
import os
import sys

HERE = os.path.dirname(os.path.dirname(os.path.abspath(__file__)))
PY = "/venv/bin/python"

BASELINE_CMD = "cd /repo && /venv/bin/python -m pytest -ra -q -p no:cacheprovider --timeout=900 --continue-on-collection-errors"

# id -> (technique, what is decided, what is not decided / trusted base, design ref)
CLAIMS = {
    "C11": (
        "AST emission-site enumeration + opset path-fact abstract interpretation against the onnx.defs operator history",
        "Every ONNX node emission site of converter and plugins (direct builder calls, getattr/ir.Node/add_node forms with the operator name "
        "constant-propagated through helpers) is enumerated; for each, the set of target opsets that can reach the site is computed from enclosing "
        "tests, abort-guards, flag variables and predicate helpers, and the operator, its attribute names and its input/output arity must exist in the "
        "onnx.defs schema at every such opset in 21..newest; a lowering that gates an operator's dtype handling on the opset at which ONNX extended the operator's input types must cover every type added at that version; opset-gated optimizer rewrites must be semantics-preserving (C02 instances for passes that test the graph opset); nested Loop/If scopes must inherit the requested opset from an attribute that exists; literal values of enumerated string attributes must be members of the operator's value set (frozen table). This decides 'nothing newer than the declared opset is emitted' for every plugin, "
        "which the tests (one opset per plugin) cannot.",
        "Decides operator/attribute/arity availability only; numeric agreement across opsets, ORT kernel availability and checker acceptance are not decided. "
        "Trusted: CPython ast, onnx.defs of the installed onnx, the naming assumption that `opset`/`.opset` denote the target opset. Dynamic operator names that do not "
        "constant-fold are counted UNRESOLVED.",
        "DESIGN.md §3 C11",
    ),
    "C17": (
        "finite-domain abstract evaluation of the cast decision procedure's expression trees against an independent IEEE/integer inclusion reference + path-condition dominance of the rewrite",
        "The decision procedure `_cast_roundtrip_is_value_preserving` (with its format table and helper predicates) is evaluated symbolically over all 27x27 pairs of onnx_ir "
        "element types; whenever it answers True, an independently computed reference (exact integer ranges, IEEE-754/bfloat16 value-set inclusion with generator values) must "
        "confirm that every source value survives T->U->T. The integer range proof is checked on boundary intervals for every integer type pair, its pass-through operator set must be value-set preserving, "
        "the Range closed form must bound every emitted value for all (start, limit, delta) in a bounded box, and the Cast->Cast rewrite must be "
        "dominated by `next_target == src_dtype` and the decision called with (source dtype, first target). Exhaustive on the decision function's finite domain.",
        "Not decided: the Range closed form outside the enumerated box (quick: [-7,7]^2 x [-4,4]; thorough: [-40,40]^2 plus the int8/int16 boundary values x [-9,9]), ONNX Runtime's actual Cast semantics (saturation, NaN payload), string types "
        "(STRING/UNDEFINED: a True decision there is UNRESOLVED; float8 / float4 / e8m0 are decided from value sets enumerated from their bit layouts). Trusted: onnx_ir.DataType member facts, the frozen IEEE parameter table and low-bit layout table, the restricted evaluator (unsupported syntax -> UNRESOLVED).",
        "DESIGN.md §3 C17",
    ),
    "C13": (
        "typestate/pairing analysis of context managers (mutate-inside-try, LIFO restore, yield placement) + who-may-write lint on third-party namespaces with import-time classification + scoped-activation check over resolved call sites",
        "Every @contextmanager and save/restore function of the package that mutates host state (setattr on patch targets, jax.config, the refcounted patch table, the re-entrancy ContextVar) "
        "must mutate inside the try whose finally restores (or in the single statement right before it), yield inside it and undo loops in reverse; every write to a jax/flax/equinox/numpy/... "
        "module or class attribute must be paired in the same function or run only while `import jax2onnx` executes (computed from the top-level import closure); package context managers "
        "may only be entered through with/ExitStack; in every save/restore pair the saved value is read before the first write and is what the restore writes, and generic patchers restore inherited attributes by deleting the override (ownership probe + delattr); the x64 flag is switched through JAX's scoped context manager. This covers every unwinding point of every patch stack, which no test exercises.",
        "Not decided: pollution of jax.jit trace caches, mutation of user modules by library code, behavioural probes. Assumes objects named self/cls/ctx/owner/*builder are converter-owned. "
        "Five genuine unscoped writes (jnp.cumsum, *_p attributes) are recorded in known_findings.json; the apply_monkey_patches leak (fix de6b809) and the inherited-attribute restore (fix 908e58f) were repaired.",
        "DESIGN.md §3 C13",
    ),
    "C19": (
        "signature-subsumption check of every resolved tracing substitute against inspect.signature of the replaced library callable + reaching-definition 'parameter value is read' lint + bind-key/abstract_eval agreement",
        "All 288 patch spec sites (MonkeyPatchSpec / jnp_binding_specs, resolved through nested factories, lambdas, class constants and subclasses) are mapped to the wrapper definition "
        "installed while tracing; every call form the library signature binds (positional index, keyword name, omitted optional, *args/**kwargs) must bind on the wrapper, every wrapper "
        "parameter's incoming value must reach a read (or be documented as ignored by the library / listed inert), and every keyword passed to <prim>.bind must be a parameter of the plugin's "
        "abstract_eval; substitutes that canonicalise positional arguments by hand must map each library positional slot to the same parameter; transformation rules that re-bind a plugin primitive must forward every parameter. The library side comes from the installed jax/flax/equinox, so the check follows library upgrades.",
        "Not decided: whether an accepted argument is lowered with the same meaning. 124 call-form gaps and 5 silently ignored arguments are genuine and listed in known_findings.json "
        "(each confirmed against the real wrappers by triage/c19_confirm.py). Trusted: inspect.signature of third-party callables; Python's argument binding rules as modelled in sa/sigs.py.",
        "DESIGN.md §3 C19",
    ),
    "C02": (
        "ownership/observation dataflow over the registered rewrite passes (who is re-meant, bypassed or removed vs. which graph-output/nested-capture tests are negative on the path), abstract evaluation of chain-walk acceptance predicates against onnx.defs arity, precondition dominance per commit point",
        "For every pass in _OPTIMIZER_PASSES the analysis derives which node outputs change meaning (input re-routing of a retained node, upstream bypass in a pair fold) or disappear (removal without a "
        "dominating replace_all_uses_with) and demands a graph-output / nested-graph observation test on exactly those values that is negative on every path to the rewrite; first-input-only chain walks "
        "may only accept single-data-input ops or ops whose side operands are tested scalar-constant; the reshape-pair guard must keep symbolic dims distinguishable; fresh values must be defined; "
        "function-body passes must not touch initializers/inputs; each commit point must be dominated by its semantic precondition with the right operands; observation tests must cover BOTH observation kinds (graph output and capture by a nested Loop/If body), the observation helpers must reach both base tests (predicate completeness), and _is_inverse_perm is evaluated against its definition on all permutation pairs up to rank 4; the value-identity predicate behind the Swish rewrite is evaluated on abstract values (two outputs of one node are different values); the operator tables that make nodes transparent for Transpose/Reshape folding may contain point-wise operators only (schema attribute oracle + frozen reference); the cast-elimination decision procedure is re-decided from C17; node predicates that classify by operator table must also require the standard ONNX domain. This quantifies over every rewrite site "
        "and every choice of observed values, which the 47 fold-happens tests do not.",
        "Not decided: numerical equivalence of a rewrite whose guards are all present (permutation arithmetic, axis remapping), CSE and upstream onnx_ir passes. Roles are recognised through the module's own "
        "accessors; an observation test the analysis cannot attribute makes the instance UNRESOLVED. Six genuine defect groups found by these rules were repaired (fix commits f81538a, 66aee58, fefc5f3, 4efb73f, 1da6963, 52c1b25, d9a2d47). Frozen table: POINTWISE_OPS (operators outside it without an axis-like attribute are UNRESOLVED).",
        "DESIGN.md §3 C02 and Appendix A",
    ),
    "C14": (
        "taint analysis of id()/hash() results, set-typed iteration lint with order-sensitivity classification of loop bodies (mypy-typed cross-check in the thorough tier), module-state-to-name flow check",
        "Every id()/hash() call on the export path is followed to its uses (keys/comparisons are fine; names, attributes, sort keys are violations); every iteration over a set/frozenset "
        "(for, comprehension, list(S), S.pop(), next(iter(S))) is classified by what its body does (name allocation, node emission/insertion, append to a list whose order is observed later, "
        "first-match selection); module-level mutable state written on the export path must not reach a model name; process-wide markers consulted by the lowering must be reset on every exit; once-per-process latches must not guard work done on per-conversion objects; plugin discovery order is reported. "
        "The hash-seed / allocation-history quantifier is exactly what a single-process test cannot vary.",
        "Not decided: byte identity itself, onnx_ir passes, protobuf serialisation. Set typing is syntactic in the quick tier (constructors, annotations, helper return annotations) and cross-checked "
        "against mypy-inferred types in the thorough tier. Two genuine hits were repaired (input order from a set[str]: fix 16ea4a8; gather constant-evaluator latch: fix 0219522).",
        "DESIGN.md §3 C14",
    ),
    "C01": (
        "writer/reader agreement on primitive parameters (jax bind() keyword table vs. keys read along the eqn/params dataflow of each lowering) + must-pass-through / dominance on the checked dispatcher",
        "For each of the ~230 (plugin, parameter) pairs of plugins registered for JAX primitives, the parameter JAX binds must be read by lower() or by a package function the equation/params are handed to, "
        "or be listed inert/derivable with a reason; every key a tracing substitute binds on a plugin-owned primitive must be read by lower(); lower_equation_with_plugin must pass input assertion, dispatch and "
        "output finalisation in order on every path, and plugins must not dispatch sub-jaxpr equations privately; non-commutative binary lowerings must feed eqn.invars[0]/[1] to the operator's first/second operand (taint analysis); a parameter that is read must be used; pattern matchers that walk through Reshape/Expand must consult a shape before choosing an axis; jax.numpy-level binaries must not force one operand into the other's dtype; a promoted dtype must not be overridden by one operand's own dtype. A dropped semantic parameter means two different JAX programs export to the same model - "
        "a necessary-condition breach visible for every plugin, not only the sampled ones.",
        "Decides parameter consumption and dispatch discipline ONLY; the numerical correctness of every lowering (operator choice, attribute values, rounding, clamping, integer division) is not decided and "
        "cannot be by this family. Trusted: AST scan of bind() sites in the installed jax, the inert/derivable tables (one reason per entry). Four genuine hits were repaired (lax.round 29bea5a, conv batch groups f5d6c8d, LpNormalization matcher f5d1361, lax.reshape dimensions 0c3fa89); seven mixed-dtype hits (R-C01g) are listed in known_findings.json.",
        "DESIGN.md §3 C01",
    ),
    "C09": (
        "dtype-provenance classification of every array reaching a non-downcasting constant sink + scoped-switch / pairing analysis of the x64 flag + who-may-run check of x64-sensitive JAX calls against the scoped-flag blocks (call graph) + promotion-lattice lint on jax.numpy-level plugins",
        "All ~240 sites where an array becomes a model constant without passing the float policy (ir.tensor, const_value=, tensor_attr, bind_const_for_var) are enumerated and the array's dtype provenance is "
        "classified (explicit dtype / derived from an operand / parameter / default-float64 numpy literal); a default-float64 literal there puts a DOUBLE tensor into a single-precision export. "
        "Every jax_enable_x64 update must be covered by a restoring finally and the restored value must have been read from jax.config on every path before the first update. In every function that scopes the flag, no x64-sensitive JAX call (canonicalize_dtype, jnp.*, jax.random.*, eval_shape, make_jaxpr, device_put) may run outside the scoped block, directly or through package helpers: it would resolve dtypes under the process flag instead of enable_double_precision. The flag must be switched through JAX's scoped context manager (a manual update that mixes a context-local read with a process-wide write is a violation); nested scopes must inherit the precision from an existing attribute; jax.numpy-level lowerings must not promote operand dtypes with NumPy's lattice without clamping float64.",
        "NOT decided: double-precision accuracy of an export, hidden float32 casts inside individual lowerings (no sound static rule in reach; said so rather than linted). Provenance that cannot be resolved "
        "locally is UNRESOLVED (26 of 236 today). The x64 scope defect was repaired (fix 8dfc25e); 16 NumPy-promotion sites (R-C09e) are known findings.",
        "DESIGN.md §3 C09",
    ),
    "C18": (
        "must-pass-through analysis on the CFG of the comparison helper + cast-provenance check on comparison operands + memoisation / module-state lint on the validation session over the call graph",
        "In _run_allclose every path to a match verdict must pass the output-count comparison and, per output, a shape comparison and a value comparison whose failure branch returns (False, ...) and whose operands are "
        "the reference and the model output (hand-written `(x > y).any()` tests are NaN-blind and rejected); no operand may be cast to the other's dtype without a same-kind test on the path (the defect that made a model off by 0.9 pass); allclose must run under the scoped x64 "
        "context; _build_ort_inputs must feed or raise for every session input; every InferenceSession reachable from the helpers must be built from the path parameter of the current call in a function without a cache decorator and not kept in module state (a memoised session answers for a stale file). These are the False branches no pinned test drives.",
        "Not decided: ONNX Runtime execution, tolerance arithmetic. The narrowing defect found by R-C18b was repaired (fix commit 91c6437).",
        "DESIGN.md §3 C18",
    ),
    "C15": (
        "control-dependence (typestate 'finalised') check of every call receiving the IR model in to_onnx + constant / def-use checks on the save helper's branches",
        "No call that receives the IR model before delivery may be control-dependent on the return or export mode (so 'ir', 'proto' and 'file' deliver the same finalised model); the web branch must save one "
        "self-contained file and delete a stale sidecar; the standard branch must name one sidecar after the destination basename and may delete a sidecar only after the save and only under a test of the saved proto's external_data.",
        "Not decided: equality of the protective clone with the original graph, bit-exact reload of spilled tensors, ORT outputs.",
        "DESIGN.md §3 C15",
    ),
    "C05": (
        "writer/reader agreement between extracted name patterns and reader predicates (finite-domain evaluation of the keep predicate, regex matching), who-may-remove check on graph inputs, guard dominance on the CFG",
        "The f-string patterns the converter uses for positional graph inputs are extracted and instantiated; every reader that decides keeping / mapping positional inputs must accept them; graph inputs may be "
        "removed only by the prune pass, which must be top-graph-only, order-preserving and consult the always-keep rule first; every name validation must raise before rename_values / before the converter runs, and the name-collision check must look into all graph values (inputs, outputs, initializers, node outputs); graph inputs / outputs take their declared element type and shape from the traced variable's aval; every creator of a graph input maps the dtype through the float-policy mapper with the export's precision flag; the optimizer's annotation-refresh rules (C08 R-C08c/d) are re-decided because a refreshed value can be a graph output.",
        "Not decided: declared dtypes and shapes vs jax.eval_shape, output ordering of pytrees. The in_<i>_nchw defect (fix 64e066d) and the NCHW input element type (fix 2da1a2f) were repaired.",
        "DESIGN.md §3 C05",
    ),
    "C12": (
        "constant folding of the permutation tables against the NCHW/NHWC reference, def-use from constant to perm= and to declared shapes, dominance of rank / index validation",
        "The two layout permutations must be the reference values and inverse to each other; each bridge must use the right one for its Transpose and for the declared NCHW shape; symbolic-dim origins of an NCHW input "
        "must be recorded on the external value with the permuted shape; _require_4d must reject every non-4D shape and dominate each boundary Transpose; index validation must reject non-integers, out-of-range and "
        "duplicates, and the validated tuples must be what the bindings receive; non-selected values take the plain path; the optimizer folds that remove boundary Transposes are re-decided from C02 (observation guards, inverse-permutation precondition and semantics, point-wise operator tables).",
        "Not decided: numerical equality with the plain export. The interaction with the optimizer's transpose folding is covered by C02 R-C02a, the kept unused NCHW input by C05 R-C05a.",
        "DESIGN.md §3 C12",
    ),
    "C07": (
        "def-use / must-pass analysis of the function dedup-key construction (loops over inputs and parameters, payload value-dependence, key assembly, instance-state fingerprint)",
        "In FunctionPlugin._lower_and_call the input-signature loop must add, on every path, an entry depending on the unreduced aval shape and the dtype; the parameter loop must add a capture on every path; "
        "each static capture payload must depend on the parameter's value (not only its type); the shape entering the key must not pass a per-dimension map with a constant branch; the capture list must keep its order relative to the declared inputs; FunctionKey must be assembled from name, input signature and capture signature; the default mode must key by callee "
        "identity, the unique mode by captures plus a per-leaf/attribute value fingerprint of the instance; the per-name instance counter must be keyed by the identifier the emitted function name is built from. A key that ignores a distinguishing field still yields the function counts the pinned tests assert.",
        "Not decided: equality with the undecorated export, hash collisions, call-node arity. Body-signature safety is C02 R-C02e, re-entrancy flag pairing is C13 R-C13d. The ragged-static-argument defect was repaired (fix f85648c).",
        "DESIGN.md §3 C07",
    ),
    "C04": (
        "key-domain classification of memo stores in LowerDimExpr, branch-table check of _convert_op against the reference operator table, pairing of graph-input creation with origin recording on the CFG, single-scope def-use check",
        "Every memoising producer of LowerDimExpr must key in its own domain (constant tag / separator), so differently typed pairs cannot collide; each dimension operation must lower to the reference ONNX operator with "
        "operands in order and unknown operations must raise; a value that becomes a graph input for a traced variable must get its symbolic-dim origins recorded on that same value with per-axis pairing; "
        "all symbolic_shape calls must share one scope created once; symbol identity in the optimizer's shape guard and in the function dedup key is re-decided from C02 / C07; the Shape a symbolic dimension is read from must be taken of that dimension's own origin (no cross-iteration latch); static and symbolic branches of a shape rule must aggregate operand sizes alike; floordiv needs a floor correction.",
        "Not decided: broadcasting at size 1, run-time integer results, per-plugin shape arithmetic. The optimizer side (two symbols never equal) is C02 R-C02c. The memo-key collision (fix c1479e1) and the concatenate symbolic extent (fix fa1c0e6) were repaired; the bare-Div floordiv is a known finding.",
        "DESIGN.md §3 C04",
    ),
    "C03": (
        "name-provenance classification of every value name (def-use through helpers), who-may-create / who-may-write checks on lowering contexts and initializer lists, must-pass check of the nested-scope prefixing, symbolic list-layout agreement between declared output names and result slices",
        "All ~1800 places where lowering or optimizer code names a value (`_outputs=[...]`, ir.Value(name=...)) are classified as fresh / existing / derived / parameter / interface / literal; a literal name at a site that can run "
        "more than once per graph scope is a duplicate definition. Lowering contexts may only be created by the three scope constructors, and make_subgraph_context must wrap BOTH name allocators with a parent-derived prefix on "
        "every path (uniqueness at any nesting depth, which example-based regression tests cannot settle). Initializer lists are written only through function-mode aware entry points; collected functions are attached with "
        "their domain imports; nested contexts must receive copies of the parent's value-bearing scope tables and inherit settings through attributes that exist on the parent; slices cut from a multi-output node's result tuple must coincide with the sections of its declared output-name list (symbolic prefix sums) and be paired with the collection that generated the section.",
        "Not decided: onnx.checker / strict shape inference / ORT load results, def-before-use of every value, call-node arity. Names derived from node names rely on the name-fix pass running first.",
        "DESIGN.md §3 C03",
    ),
    "C06": (
        "def-use across the cond branch extraction and If emission, dominance of rejection guards, data-provenance of Loop entry inputs",
        "JAX stores cond branches as (false, true): element 1 must reach then_branch and element 0 else_branch of the emitted If; reverse scans, inconsistent arity / scanned extents, missing jaxprs and N-way switches must raise "
        "before anything is emitted (the reverse rejection must be a test of `reverse` alone, or the reached helper must read it); bodies go through the checked dispatcher; while_loop's initial Loop condition must be the cond jaxpr evaluated on the initial state (the structural necessary condition for zero-iteration "
        "loops, a path no pinned test executes); scan / fori trip counts must derive from the length / trip_count parameter or the scanned extent - for scan on every definition that reaches the Loop (CFG reaching definitions); fori_loop must bind trip_count = upper - lower with the caller's lower and offset the body index by lower; the while_loop body must evaluate the next condition on the state it outputs.",
        "Not decided: actual trip counts, carried-value wiring, stacked outputs, zero-trip results - they need execution.",
        "DESIGN.md §3 C06",
    ),
    "C08": (
        "guard / provenance analysis of every annotation write in export post-processing + pairing of payload and type writes on the CFG + iteration-order classification (element provenance) of annotation refresh loops",
        "Post-processing may assign a `.shape` only to non-interface values (never reached from the true edge of the io-name test) and only with the result of _unknown_shape_like, which must turn every dimension into None or "
        "keep it (via a _normalize_dim that returns the same dimension); replacing a constant's payload must be followed by the matching `.type` assignment on every path; every loop that re-derives node annotations from current inputs must visit producers before consumers (graph order, a forward-built list or a reversed backward-built list - never a set or a backward list); element types are copied input->output only for operators whose ONNX schema gives output 0 the type of input 0; shape / dimension comparison keys must keep different symbols and extents distinguishable (finite-domain evaluation); after copying one operand's shape onto a broadcasting node every exit re-assigns the shape or has a single shaped operand; value allocation narrows only floats wider than the default float; chain folds refresh the nodes they re-route or admit only operators whose shape is re-derived elsewhere.",
        "Not decided: the truth of annotations stamped by ~600 plugins and of the optimizer's metadata refresh (later propagate passes re-derive most shapes, so a missing in-step refresh is not statically a wrong final annotation). Three defects found by R-C08c/f/g were repaired (fix 16c99d0, 33e03e2, 916c8c1).",
        "DESIGN.md §3 C08",
    ),
    "C10": (
        "wiring analysis of the transformation machinery (CFG dominance, binding-direction def-use, who-may-register, reference tables) plus finite-domain abstract interpretation of batching-rule source on axis-labelled arrays against label models of the operations, and a library-reference check (numpy ufunc registry, library signatures) of position-independent batchers",
        "WIRING: inline-call plugins (jit, pjit, custom_jvp_call, custom_vjp_call, remat2) must read the primal sub-jaxpr (never a derivative-rule key), bind every inner input variable to the outer value before the body is lowered "
        "through the checked dispatcher and bind every outer output to the inner value after it, all on the same jaxpr object; every batching / JVP / transpose rule registration (239 sites) must target a primitive of the same module; "
        "rules forwarded from a lax primitive must come from the primitive that implements the same function; rules that bind the primitive again must forward every parameter (C19 R-C19e). "
        "BATCHING-RULE AXIS ARITHMETIC (R-C10e): the source of 40 hand-written batching rules, and of the shared broadcasting batcher through each of its 28 users, is interpreted by the finite-domain evaluator on arrays whose axes carry labels "
        "(batch / example / unit axes) for every example rank 1..3, every position of the batch axis per operand and every in-range axis parameter (both signs, tuples, None); a case is a violation when a re-bind / per-example call acts on the "
        "batch axis, jax.vmap maps over another axis, the returned batch dimension does not name the batch axis, or the per-example layout / the set of axes acted on differs from a label model of the operation applied to the original parameters. "
        "Which values reach a rule is read from the wrapper's own bind site (pass-through vs canonicalised; otherwise the class is UNRESOLVED). R-C10f: a batching rule that leaves the batch axis where it is (generic element-wise / broadcasting "
        "batchers, plain re-binds found by evaluation) may only be installed for a library function that is position-independent (numpy element-wise ufunc or reference table), never for a generalised ufunc, a core-dimension function or a function "
        "with an axis parameter. Both are necessary conditions of 'vmap(f) exports the batched f' for every in_axes variant.",
        "NOT decided: the VALUES of JVP / transpose rules and the linear-transpose backfill; batching rules of primitives without a model entry (MultiheadAttention, dot_product_attention, einsum, tile, reshape, pad, GroupNorm: wiring only); "
        "ranks above 3, several batch axes, spmd axis names. The label models (one per operation kind, ~10 lines each) and the element-wise / core-dimension reference tables are frozen; a primitive outside them is UNRESOLVED or not an instance. "
        "In this environment every export with an inner jax.jit fails loudly (part of the pinned always-fail set), so some rule defects were confirmed by evaluating the rule against the primitive's own impl eagerly.",
        "DESIGN.md §3 C10 / §4",
    ),
    "C16": (
        "exit-path analysis of the plugin lookup, CFG-based swallow lint over every broad non-re-raising handler around emitting code, structural check of the optimizer failure policy",
        "A failed plugin lookup must raise on every path; a broad handler around node emission / binding / sub-jaxpr lowering that does not re-raise must fall through to another lowering, binding or raise before a normal return "
        "(never a silently partial lowering); optimizer failures must re-raise under the strict switch (argument first, then environment) and be logged otherwise; dimension symbols without origin must raise before emission; "
        "the rejection instances of unsupported control-flow variants (C06 R-C06b) and unknown dimension operations (C04 R-C04b) are re-decided here as R-C16d. Dispatch stages: C01 R-C01c.",
        "Not decided: validity of the model when an optimizer pass aborts mid-rewrite (crash points inside a pass).",
        "DESIGN.md §3 C16",
    ),
}

NOT_APPLICABLE = {
}


# clauses added after the first version of each claim (appended to the claim text)
ADDED = {
    "C01": " Added: function bodies are shared only under a complete dedup key (mirror of C07 R-C07a incl. the 'no Python numeric hash' clause); every axis-role parameter of the dot_general matrix fast path "
           "is consulted element-wise before MatMul / Gemm is emitted (R-C01j); the IRFFT spectrum reconstruction conserves the transform length for lengths 2..40 (finite-domain evaluation, R-C01k).",
    "C02": " Added: a precondition inside any(...) does not license a rewrite of every element (R-C02f); forward chain walks accept a consumer only through its first input (R-C02m); every literal operator-name test is "
           "qualified by the default domain (R-C02n).",
    "C03": " Added: function outputs never alias function inputs (R-C03h); LowerDimExpr's memo table is a value-bearing scope table, and function-body contexts receive no value-bearing table from the parent at all (R-C03f).",
    "C04": " Added: the NCHW-input origin instance of C12 R-C12a is re-decided here (symbol origins point at the axis of the external value).",
    "C05": " Added: the converter's output list only grows at its end in leaf order (R-C05f); result leaves that alias a graph input or an earlier leaf get a value of their own before custom names are applied (R-C05g); "
           "the custom-name collision universe includes nested graphs.",
    "C06": " Added: the fori_loop index offset may only be skipped on the lower == 0 edge.",
    "C08": " Added: shapes stamped on plugin-emitted Transpose outputs are the operand shape gathered through the permutation, helpers evaluated on a 3-cycle (R-C08j); the refresh's broadcast merge skips size-1 constants only under a rank bound (R-C08k).",
    "C09": " Added: constant widening under enable_double_precision is restricted to float32 (R-C09f).",
    "C12": " Added: complex dtypes are rejected before each boundary Transpose (complex values are packed real tensors of rank + 1).",
    "C13": " Added: reflective attribute writes never target caller-supplied objects (R-C13g: 124 setattr / delattr sites classified by receiver).",
    "C14": " Added: memo tables are keyed by every parameter the memoised value depends on (R-C14g).",
    "C15": " Added: the export-mode normaliser returns the value it validated (R-C15d).",
    "C16": " Added: function-body contexts are not handed the enclosing graph's symbol-origin tables, so a missing origin fails loudly (mirror of C03 R-C03f).",
    "C18": " Added: dtype classes of reference and model output are compared before values (R-C18f); a validation session never flows into or out of a module-level container (R-C18e).",
    "C19": " Added: fori_loop bounds reach the body index on every path (mirror of C06 R-C06e); argument contributions collected in an accumulator are combined, not overwritten (R-C19g, frozen accumulator table); "
           "a role name is read from one axis of an operand throughout a plugin module (R-C19h); memoised abstract evaluations are keyed by every argument (mirror of C14 R-C14g).",
}


ADDED2 = {'C03': ' Later: after the optimizer has run on a function body, outputs that are inputs or repeated are given a producing node (R-C03i).', 'C10': ' Later: the vmapped while_loop evaluates its next predicate on the masked state (R-C10i, mirror of C06 R-C06f); parameters bound under rules forwarded from a lax primitive are normalised into that primitive domain (R-C10j).', 'C17': ' Later: every admission path of the range-proof walkers accepts only value-set preserving operators (R-C17e).', 'C01': ' Later: conditional cascades fold in the direction that gives the documented priority (R-C01l, jnp.select); every field of Scatter/Gather/ConvDimensionNumbers is read by the modules lowering its primitives (R-C01m); the constant start of a gather window is clamped before it becomes a Slice (R-C01n); memoised dimension nodes are keyed completely (R-C01o, mirror of C04 R-C04h); producer operator-name tests inside lowerings are domain-qualified (R-C01p); special forms are selected by exact constant comparison (R-C01q); a permutation applied to one dot_general operand is computed from the axis lists of that operand only (R-C01r); the attribute pair of the nearest-neighbour Resize selects the source pixel of jax.image.resize on every size pair up to 12 (R-C01s, reference formulas evaluated exactly); the start of a dynamic window is clamped and not wrapped twice (R-C01t).',
    'C02': " Later: side constants of broadcasting operators in chain walks are rank-bounded, also against the reshape fold's source (R-C02o); nodes a pass inserts are anchored before every node re-wired to read their output (R-C02p); values created by passes are named freshly (R-C02q).", 'C04': ' Later: the shape-of-origin rule also covers origins bound by a walrus expression; instance-level memo tables of the dimension lowering are keyed by every parameter the cached value depends on (R-C04h); extent helpers compute a symbolic extent with the same formula instead of returning it unchanged (R-C04g).',
    'C05': " Later: input specifications are prepared without x64-sensitive calls outside the precision scope (R-C05h, mirror of C09 R-C09c); graph inputs created for a caller-named call parameter take the caller's element type (R-C05i); no integer element type is chosen from the precision flag alone (R-C05j); complex tensors that no plugin packed (unused inputs, constant result leaves) are declared and stored as a trailing pair of reals (R-C05k).", 'C06': ' Later: control-flow plugins do not serve traced bodies from memo tables with incomplete or lossy keys (R-C06h, mirror of C14 R-C14g); integer canonicalisation of carries excludes bool (R-C06i); single extents of stamped shapes are not overwritten by a loop-context override (R-C06g, confirmed sites are known findings); every position of a subgraph output list gets a value of its own (R-C06j); body variables of Loop / If subgraphs are bound only to the formal input, a clone, a shape-preserving operator on it or the per-step slice (R-C06k).',
    'C07': " Later: formal parameters of a function body copy only the key-recorded fields of the call-site argument (R-C07f); re-trace specifications carry the aval's weak_type and the input signature of the key records every aval field the specifications copy (R-C07g); per-argument renaming tables in the input signature are lossy (R-C07a); a keyword is wired to an input_params graph input only when its value is the parameter itself (R-C07h).", 'C08': " Later: stamped shapes are the output aval's, no extent overwritten by loop context (R-C08i); permuted shape declarations use the permutation of the same tensor's layout (R-C08l); folds refresh the pass-through nodes they keep (R-C08m); the merge skips only rank-0 constants (R-C08k tightened); closed (shape, perm) expressions of Transpose stamps are evaluated on a 3-cycle (R-C08j).", 'C09': ' Later: graph rewrites do not move tensor payloads into (float32) float attributes without a float32 guard (R-C09g); lowerings do not round Python-computed constants to float32 through a literal dtype (R-C09h).',
    'C11': ' Later: opset-gated sibling lowerings of one primitive derive each operand from the same equation inputs (R-C11h); the opset-27 switch to a float16 / bfloat16 Range is bounded by the number of elements the type can count (R-C11i); trailing-axes normalisation operators are emitted for single-axis primitives only on the last axis (R-C11j).',
    'C13': " Later: the scopes that trace user code with the substitutes installed isolate JAX's trace caches (R-C13h).", 'C14': " Later: memo keys that see a parameter only through __code__ / type() / __name__ are rejected (R-C14g); lowerings never mutate an equation's params dict in place (R-C14h); set algebra on dict views is hash-ordered, and dicts filled in such order must not be copied into model mappings (R-C14b); weak-valued module-level mappings are not keyed by id() (R-C14i); registry entries found under a name-derived key are reused only after comparing the recorded object with the new one (R-C14j, known finding).", 'C15': ' Later: the standard export clears an existing sidecar before saving, since onnx appends (R-C15e).',
    'C16': ' Later: no finally block leaves through return / break / continue (R-C16e); every optimizer pass leaves a topologically sorted graph behind (R-C16f, mirror of C02 R-C02p).',
    'C19': ' Later: positional slots are not named after another positional parameter of the original (R-C19a positional-order); argument normalisers read every documented form the way the library does or refuse it (R-C19j, finite-domain evaluation); keywords that reach bind() through **kwargs are handled, read or listed inert (R-C19k); defaults of substitutes agree with those of the library (R-C19l); values taken out of **kwargs by name reach the computation (R-C19m); configuration fields read by the __call__ of a library module are read by its substitute or listed as inert / derived (R-C19n; nine confirmed dtype findings).'}


def main() -> int:
    props = [json.loads(l)["id"] for l in open(os.path.join(HERE, "properties.jsonl")) if l.strip()]
    checks = []
    for pid in props:
        if pid not in CLAIMS:
            continue
        tech, text, note, ref = CLAIMS[pid]
        text = text + ADDED.get(pid, "") + ADDED2.get(pid, "")
        checks.append({
            "property_id": pid,
            "quick_cmd": f"{PY} -m sa.cli check {pid} --tier quick",
            "thorough_cmd": f"{PY} -m sa.cli check {pid} --tier thorough",
            "evidence_file": f"/verif/evidence/{pid}.json",
            "replay_cmd_template": f"{PY} -m sa.cli replay {{path}}",
            "engine": "sa",
            "level_claimed": {"category": "other", "text": text, "design_ref": ref},
            "level_note": note,
            "technique": "static analysis: " + tech,
        })
    na = []
    for pid in props:
        if pid in CLAIMS:
            continue
        na.append({"property_id": pid, "reason": NOT_APPLICABLE.get(pid, "static check for this property is not built yet (work in progress); nothing is claimed")})
    man = {
        "version": 1,
        "setup_cmd": f"{PY} -m compileall -q /verif/sa && {PY} -c \"import onnx.defs, networkx\"",
        "hooks": {
            "guard": "JAX2ONNX_VERIF",
            "enable": "none needed: the checks are static and read /repo's working tree; no instrumentation is compiled into jax2onnx",
            "baseline_off_cmd": BASELINE_CMD,
            "source_commits": [],
            "add_only": True,
        },
        "engines": [{
            "name": "sa",
            "path": "/verif/sa",
            "serves_properties": sorted(CLAIMS),
            "kind_free_text": "repository-specific static analysis (ast index, statement CFG with dominance/must-pass queries, flow-insensitive def-use, "
                              "name-resolved call graph, opset path facts, reference tables from onnx.defs / inspect of third-party libraries)",
        }],
        "checks": checks,
        "not_applicable": na,
        "notes": "All checks are static (family: static analysis). Exit 0 = clause holds on every enumerated site; exit 1 + VIOLATION line = a specific construct breaks a clause; "
                 "exit 2 + ANALYSIS-ERROR = an anchor vanished or the analysis could not run (never reported as a violation). Known genuine defects are listed in "
                 "/verif/known_findings.json and printed as KNOWN-FINDING lines.",
    }
    out = os.path.join(HERE, "MANIFEST.json")
    with open(out, "w") as fh:
        json.dump(man, fh, indent=1)
    try:
        import jsonschema
        jsonschema.validate(man, json.load(open("/root/.vp/MANIFEST.schema.json")))
        print("MANIFEST valid;", len(checks), "checks,", len(na), "not_applicable")
    except ImportError:
        print("jsonschema not available; wrote MANIFEST without validation")
    return 0


if __name__ == "__main__":
    sys.exit(main())
