#!/usr/bin/env python3
"""Re-evaluate every seeded change against /repo's HEAD (scratch worktrees outside /repo and /verif, removed afterwards) and
store which checks report it in seeded/<id>/meta.json (`checks_fired`, `evaluated_at`).  Seeds whose patch no longer
applies to HEAD (the code they change was repaired since) keep their record and get `applies_at_head: false`.

    tools/refresh_fired.py [-j 4] [ids...]
"""
import concurrent.futures as cf
import json
import os
import subprocess
import sys
import tempfile

VERIF = os.path.dirname(os.path.dirname(os.path.abspath(__file__)))


def sh(cmd, **kw):
    p = subprocess.run(cmd, shell=True, capture_output=True, text=True, **kw)
    return p.returncode, p.stdout + p.stderr


def one(sid, head):
    sdir = os.path.join(VERIF, "seeded", sid)
    patch = os.path.join(sdir, "patch.diff")
    mp = os.path.join(sdir, "meta.json")
    meta = json.load(open(mp)) if os.path.exists(mp) else {"id": sid}
    wt = tempfile.mkdtemp(prefix=f"refresh-{sid}-", dir="/tmp")
    os.rmdir(wt)
    try:
        rc, out = sh(f"git -C /repo worktree add -q {wt} {head}")
        if rc:
            return sid, "worktree failed: " + out[-200:]
        rc, out = sh(f"git -C {wt} apply {patch}")
        if rc:
            # a copy of the change re-written against later fix commits (same edit, other context lines)
            import glob
            for alt in sorted(glob.glob(os.path.join(sdir, "patch_rebased*.diff")), reverse=True):
                rc, out = sh(f"git -C {wt} apply {alt}")
                if rc == 0:
                    meta["evaluated_with"] = os.path.basename(alt)
                    break
        if rc:
            meta["applies_at_head"] = False
            meta["head_checked"] = head
            json.dump(meta, open(mp, "w"), indent=1)
            return sid, "does not apply"
        rc, out = sh(f"python3 {VERIF}/tools/eval_seed.py --repo {wt}")
        fired = json.loads(out)["fired"] if rc == 0 else {"error": out[-300:]}
        meta["applies_at_head"] = True
        meta["checks_fired"] = fired
        meta["evaluated_at"] = head
        json.dump(meta, open(mp, "w"), indent=1)
        return sid, ",".join(sorted(fired)) or "-"
    finally:
        sh(f"git -C /repo worktree remove --force {wt}")


def main():
    args = sys.argv[1:]
    jobs = 4
    if args and args[0] == "-j":
        jobs = int(args[1]); args = args[2:]
    ids = args or sorted(d for d in os.listdir(os.path.join(VERIF, "seeded")) if os.path.exists(os.path.join(VERIF, "seeded", d, "patch.diff")))
    head = sh("git -C /repo rev-parse --short HEAD")[1].strip()
    with cf.ThreadPoolExecutor(jobs) as ex:
        for sid, r in ex.map(lambda s: one(s, head), ids):
            print(sid, r, flush=True)
    sh("git -C /repo worktree prune")


if __name__ == "__main__":
    main()
