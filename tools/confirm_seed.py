#!/usr/bin/env python3
"""Confirm a seeded change in a scratch worktree of /repo:
  1. demo passes (exit 0) on the unchanged tree, 2. patch applies, 3. demo fails (exit 1) with it,
  4. the pinned baseline suite still passes with it (808 stable tests), 5. which checks report it.
Writes /verif/seeded/<id>/meta.json (merging an existing file) and removes the worktree.

    tools/confirm_seed.py <id> [--skip-suite] [--base <commit>]
"""
import json
import os
import subprocess
import sys
import tempfile
import time

VERIF = os.path.dirname(os.path.dirname(os.path.abspath(__file__)))


def sh(cmd, cwd=None, env=None, timeout=3600):
    p = subprocess.run(cmd, shell=True, cwd=cwd, env=env, capture_output=True, text=True, timeout=timeout)
    return p.returncode, (p.stdout + p.stderr)


def main():
    sid = sys.argv[1]
    skip_suite = "--skip-suite" in sys.argv
    base = sys.argv[sys.argv.index("--base") + 1] if "--base" in sys.argv else "HEAD"
    sdir = os.path.join(VERIF, "seeded", sid)
    patch = os.path.join(sdir, "patch.diff")
    demo = os.path.join(sdir, "demo.py")
    wt = tempfile.mkdtemp(prefix=f"confirm-{sid}-", dir="/tmp")
    os.rmdir(wt)
    meta_path = os.path.join(sdir, "meta.json")
    meta = json.load(open(meta_path)) if os.path.exists(meta_path) else {}
    ran = []
    try:
        rc, out = sh(f"git -C /repo worktree add -q {wt} {base}")
        ran.append(f"scratch worktree of /repo at {base} ({sh(f'git -C {wt} rev-parse --short HEAD')[1].strip()})")
        assert rc == 0, out
        env = dict(os.environ, PYTHONPATH=wt)
        rc0, out0 = sh(f"/venv/bin/python {demo}", cwd=wt, env=env)
        ran.append(f"demo on unchanged tree: exit {rc0}")
        rca, outa = sh(f"git -C {wt} apply {patch}")
        ran.append(f"git apply patch.diff: exit {rca}")
        rc1, out1 = sh(f"/venv/bin/python {demo}", cwd=wt, env=env)
        ran.append(f"demo with the change: exit {rc1}")
        suite = None
        if not skip_suite:
            xml = os.path.join(wt, "_junit.xml")
            t0 = time.time()
            sh(f"/venv/bin/python -m pytest -ra -q -p no:cacheprovider --timeout=900 --continue-on-collection-errors --junitxml={xml}", cwd=wt, env=env, timeout=7200)
            rcb, outb = sh(f"python3 {VERIF}/tools/check_baseline.py {xml}")
            suite = outb.strip().splitlines()[0] if outb.strip() else f"exit {rcb}"
            ran.append(f"pinned suite with the change ({int(time.time() - t0)} s): {suite}")
        rce, oute = sh(f"python3 {VERIF}/tools/eval_seed.py --repo {wt}")
        fired = json.loads(oute)["fired"] if rce == 0 else {"error": oute[-300:]}
        ran.append("all quick checks against the changed tree: fired " + (", ".join(sorted(fired)) or "none"))
        meta.update({
            "id": sid,
            "confirmed": bool(rc0 == 0 and rca == 0 and rc1 == 1 and (skip_suite or (suite or "").find("missing/failed: 0") >= 0)),
            "demo_exit_unchanged": rc0, "demo_exit_changed": rc1,
            "demo_output_changed_tail": out1[-600:],
            "suite_with_change": suite,
            "checks_fired": fired,
            "what_was_run": ran,
        })
    finally:
        sh(f"git -C /repo worktree remove --force {wt}")
        sh("git -C /repo worktree prune")
    json.dump(meta, open(meta_path, "w"), indent=1)
    print(json.dumps({k: meta[k] for k in ("id", "confirmed", "demo_exit_unchanged", "demo_exit_changed", "suite_with_change")}, indent=1))
    print("fired:", {k: [r[:160] for r in v.get("reports", [])[:2]] for k, v in meta["checks_fired"].items()} if isinstance(meta["checks_fired"], dict) else meta["checks_fired"])


if __name__ == "__main__":
    main()
