#!/usr/bin/env python3
"""Print the DESIGN.md §9 table from /verif/seeded/*/meta.json."""
import json, os, glob
V = os.path.dirname(os.path.dirname(os.path.abspath(__file__)))
rows = []
for p in sorted(glob.glob(os.path.join(V, "seeded", "*", "meta.json"))):
    m = json.load(open(p))
    rows.append(m)
print("| seeded id | property | change | needs to manifest | confirmed (demo / suite) | caught by | what was strengthened |")
print("|---|---|---|---|---|---|---|")
for m in rows:
    conf = "yes" if m.get("confirmed") else ("pending" if "confirmed" not in m else "no")
    suite = (m.get("suite_with_change") or "").split(";")[1].strip() if m.get("suite_with_change") else ""
    cell = lambda s: str(s).replace("|", "/").replace("\n", " ")
    print(f"| {m.get('id')} | {m.get('property','')} | {cell(m.get('change',''))} | {cell(m.get('needs',''))} | {conf}{' (' + suite + ')' if suite else ''} | {cell(m.get('caught_by',''))} | {cell(m.get('strengthened',''))} |")
