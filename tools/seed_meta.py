#!/usr/bin/env python3
"""Merge the hand-written description of each seeded change into /verif/seeded/<id>/meta.json."""
import json, os
V = os.path.dirname(os.path.dirname(os.path.abspath(__file__)))
DESC = {
 "C02": dict(property="C02", change="_nested_graph_references_value: the nested-graph walker no longer recurses into the graph attributes of nodes inside a nested graph",
             needs="an intermediate value captured only two or more levels deep (If inside If, Loop inside If) next to a foldable Reshape / Cast / Transpose pattern",
             caught_by="C02 R-C02g (observation predicate completeness: recursion into nested nodes)", strengthened="R-C02g was added because of this change; before, no rule looked inside the observation predicates"),
 "C05": dict(property="C05", change="_top_graph_value_map enumerates only graph inputs / initializers / outputs instead of every named value",
             needs="a custom input/output name equal to the auto-generated name of a surviving intermediate value", caught_by="C05 R-C05c collision-universe",
             strengthened="the collision-universe instance was added because of this change"),
 "C06": dict(property="C06", change="the reverse-scan rejection was weakened to `reverse and num_scan > 0` (after scan_arity)",
             needs="lax.scan(..., xs=None, length>=2, reverse=True) with a per-step output that varies", caught_by="C06 R-C06b reverse::_lower_without_scan_inputs",
             strengthened="the rule now requires `reverse` to be false as a whole atom on the path (or the callee to read it); the first version accepted any dominating guard mentioning 'reverse'"),
 "C07": dict(property="C07", change="_allocate_friendly_name keys its counter by the decorated target's name instead of the display name the identifier is built from",
             needs="two different @onnx_function targets with the same display name (same namespace and mode) in one export", caught_by="C07 R-C07d counter-key/identifier agreement",
             strengthened="R-C07d was added because of this change"),
 "C11": dict(property="C11", change="jnp.arange only takes the float32 detour for bfloat16; float16 Range inputs are emitted below opset 27",
             needs="jnp.arange(..., dtype=float16) at an opset below 27 (Range accepts float16 only from version 27)", caught_by="C11 R-C11d version-gated dtype coverage",
             strengthened="R-C11d (type-constraint extension per operator version from onnx.defs) was added because of this change; R-C11a-c only looked at operator / attribute / arity availability"),
 "C13": dict(property="C13", change="apply_monkey_patches installs the function patches before entering its try/finally (the defect repaired by de6b809, re-introduced)",
             needs="a conversion that fails while installing a later patch target after at least one target is patched (e.g. @onnx_function on a local function)", caught_by="C13 R-C13a mutate-inside-try", strengthened="none needed"),
 "C14": dict(property="C14", change="the try/finally around the @onnx_function body trace was flattened: _IN_FUNCTION_BUILD is not reset when the body trace raises",
             needs="an earlier request that fails inside the inner body re-trace, then a later request using the same @onnx_function in the same process", caught_by="C13 R-C13d and C14 R-C14e",
             strengthened="R-C14e (process-wide markers consulted by the lowering are reset on every exit) was added to C14; before only C13 reported it"),
 "C19": dict(property="C19", change="concatenate's manual argument canonicalisation reads the positional dtype only when four positionals are given (`rest[1] if len(rest) > 2`)",
             needs="jnp.concatenate((a, b), axis, dtype) with dtype as third positional argument and a dtype different from the promoted input dtype", caught_by="C19 R-C19d manual positional canonicalisation",
             strengthened="R-C19d was added because of this change; signature subsumption cannot see inside (*args, **kwargs) wrappers"),
 "C01": dict(property="C01", change="lax.atan2 lowering reuses the x>0 mask where x>=0 was built from Greater|Equal: for x == 0, y < 0 the model returns -pi instead of +pi",
             needs="an element with numerator exactly 0 and a strictly negative denominator", caught_by="nothing (missed)",
             strengthened="not attempted: a wrong value of one lowering at one point is numerics, which DESIGN.md §3 C01 declines; no structural clause distinguishes the two graphs"),
 "C03": dict(property="C03", change="while_loop: the slice selecting the Loop's pass-through body-constant outputs drops `output_offset` (the optional leading predicate output)",
             needs="a vmapped while_loop (batched predicate) whose body closes over a traced value", caught_by="C03 R-C03e output-layout agreement",
             strengthened="R-C03e and sa/layout.py (symbolic list layouts / prefix sums) were added because of this change; before nothing looked at index arithmetic"),
 "C04": dict(property="C04", change="_LayoutAdapter.bind_input records symbolic-dim origins with the NHWC variable shape against the NCHW graph input (record_var_symbolic_dim_origins(var, nchw_input_val))",
             needs="inputs_as_nchw on an input with a symbolic non-batch dim that is read before any op re-records origins, with H != C or W != H", caught_by="C04 R-C04c and C12 R-C12a", strengthened="none needed"),
 "C08": dict(property="C08", change="remove_redundant_reshape_pairs_ir refreshes the folded chain in consumer-to-producer order (`allowed_nodes` instead of `allowed_fwd`)",
             needs="a Reshape sandwich with at least two pass-through element-wise ops whose stale annotation survives the later propagate passes", caught_by="C08 R-C08c refresh order",
             strengthened="R-C08c was added because of this change; while probing, the seeding agent also noticed stale shapes on the UNCHANGED tree (set iteration in the transpose-forest fold) - confirmed as a genuine defect and repaired (fix 16c99d0)"),
 "C09": dict(property="C09", change="_normalize_input_specs canonicalises example-array dtypes with jax.dtypes.canonicalize_dtype before the scoped x64 flag is entered",
             needs="enable_double_precision=True with float64 example arrays while the process-wide x64 flag is off", caught_by="C09 R-C09c x64-sensitive call outside the scoped flag",
             strengthened="R-C09c was added because of this change"),
 "C12": dict(property="C12", change="_LayoutAdapter.bind_input records origins with axes=_NHWC_TO_NCHW_PERM (forward permutation where the inverse is needed)",
             needs="inputs_as_nchw input with symbolic H/W/C whose runtime value is materialised, extents different from each other", caught_by="C12 R-C12a origin-on-external-value", strengthened="none needed"),
 "C15": dict(property="C15", change="_save_model_proto decides `spills` itself before onnx.save_model (raw_data length vs threshold) and deletes any existing sidecar when it thinks nothing spilled",
             needs="a model whose spill decision differs between the exporter's estimate and onnx (e.g. tensors without raw_data), or a re-export next to a referenced sidecar", caught_by="C15 R-C15c",
             strengthened="R-C15c was added because of this change"),
 "C16": dict(property="C16", change="scan: the reverse rejection only fires when num_scan > 0", needs="carry-only reverse scan (xs=None) with a step-dependent output", caught_by="C16 R-C16d (re-decided C06 R-C06b instance) and C06 R-C06b",
             strengthened="C16 now re-decides the rejection instances of C06 R-C06b / C04 R-C04b under R-C16d; before, only the C06 check reported it"),
 "C17": dict(property="C17", change="BOOL source accepts every `intermediate.is_floating_point()` type, including FLOAT8E8M0 (which has no zero)", needs="Cast BOOL -> FLOAT8E8M0 -> BOOL in a graph",
             caught_by="C17 R-C17b decision::BOOL->FLOAT8E8M0->BOOL", strengthened="the reference relation was extended to the low-bit float formats (value sets enumerated from bit layouts); before, a True decision on them was UNRESOLVED"),
 "C18": dict(property="C18", change="_run_allclose takes its ORT session from an lru_cache helper keyed by (path, file size)", needs="validate, re-export a different model of the same size to the same path, validate again in one process",
             caught_by="C18 R-C18e", strengthened="R-C18e was added because of this change"),
}
for sid, d in DESC.items():
    p = os.path.join(V, "seeded", sid, "meta.json")
    meta = json.load(open(p)) if os.path.exists(p) else {"id": sid}
    meta.update(d)
    meta.setdefault("origin", "independent sub-agent given only the property text and a scratch worktree")
    json.dump(meta, open(p, "w"), indent=1)
print("updated", len(DESC))
