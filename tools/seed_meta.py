#!/usr/bin/env python3
"""Merge the hand-written description of each seeded change into /verif/seeded/<id>/meta.json."""
import json, os
V = os.path.dirname(os.path.dirname(os.path.abspath(__file__)))
DESC = {
 "C02": dict(property="C02", change="_nested_graph_references_value: the nested-graph walker no longer recurses into the graph attributes of nodes inside a nested graph",
             needs="an intermediate value captured only two or more levels deep (If inside If, Loop inside If) next to a foldable Reshape / Cast / Transpose pattern",
             caught_by="C02 R-C02g (observation predicate completeness: recursion into nested nodes)", strengthened="R-C02g was added because of this change; before, no rule looked inside the observation predicates"),
 "C05": dict(property="C05", change="_top_graph_value_map enumerates only graph inputs / initializers / outputs instead of every named value",
             needs="a custom input/output name equal to the auto-generated name of a surviving intermediate value", caught_by="C05 R-C05c collision-universe",
             strengthened="the collision-universe instance was added because of this change"),
 "C06": dict(property="C06", change="the reverse-scan rejection was weakened to `reverse and num_scan > 0` (after scan_arity)",
             needs="lax.scan(..., xs=None, length>=2, reverse=True) with a per-step output that varies", caught_by="C06 R-C06b reverse::_lower_without_scan_inputs",
             strengthened="the rule now requires `reverse` to be false as a whole atom on the path (or the callee to read it); the first version accepted any dominating guard mentioning 'reverse'"),
 "C07": dict(property="C07", change="_allocate_friendly_name keys its counter by the decorated target's name instead of the display name the identifier is built from",
             needs="two different @onnx_function targets with the same display name (same namespace and mode) in one export", caught_by="C07 R-C07d counter-key/identifier agreement",
             strengthened="R-C07d was added because of this change"),
 "C11": dict(property="C11", change="jnp.arange only takes the float32 detour for bfloat16; float16 Range inputs are emitted below opset 27",
             needs="jnp.arange(..., dtype=float16) at an opset below 27 (Range accepts float16 only from version 27)", caught_by="C11 R-C11d version-gated dtype coverage",
             strengthened="R-C11d (type-constraint extension per operator version from onnx.defs) was added because of this change; R-C11a-c only looked at operator / attribute / arity availability"),
 "C13": dict(property="C13", change="apply_monkey_patches installs the function patches before entering its try/finally (the defect repaired by de6b809, re-introduced)",
             needs="a conversion that fails while installing a later patch target after at least one target is patched (e.g. @onnx_function on a local function)", caught_by="C13 R-C13a mutate-inside-try", strengthened="none needed"),
 "C14": dict(property="C14", change="the try/finally around the @onnx_function body trace was flattened: _IN_FUNCTION_BUILD is not reset when the body trace raises",
             needs="an earlier request that fails inside the inner body re-trace, then a later request using the same @onnx_function in the same process", caught_by="C13 R-C13d and C14 R-C14e",
             strengthened="R-C14e (process-wide markers consulted by the lowering are reset on every exit) was added to C14; before only C13 reported it"),
 "C19": dict(property="C19", change="concatenate's manual argument canonicalisation reads the positional dtype only when four positionals are given (`rest[1] if len(rest) > 2`)",
             needs="jnp.concatenate((a, b), axis, dtype) with dtype as third positional argument and a dtype different from the promoted input dtype", caught_by="C19 R-C19d manual positional canonicalisation",
             strengthened="R-C19d was added because of this change; signature subsumption cannot see inside (*args, **kwargs) wrappers"),
}
for sid, d in DESC.items():
    p = os.path.join(V, "seeded", sid, "meta.json")
    meta = json.load(open(p)) if os.path.exists(p) else {"id": sid}
    meta.update(d)
    meta.setdefault("origin", "independent sub-agent given only the property text and a scratch worktree")
    json.dump(meta, open(p, "w"), indent=1)
print("updated", len(DESC))
