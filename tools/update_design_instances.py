#!/usr/bin/env python3
"""Refresh the `instances today` column of DESIGN.md's claim summary from a log of `python -m sa.cli all`
(lines `[Cxx] N instances: …`).  Usage: tools/update_design_instances.py /tmp/all.log"""
import re, sys
log = open(sys.argv[1]).read()
counts = {m.group(1): int(m.group(2)) for m in re.finditer(r"^\[(C\d\d)\] (\d+) instances", log, re.M)}
p = "/verif/DESIGN.md"
lines = open(p).read().split("\n")
n = 0
start = next(i for i, l in enumerate(lines) if l.startswith("| id | claimed | rules"))
for i, l in enumerate(lines):
    if not (start + 2 <= i < start + 2 + 19):   # the claim summary only, not the tables of sections 6 and 9
        continue
    m = re.match(r"^\| (C\d\d) \|", l)
    if not m or m.group(1) not in counts:
        continue
    cells = l.split("|")
    if len(cells) < 7:
        continue
    c = counts[m.group(1)]
    cells[4] = " " + (f"{c:,}".replace(",", " ")) + " "
    lines[i] = "|".join(cells)
    n += 1
open(p, "w").write("\n".join(lines))
print("updated", n, "rows", counts)
