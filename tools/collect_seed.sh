#!/bin/bash
# tools/collect_seed.sh <worktree> <seed-id> : verify that the worktree's diff equals _seed/patch.diff, evaluate all
# checks against it, copy the deliverables to /verif/seeded/<seed-id>/ and remove the worktree.
set -u
wt=$1; sid=$2
cd "$wt" || exit 1
git diff -- jax2onnx > /tmp/_collect.diff
if diff <(grep -v '^index' /tmp/_collect.diff) <(grep -v '^index' _seed/patch.diff) >/dev/null; then echo "patch matches worktree"; else echo "PATCH MISMATCH (using the worktree diff)"; cp /tmp/_collect.diff _seed/patch.diff; fi
cd /verif
python3 tools/eval_seed.py --repo "$wt" 2>&1 | python3 -c "import sys,json; d=json.load(sys.stdin); print('fired:', {k:[r[:220] for r in v.get('reports',[])[:2]] for k,v in d['fired'].items()})"
mkdir -p seeded/$sid
cp "$wt"/_seed/patch.diff "$wt"/_seed/demo.py "$wt"/_seed/notes.md seeded/$sid/
git -C /repo worktree remove --force "$wt" && echo "saved $sid"
