#!/usr/bin/env python3
"""Replace the table of DESIGN.md §9 by the output of tools/gen_seed_table.py."""
import os, subprocess, sys
V = os.path.dirname(os.path.dirname(os.path.abspath(__file__)))
p = os.path.join(V, "DESIGN.md")
s = open(p).read()
hdr = "| seeded id | property | change | needs to manifest | confirmed (demo / suite) | caught by | what was strengthened |"
i = s.index(hdr)
j = i
lines = s[i:].split("\n")
k = 0
while k < len(lines) and lines[k].startswith("|"):
    k += 1
end = i + len("\n".join(lines[:k]))
table = subprocess.run([sys.executable, os.path.join(V, "tools", "gen_seed_table.py")], capture_output=True, text=True, check=True).stdout.rstrip("\n")
open(p, "w").write(s[:i] + table + s[end:])
print("rows:", table.count("\n") - 1)
