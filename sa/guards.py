"""Syntactic path conditions: the tests that are known true/false when control reaches a node.

Sources: enclosing `if`/`while`/conditional-expression/short-circuit operands, and preceding
sibling abort-guards (`if P: continue|return|raise|break`) and `assert P`.
Conditions are returned as atoms: conjunctions that hold are split (`a and b` true -> a, b;
`a or b` false -> not a, not b; `not x` flips)."""
from __future__ import annotations

import ast
from typing import Iterator, List, Optional, Tuple

from .cfg import aborts
from .index import parents

Cond = Tuple[ast.expr, bool]  # (expression, truth value it has on the path)


def split_atoms(e: ast.expr, want: bool) -> List[Cond]:
    if isinstance(e, ast.UnaryOp) and isinstance(e.op, ast.Not):
        return split_atoms(e.operand, not want)
    if isinstance(e, ast.BoolOp):
        if isinstance(e.op, ast.And) == want:
            out: List[Cond] = []
            for v in e.values:
                out += split_atoms(v, want)
            return out
        return [(e, want)]
    return [(e, want)]


def _sibling_conditions(blk: List[ast.stmt], upto: int) -> List[Cond]:
    out: List[Cond] = []
    for st in blk[:upto]:
        if isinstance(st, ast.If):
            ab_body = aborts(st.body)
            ab_else = aborts(st.orelse) if st.orelse else False
            if ab_body and not ab_else:
                out += split_atoms(st.test, False)
            elif ab_else and not ab_body:
                out += split_atoms(st.test, True)
        elif isinstance(st, ast.Assert):
            out += split_atoms(st.test, True)
    return out


def path_conditions(node: ast.AST, *, stop: Optional[ast.AST] = None) -> List[Cond]:
    """Atoms known on every path reaching `node` inside its function (loops are not unrolled:
    a guard earlier in the same loop body counts for the current iteration)."""
    out: List[Cond] = []
    child = node
    for parent in parents(node):
        if isinstance(parent, (ast.Lambda, ast.ClassDef, ast.Module)):
            break
        if isinstance(parent, ast.If):
            if child in parent.body:
                out += split_atoms(parent.test, True)
            elif child in parent.orelse:
                out += split_atoms(parent.test, False)
        elif isinstance(parent, ast.IfExp):
            if child is parent.body:
                out += split_atoms(parent.test, True)
            elif child is parent.orelse:
                out += split_atoms(parent.test, False)
        elif isinstance(parent, ast.While) and child in parent.body:
            out += split_atoms(parent.test, True)
        elif isinstance(parent, ast.BoolOp) and child in parent.values:
            i = parent.values.index(child)  # type: ignore[arg-type]
            for v in parent.values[:i]:
                out += split_atoms(v, isinstance(parent.op, ast.And))
        for fld in ("body", "orelse", "finalbody"):
            blk = getattr(parent, fld, None)
            if isinstance(blk, list) and child in blk:
                out += _sibling_conditions(blk, blk.index(child))
        if isinstance(parent, (ast.FunctionDef, ast.AsyncFunctionDef)) or parent is stop:
            break
        child = parent
    return out


def calls_in_cond(conds: List[Cond]) -> Iterator[Tuple[ast.Call, bool]]:
    for e, want in conds:
        for n in ast.walk(e):
            if isinstance(n, ast.Call):
                yield n, want


def src(e: ast.AST, n: int = 100) -> str:
    try:
        s = ast.unparse(e)
    except Exception:
        s = f"<{type(e).__name__}>"
    s = " ".join(s.split())
    return s if len(s) <= n else s[: n - 3] + "..."


def disjuncts(test: ast.expr) -> List[ast.expr]:
    """Top-level `or` operands of a test (the test itself when it is not a disjunction).  A rejecting guard
    `if T: raise` rejects condition P for sure only when P is one of these — inside a conjunction it is weakened."""
    if isinstance(test, ast.BoolOp) and isinstance(test.op, ast.Or):
        out: List[ast.expr] = []
        for v in test.values:
            out += disjuncts(v)
        return out
    return [test]


def rejects(test: ast.expr, pred) -> bool:
    """Does `if test: <abort>` abort whenever a condition recognised by `pred` holds?"""
    return any(pred(d) for d in disjuncts(test))
