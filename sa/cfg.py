"""Statement-level control-flow graph for one function (or any statement list).

Nodes are integers; each carries the ast statement it stands for.  `finally` bodies are
instantiated once per way of reaching them (normal completion, exception, return, break,
continue), so an exceptional path through a `finally` never merges into the normal
continuation.  Out-edges of tests carry labels 'T' / 'F'; implicit exception edges carry
'exc'.
"""
from __future__ import annotations

import ast
from dataclasses import dataclass, field
from typing import Dict, Iterable, List, Optional, Sequence, Set, Tuple

import networkx as nx

Pred = Tuple[int, Optional[str]]  # (node, edge label)


@dataclass
class _Frame:
    kind: str  # 'loop' | 'try'
    # loop
    head: int = -1
    breaks: List[Pred] = field(default_factory=list)
    # try
    stmt: Optional[ast.Try] = None
    phase: str = "body"  # 'body' | 'handler'
    dispatch: int = -1  # exception dispatch node (lazy)


CATCH_ALL = {"Exception", "BaseException"}


class CFG:
    def __init__(self, body: Sequence[ast.stmt], label: str = ""):
        self.label = label
        self.stmt_of: Dict[int, Optional[ast.AST]] = {}
        self.kind_of: Dict[int, str] = {}
        self.succ: Dict[int, List[Tuple[int, Optional[str]]]] = {}
        self.pred: Dict[int, List[Tuple[int, Optional[str]]]] = {}
        self.nodes_by_stmt: Dict[int, List[int]] = {}
        self._n = 0
        self.ENTRY = self._new(None, "entry")
        self.EXIT = self._new(None, "exit")
        self.RAISE = self._new(None, "raise")
        exits = self._block(list(body), [(self.ENTRY, None)], [])
        self._connect(exits, self.EXIT)
        self._idom: Optional[Dict[int, int]] = None

    # -- construction ---------------------------------------------------
    def _new(self, stmt: Optional[ast.AST], kind: str = "stmt") -> int:
        n = self._n
        self._n += 1
        self.stmt_of[n] = stmt
        self.kind_of[n] = kind
        self.succ[n] = []
        self.pred[n] = []
        if stmt is not None:
            self.nodes_by_stmt.setdefault(id(stmt), []).append(n)
        return n

    def _connect(self, preds: Iterable[Pred], dst: int) -> None:
        for src, lab in preds:
            if (dst, lab) not in self.succ[src]:
                self.succ[src].append((dst, lab))
                self.pred[dst].append((src, lab))

    def _block(self, stmts: List[ast.stmt], preds: List[Pred], stack: List[_Frame]) -> List[Pred]:
        for st in stmts:
            if not preds:
                # unreachable code: still build it (detached) so its statements have nodes
                preds = []
            preds = self._stmt(st, preds, stack)
        return preds

    def _exc_edge(self, node: int, stack: List[_Frame]) -> None:
        """Implicit exception from a statement inside a try body."""
        for i in range(len(stack) - 1, -1, -1):
            fr = stack[i]
            if fr.kind == "try" and fr.phase == "body":
                self._connect([(node, "exc")], self._dispatch(fr, stack[:i]))
                return
            if fr.kind == "try" and fr.phase == "handler" and fr.stmt is not None and fr.stmt.finalbody:
                # exception inside handler/else: runs finally then propagates
                self._connect([(node, "exc")], self._dispatch(fr, stack[:i]))
                return

    def _dispatch(self, fr: _Frame, below: List[_Frame]) -> int:
        key = "dispatch_body" if fr.phase == "body" else "dispatch_handler"
        cache = fr.__dict__.setdefault("_dcache", {})
        if key in cache:
            return cache[key]
        d = self._new(fr.stmt, "exc-dispatch")
        cache[key] = d
        t = fr.stmt
        assert t is not None
        caught_all = False
        if fr.phase == "body":
            hframe = _Frame("try", stmt=t, phase="handler")
            hframe.__dict__["_dcache"] = cache  # share lazily-built handler-phase dispatch
            for h in t.handlers:
                hn = self._new(h, "handler")
                self._connect([(d, "exc")], hn)
                ex = self._block(list(h.body), [(hn, None)], below + [hframe])
                cache.setdefault("handler_exits", []).extend(ex)
                names = _handler_names(h)
                if h.type is None or (names & CATCH_ALL):
                    caught_all = True
        if not caught_all:
            p: List[Pred] = [(d, "exc")]
            if t.finalbody:
                p = self._block(list(t.finalbody), p, below)
            self._route_raise(p, below)
        return d

    def _route_raise(self, preds: List[Pred], stack: List[_Frame]) -> None:
        if not preds:
            return
        for i in range(len(stack) - 1, -1, -1):
            fr = stack[i]
            if fr.kind != "try":
                continue
            if fr.phase == "body" or (fr.stmt is not None and fr.stmt.finalbody):
                self._connect(preds, self._dispatch(fr, stack[:i]))
                return
        self._connect(preds, self.RAISE)

    def _route_jump(self, kind: str, preds: List[Pred], stack: List[_Frame]) -> None:
        """return / break / continue through enclosing finally blocks."""
        for i in range(len(stack) - 1, -1, -1):
            fr = stack[i]
            if fr.kind == "try" and fr.stmt is not None and fr.stmt.finalbody:
                preds = self._block(list(fr.stmt.finalbody), preds, stack[:i])
            elif fr.kind == "loop" and kind in ("break", "continue"):
                if kind == "break":
                    fr.breaks.extend(preds)
                else:
                    self._connect(preds, fr.head)
                return
        if kind == "return":
            self._connect(preds, self.EXIT)
        # break/continue outside loop: malformed, drop

    def _stmt(self, st: ast.stmt, preds: List[Pred], stack: List[_Frame]) -> List[Pred]:
        n = self._new(st)
        self._connect(preds, n)
        in_try = any(f.kind == "try" for f in stack)
        if in_try and not isinstance(st, (ast.Pass, ast.Break, ast.Continue)):
            self._exc_edge(n, stack)

        if isinstance(st, ast.If):
            t = self._block(list(st.body), [(n, "T")], stack)
            f = self._block(list(st.orelse), [(n, "F")], stack) if st.orelse else [(n, "F")]
            return t + f
        if isinstance(st, (ast.For, ast.AsyncFor, ast.While)):
            fr = _Frame("loop", head=n)
            body_exits = self._block(list(st.body), [(n, "T")], stack + [fr])
            self._connect(body_exits, n)
            infinite = isinstance(st, ast.While) and isinstance(st.test, ast.Constant) and bool(st.test.value)
            out: List[Pred] = [] if infinite else [(n, "F")]
            if st.orelse:
                out = self._block(list(st.orelse), out, stack)
            return out + fr.breaks
        if isinstance(st, (ast.With, ast.AsyncWith)):
            return self._block(list(st.body), [(n, None)], stack)
        if isinstance(st, ast.Try) or st.__class__.__name__ == "TryStar":
            fr = _Frame("try", stmt=st, phase="body")  # type: ignore[arg-type]
            body_exits = self._block(list(st.body), [(n, None)], stack + [fr])
            hfr = _Frame("try", stmt=st, phase="handler")  # type: ignore[arg-type]
            hfr.__dict__["_dcache"] = fr.__dict__.setdefault("_dcache", {})
            if st.orelse:
                body_exits = self._block(list(st.orelse), body_exits, stack + [hfr])
            # make sure handlers exist in the graph even when the body holds no statement
            if st.handlers and "dispatch_body" not in fr.__dict__["_dcache"]:
                self._dispatch(fr, stack)
            normal = body_exits + fr.__dict__["_dcache"].get("handler_exits", [])
            if st.finalbody:
                normal = self._block(list(st.finalbody), normal, stack)
            return normal
        if isinstance(st, ast.Return):
            self._route_jump("return", [(n, None)], stack)
            return []
        if isinstance(st, ast.Raise):
            self._route_raise([(n, "raise")], stack)
            return []
        if isinstance(st, ast.Break):
            self._route_jump("break", [(n, None)], stack)
            return []
        if isinstance(st, ast.Continue):
            self._route_jump("continue", [(n, None)], stack)
            return []
        if isinstance(st, ast.Assert):
            self._route_raise([(n, "F")], stack)
            return [(n, "T")]
        if st.__class__.__name__ == "Match":
            outs: List[Pred] = []
            exhaustive = False
            for case in st.cases:  # type: ignore[attr-defined]
                outs += self._block(list(case.body), [(n, "T")], stack)
                if isinstance(case.pattern, ast.MatchAs) and case.pattern.pattern is None and case.guard is None:
                    exhaustive = True
            if not exhaustive:
                outs.append((n, "F"))
            return outs
        return [(n, None)]

    # -- queries ---------------------------------------------------------
    def nodes_of(self, stmt: ast.AST) -> List[int]:
        return self.nodes_by_stmt.get(id(stmt), [])

    def reachable(self, sources: Iterable[int], *, removed_nodes: Iterable[int] = (), removed_edges: Iterable[Tuple[int, Optional[str]]] = ()) -> Set[int]:
        """Forward reachability.  removed_edges = {(src, label)}: all out-edges of src with that label."""
        rn = set(removed_nodes)
        re_ = set(removed_edges)
        seen: Set[int] = set()
        todo = [s for s in sources if s not in rn]
        while todo:
            x = todo.pop()
            if x in seen:
                continue
            seen.add(x)
            for y, lab in self.succ[x]:
                if (x, lab) in re_ or y in rn or y in seen:
                    continue
                todo.append(y)
        return seen

    def live_nodes(self) -> Set[int]:
        return self.reachable([self.ENTRY])

    def must_pass_nodes(self, target_nodes: Iterable[int], via_nodes: Iterable[int]) -> bool:
        """Every ENTRY->target path passes one of via_nodes (vacuously true if unreachable)."""
        via = set(via_nodes)
        r = self.reachable([self.ENTRY], removed_nodes=via)
        return not any(t in r for t in target_nodes if t not in via)

    def must_pass_edges(self, target_nodes: Iterable[int], via_edges: Iterable[Tuple[int, Optional[str]]]) -> bool:
        """Every ENTRY->target path takes one of the labelled out-edges `via_edges` = {(src,label)}.
        Implemented by removing, for each src, all *those* edges and testing reachability
        while also cutting src's other edges is NOT done: a path may avoid src entirely."""
        via = set(via_edges)
        r = self.reachable([self.ENTRY], removed_edges=via)
        return not any(t in r for t in target_nodes)

    def stmt_must_pass(self, target: ast.AST, via: Iterable[ast.AST]) -> bool:
        vn = [n for v in via for n in self.nodes_of(v)]
        return self.must_pass_nodes(self.nodes_of(target), vn)

    def guard_false_dominates(self, guard_if: ast.If, target: ast.AST, branch: str = "F") -> bool:
        """Every path to `target` leaves `guard_if` through its `branch` edge."""
        edges = [(n, branch) for n in self.nodes_of(guard_if)]
        if not edges:
            return False
        return self.must_pass_edges(self.nodes_of(target), edges)

    def dominators(self) -> Dict[int, int]:
        if self._idom is None:
            g = nx.DiGraph()
            g.add_nodes_from(self.succ)
            for s, outs in self.succ.items():
                for d, _ in outs:
                    g.add_edge(s, d)
            self._idom = dict(nx.immediate_dominators(g, self.ENTRY))
        return self._idom

    def dominates(self, a: ast.AST, b: ast.AST) -> bool:
        """Every node of stmt b is dominated by some node of stmt a."""
        idom = self.dominators()
        an = set(self.nodes_of(a))
        bn = [n for n in self.nodes_of(b) if n in idom]
        if not an or not bn:
            return False
        for n in bn:
            cur = n
            ok = False
            while True:
                if cur in an:
                    ok = True
                    break
                nxt = idom.get(cur)
                if nxt is None or nxt == cur:
                    break
                cur = nxt
            if not ok:
                return False
        return True

    def paths_to_exit_avoiding(self, via_nodes: Iterable[int], exit_node: Optional[int] = None) -> bool:
        """True if some ENTRY->EXIT path avoids all via_nodes."""
        ex = self.EXIT if exit_node is None else exit_node
        return ex in self.reachable([self.ENTRY], removed_nodes=set(via_nodes))

    def return_nodes(self) -> List[int]:
        return [n for n, s in self.stmt_of.items() if isinstance(s, ast.Return)]

    def can_reach(self, src_nodes: Iterable[int], dst_nodes: Iterable[int], *, removed_nodes: Iterable[int] = ()) -> bool:
        r = self.reachable(src_nodes, removed_nodes=removed_nodes)
        return any(d in r for d in dst_nodes)


def _handler_names(h: ast.ExceptHandler) -> Set[str]:
    if h.type is None:
        return set()
    elts = h.type.elts if isinstance(h.type, ast.Tuple) else [h.type]
    out = set()
    for e in elts:
        if isinstance(e, ast.Attribute):
            out.add(e.attr)
        elif isinstance(e, ast.Name):
            out.add(e.id)
    return out


_CACHE: Dict[int, CFG] = {}


def cfg_of(func_node: ast.AST) -> CFG:
    c = _CACHE.get(id(func_node))
    if c is None:
        c = CFG(func_node.body, getattr(func_node, "name", "<lambda>"))  # type: ignore[attr-defined]
        _CACHE[id(func_node)] = c
    return c


def aborts(body: Sequence[ast.stmt]) -> bool:
    """Does a block always end in continue/return/raise/break (one of the repo's abort idioms)?"""
    if not body:
        return False
    last = body[-1]
    if isinstance(last, (ast.Continue, ast.Return, ast.Raise, ast.Break)):
        return True
    if isinstance(last, ast.If) and last.orelse:
        return aborts(last.body) and aborts(last.orelse)
    return False
