"""Signature model and call-form subsumption."""
from __future__ import annotations

import ast
import importlib
import inspect
from dataclasses import dataclass
from typing import Any, Dict, List, Optional, Tuple

POSONLY, POSKW, VARPOS, KWONLY, VARKW = "posonly", "poskw", "varpos", "kwonly", "varkw"


@dataclass
class Param:
    name: str
    kind: str
    has_default: bool


@dataclass
class Sig:
    params: List[Param]

    @property
    def positional(self) -> List[Param]:
        return [p for p in self.params if p.kind in (POSONLY, POSKW)]

    @property
    def has_varpos(self) -> bool:
        return any(p.kind == VARPOS for p in self.params)

    @property
    def has_varkw(self) -> bool:
        return any(p.kind == VARKW for p in self.params)

    def keyword_capable(self, name: str) -> Optional[Param]:
        for p in self.params:
            if p.name == name and p.kind in (POSKW, KWONLY):
                return p
        return None

    def render(self) -> str:
        out = []
        for p in self.params:
            s = {"varpos": "*", "varkw": "**"}.get(p.kind, "") + p.name + ("=…" if p.has_default else "")
            if p.kind == KWONLY and not any(x.startswith("*") for x in out):
                out.append("*")
            out.append(s)
        return "(" + ", ".join(out) + ")"


def sig_from_ast(a: ast.arguments) -> Sig:
    ps: List[Param] = []
    pos = a.posonlyargs + a.args
    nd = len(a.defaults)
    for i, x in enumerate(pos):
        has_def = i >= len(pos) - nd
        ps.append(Param(x.arg, POSONLY if i < len(a.posonlyargs) else POSKW, has_def))
    if a.vararg is not None:
        ps.append(Param(a.vararg.arg, VARPOS, True))
    for x, d in zip(a.kwonlyargs, a.kw_defaults):
        ps.append(Param(x.arg, KWONLY, d is not None))
    if a.kwarg is not None:
        ps.append(Param(a.kwarg.arg, VARKW, True))
    return Sig(ps)


def sig_from_inspect(s: inspect.Signature) -> Sig:
    km = {
        inspect.Parameter.POSITIONAL_ONLY: POSONLY, inspect.Parameter.POSITIONAL_OR_KEYWORD: POSKW,
        inspect.Parameter.VAR_POSITIONAL: VARPOS, inspect.Parameter.KEYWORD_ONLY: KWONLY, inspect.Parameter.VAR_KEYWORD: VARKW,
    }
    return Sig([Param(p.name, km[p.kind], p.default is not inspect.Parameter.empty or p.kind in (inspect.Parameter.VAR_POSITIONAL, inspect.Parameter.VAR_KEYWORD)) for p in s.parameters.values()])


def library_object(target: str, attr: str) -> Tuple[Any, str]:
    """Import a third-party target like 'flax.nnx.Linear' and return (getattr(target, attr), error)."""
    parts = target.split(".")
    obj = None
    rest: List[str] = []
    err = ""
    for i in range(len(parts), 0, -1):
        try:
            obj = importlib.import_module(".".join(parts[:i]))
            rest = parts[i:]
            break
        except Exception as e:  # noqa: BLE001
            err = f"{type(e).__name__}: {e}"
            continue
    if obj is None:
        return None, f"cannot import {target}: {err}"
    try:
        for r in rest:
            obj = getattr(obj, r)
        return getattr(obj, attr), ""
    except AttributeError as e:
        return None, f"{target}.{attr} does not exist in the installed library ({e})"


# (library callable, parameter): the library itself rejects a call that omits the parameter although it has a default
OMIT_EXCEPTIONS = {
    ("jax.numpy.clip", "arr"): "jnp.clip() without an input raises ValueError('No input was provided to the clip function'); the default only exists for the deprecated a= spelling",
}


def unbound_forms(orig: Sig, wrap: Sig, orig_name: str = "") -> List[Tuple[str, str, str]]:
    """Call forms the original accepts that the wrapper cannot bind.
    Returns (parameter, form, explanation)."""
    out: List[Tuple[str, str, str]] = []
    wpos = wrap.positional
    opos = orig.positional
    for i, p in enumerate(opos):
        # positional form
        if i >= len(wpos) and not wrap.has_varpos:
            out.append((p.name, f"positional#{i}", f"the original takes `{p.name}` as positional argument {i}; the substitute has only {len(wpos)} positional slots and no *args"))
        # keyword form
        if p.kind == POSKW:
            if wrap.keyword_capable(p.name) is None and not wrap.has_varkw:
                alt = wpos[i].name if i < len(wpos) else None
                out.append((p.name, "keyword", f"the original accepts `{p.name}=…`; the substitute has no keyword-capable parameter of that name" + (f" (its slot {i} is named `{alt}`)" if alt and alt != p.name else "")))
        # omitted form
        if p.has_default:
            wp = wrap.keyword_capable(p.name) or (wpos[i] if i < len(wpos) else None)
            if i < len(wpos) and not wpos[i].has_default and not p.kind == VARPOS and (orig_name, p.name) not in OMIT_EXCEPTIONS:
                out.append((p.name, "omitted", f"`{p.name}` is optional in the original but substitute parameter `{wpos[i].name}` (slot {i}) is required"))
    for p in orig.params:
        if p.kind == KWONLY:
            wp = wrap.keyword_capable(p.name)
            if wp is None and not wrap.has_varkw:
                out.append((p.name, "keyword-only", f"the original accepts keyword-only `{p.name}=…`; the substitute does not"))
            elif wp is not None and p.has_default and not wp.has_default:
                out.append((p.name, "omitted", f"`{p.name}` is optional in the original but required by the substitute"))
        elif p.kind == VARPOS and not wrap.has_varpos:
            out.append((p.name, "var-positional", "the original accepts *args; the substitute does not"))
        elif p.kind == VARKW and not wrap.has_varkw:
            out.append((p.name, "var-keyword", "the original accepts **kwargs; the substitute does not"))
    # a positional slot that the substitute names after ANOTHER positional parameter of the original: the two agree on the
    # keyword form and silently swap the positional one (f(q, k, v, bias) read as f(q, k, v, mask))
    oidx = {p.name: i for i, p in enumerate(opos)}
    for i, wp in enumerate(wpos):
        if i < len(opos) and opos[i].name == "out":
            continue    # jax.numpy accepts `out` only as None: whatever the substitute calls that slot receives None or the call is invalid in JAX
        if i < len(opos) and wp.name != opos[i].name and wp.name in oidx and oidx[wp.name] != i:
            out.append((wp.name, f"positional-order#{i}", f"positional argument {i} is `{opos[i].name}` in the original but the substitute binds it to `{wp.name}` "
                        f"(the original's positional argument {oidx[wp.name]}): a positional call is accepted and read as a different argument"))
    # required extras of the wrapper
    onames = {p.name for p in orig.params}
    for j, wp in enumerate(wrap.params):
        if wp.kind in (POSONLY, POSKW) and not wp.has_default and j >= len(opos) and not orig.has_varpos and wp.name not in onames:
            out.append((wp.name, "extra-required", f"the substitute requires `{wp.name}` which the original does not have"))
        if wp.kind == KWONLY and not wp.has_default and wp.name not in onames and not orig.has_varkw:
            out.append((wp.name, "extra-required", f"the substitute requires keyword `{wp.name}` which the original does not have"))
    return out
