"""Resolve tracing-time patch specs: MonkeyPatchSpec(target, attr, make_value) / jnp_binding_specs(prim, name)
to (library target, attribute, installed wrapper definition)."""
from __future__ import annotations

import ast
from dataclasses import dataclass, field
from typing import Any, Dict, List, Optional, Tuple

from .index import ClassInfo, FuncInfo, Index, Module, call_name, dotted, fold_const, is_const, walk_no_nested


@dataclass
class PatchSpec:
    module: Module
    cls: Optional[ClassInfo]
    call: ast.Call
    target: Optional[str]        # "jax.numpy"
    attr: Optional[str]          # "select"
    wrapper: Optional[ast.AST]   # FunctionDef / Lambda of the installed callable
    wrapper_fi: Optional[FuncInfo]
    generic: bool = False        # (*args, **kwargs) -> prim.bind(*args, **kwargs)
    kind: str = "monkey"         # monkey | jnp_generic | assign
    why: str = ""
    chain: List[str] = field(default_factory=list)

    @property
    def site(self) -> str:
        return f"{self.module.rel}:{self.call.lineno}"

    @property
    def fq(self) -> str:
        return f"{self.target}.{self.attr}"


def _local_env(idx: Index, m: Module, cls: Optional[ClassInfo], fn: ast.AST) -> Dict[str, Any]:
    env = dict(m.consts)
    if cls is not None:
        for c in reversed(idx.class_mro(cls)):
            env.update(c.consts)
    for n in walk_no_nested(fn):
        if isinstance(n, ast.Assign) and len(n.targets) == 1 and isinstance(n.targets[0], ast.Name):
            v = fold_const(n.value, env)
            if is_const(v):
                env[n.targets[0].id] = v
    return env


def _returned_callable(idx: Index, m: Module, cls: Optional[ClassInfo], fn_node: ast.AST, depth: int = 0) -> Tuple[Optional[ast.AST], str]:
    """The def/lambda a factory returns (through cast(), local names, method calls)."""
    if depth > 4:
        return None, "depth"
    inner = {n.name: n for n in ast.walk(fn_node) if isinstance(n, (ast.FunctionDef, ast.AsyncFunctionDef)) and n is not fn_node}
    fi_outer = m.func_containing(fn_node) if not isinstance(fn_node, ast.Lambda) else None
    rets: List[ast.expr] = []
    if isinstance(fn_node, ast.Lambda):
        rets = [fn_node.body]
    else:
        for n in walk_no_nested(fn_node):
            if isinstance(n, ast.Return) and n.value is not None:
                rets.append(n.value)
    why = "no return of a callable"
    for v in rets:
        while isinstance(v, ast.Call) and (call_name(v) or "") == "cast" and len(v.args) == 2:
            v = v.args[1]
        if isinstance(v, ast.Name) and v.id in inner:
            return inner[v.id], ""
        if isinstance(v, ast.Lambda):
            return v, ""
        if isinstance(v, ast.Call):
            cn = call_name(v) or ""
            # functools.wraps(orig)(inner) / wraps(orig)(inner)
            if isinstance(v.func, ast.Call) and (call_name(v.func) or "").endswith("wraps") and v.args and isinstance(v.args[0], ast.Name) and v.args[0].id in inner:
                return inner[v.args[0].id], ""
            head = cn.split(".")[0]
            g: Optional[FuncInfo] = None
            if head in ("cls", "self") and cls is not None and "." in cn:
                g = idx.resolve_method(cls, cn.split(".", 1)[1])
            elif cn in inner:
                return _returned_callable(idx, m, cls, inner[cn], depth + 1)
            elif cn:
                scope = m.func_containing(v)
                g = idx.resolve_func(m, cn, cls=cls, scope=scope)
            if g is not None:
                r, w = _returned_callable(idx, g.module, g.cls or cls, g.node, depth + 1)
                if r is not None:
                    return r, ""
                why = w
        if isinstance(v, ast.Name):
            # local variable assigned from a def/lambda/call
            for n in walk_no_nested(fn_node):
                if isinstance(n, ast.Assign) and any(isinstance(t, ast.Name) and t.id == v.id for t in n.targets):
                    fake = ast.Lambda(args=ast.arguments(posonlyargs=[], args=[], kwonlyargs=[], kw_defaults=[], defaults=[]), body=n.value)
                    fake.parent = fn_node  # type: ignore[attr-defined]
                    r, w = _returned_callable(idx, m, cls, fake, depth + 1)
                    if r is not None:
                        return r, ""
    return None, why


def _is_generic_forwarder(w: ast.AST) -> bool:
    """def f(*args, **kwargs): return prim.bind(*args, **kwargs)   (nothing else)"""
    a = w.args  # type: ignore[attr-defined]
    if a.posonlyargs or a.args or a.kwonlyargs or a.vararg is None or a.kwarg is None:
        return False
    body = [st for st in w.body if not (isinstance(st, ast.Expr) and isinstance(st.value, ast.Constant))]  # type: ignore[attr-defined]
    if len(body) != 1 or not isinstance(body[0], ast.Return) or not isinstance(body[0].value, ast.Call):
        return False
    c = body[0].value
    while isinstance(c, ast.Call) and (call_name(c) or "") == "cast" and len(c.args) == 2 and isinstance(c.args[1], ast.Call):
        c = c.args[1]
    if not (isinstance(c.func, ast.Attribute) and c.func.attr == "bind"):
        return False
    star = [x for x in c.args if isinstance(x, ast.Starred) and isinstance(x.value, ast.Name) and x.value.id == a.vararg.arg]
    dstar = [k for k in c.keywords if k.arg is None and isinstance(k.value, ast.Name) and k.value.id == a.kwarg.arg]
    return len(star) == 1 and len(c.args) == 1 and len(dstar) == 1 and len(c.keywords) == 1


def collect_specs(idx: Index) -> Tuple[List[PatchSpec], Dict[str, int]]:
    out: List[PatchSpec] = []
    stats = {"binding_specs_methods": 0, "monkey_calls": 0, "jnp_generic_calls": 0}
    for m in idx.product_modules():
        if "MonkeyPatchSpec" not in m.src and "jnp_binding_specs" not in m.src:
            continue
        for n in ast.walk(m.tree):
            if not isinstance(n, ast.Call):
                continue
            cn = (call_name(n) or "").split(".")[-1]
            if cn not in ("MonkeyPatchSpec", "jnp_binding_specs"):
                continue
            fi = m.func_containing(n)
            if fi is None:
                continue
            cls = fi.cls
            top = fi
            while top.parent_func is not None:
                top = top.parent_func
            env = _local_env(idx, m, cls, top.node)
            if cn == "jnp_binding_specs":
                if fi.name == "jnp_binding_specs":
                    continue
                stats["jnp_generic_calls"] += 1
                a = fold_const(n.args[1], env) if len(n.args) > 1 else None
                if not (is_const(a) and isinstance(a, str)):
                    for k in n.keywords:
                        if k.arg == "func_name":
                            a = fold_const(k.value, env)
                ok = is_const(a) and isinstance(a, str)
                # subclasses overriding _FUNC_NAME share this call
                names = [a] if ok else []
                if not ok and cls is not None:
                    names = _subclass_consts(idx, cls, n.args[1] if len(n.args) > 1 else None)
                for nm in names or [None]:
                    out.append(PatchSpec(m, cls, n, "jax.numpy", nm, None, None, generic=True, kind="jnp_generic", why="" if nm else "function name not constant"))
                continue
            if m.rel.endswith("_common.py") and fi.name == "jnp_binding_specs":
                continue
            stats["monkey_calls"] += 1
            kw = {k.arg: k.value for k in n.keywords if k.arg}
            args = list(n.args)
            tgt_e = kw.get("target") or (args[0] if args else None)
            attr_e = kw.get("attr") or (args[1] if len(args) > 1 else None)
            mv_e = kw.get("make_value") or (args[2] if len(args) > 2 else None)
            t = fold_const(tgt_e, env) if tgt_e is not None else None
            a = fold_const(attr_e, env) if attr_e is not None else None
            tnames: List[Optional[str]] = [t] if (is_const(t) and isinstance(t, str)) else []
            anames: List[Optional[str]] = [a] if (is_const(a) and isinstance(a, str)) else []
            if not tnames and tgt_e is not None:
                d = dotted(tgt_e)
                if d and d.split(".")[0] in m.imports:
                    tnames = [m.resolve(d)]
                elif isinstance(tgt_e, ast.Name):
                    # module-level alias of an imported module:  pix = cast(ModuleType | None, _dm_pix)
                    for st in ast.walk(m.tree):
                        if isinstance(st, ast.Assign) and m.func_containing(st) is None and any(isinstance(x, ast.Name) and x.id == tgt_e.id for x in st.targets):
                            for x in ast.walk(st.value):
                                if isinstance(x, ast.Name) and x.id in m.imports and not m.imports[x.id].startswith(("typing", "types")) and x.id not in ("cast", "ModuleType"):
                                    cand = m.imports[x.id]
                                    if cand not in tnames:
                                        tnames.append(cand)
            if not anames and cls is not None and attr_e is not None:
                anames = list(_subclass_consts(idx, cls, attr_e))
            if not tnames and cls is not None and tgt_e is not None:
                tnames = list(_subclass_consts(idx, cls, tgt_e))
            wrapper, why = (None, "no make_value")
            if mv_e is not None:
                wrapper, why = _resolve_make_value(idx, m, cls, fi, mv_e)
            for tn in tnames or [None]:
                for an in anames or [None]:
                    sp = PatchSpec(m, cls, n, tn, an, wrapper, None, why=why if wrapper is None else "")
                    if wrapper is not None and not isinstance(wrapper, ast.Lambda):
                        sp.wrapper_fi = m.func_of_node.get(id(wrapper)) or _find_fi(idx, wrapper)
                        sp.generic = _is_generic_forwarder(wrapper)
                    if tn is None or an is None:
                        sp.why = (sp.why + "; " if sp.why else "") + "target/attr not constant"
                    out.append(sp)
    return out, stats


def _find_fi(idx: Index, node: ast.AST) -> Optional[FuncInfo]:
    for m in idx.modules.values():
        fi = m.func_of_node.get(id(node))
        if fi is not None:
            return fi
    return None


def _subclass_consts(idx: Index, cls: ClassInfo, e: Optional[ast.AST]) -> List[str]:
    """Values of a `cls._X`-style expression over the class and its subclasses."""
    if e is None:
        return []
    out: List[str] = []
    for m in idx.modules.values():
        for c in m.classes.values():
            mro = idx.class_mro(c)
            if cls not in mro:
                continue
            env = dict(c.module.consts)
            for b in reversed(mro):
                env.update(b.consts)
            v = fold_const(e, env)
            if is_const(v) and isinstance(v, str) and v not in out:
                out.append(v)
    return out


def _resolve_make_value(idx: Index, m: Module, cls: Optional[ClassInfo], fi: FuncInfo, mv: ast.AST) -> Tuple[Optional[ast.AST], str]:
    # nested def in the enclosing functions
    if isinstance(mv, ast.Name):
        cur: Optional[FuncInfo] = fi
        while cur is not None:
            cand = m.funcs.get(f"{cur.qualname}.<locals>.{mv.id}")
            if cand is not None:
                return _returned_callable(idx, m, cls, cand.node)
            cur = cur.parent_func
        g = idx.resolve_func(m, mv.id, cls=cls, scope=fi)
        if g is not None:
            return _returned_callable(idx, g.module, g.cls or cls, g.node)
        return None, f"make_value name {mv.id} unresolved"
    if isinstance(mv, ast.Lambda):
        return _returned_callable(idx, m, cls, mv)
    if isinstance(mv, ast.Attribute):
        d = dotted(mv) or ""
        head = d.split(".")[0]
        if head in ("cls", "self") and cls is not None:
            g = idx.resolve_method(cls, d.split(".", 1)[1])
            if g is not None:
                return _returned_callable(idx, g.module, g.cls or cls, g.node)
        g = idx.resolve_func(m, d, cls=cls, scope=fi)
        if g is not None:
            return _returned_callable(idx, g.module, g.cls or cls, g.node)
        return None, f"make_value {d} unresolved"
    if isinstance(mv, ast.Call):
        # factory(...)  returning a make_value function
        cn = call_name(mv) or ""
        g = None
        if cn.split(".")[0] in ("cls", "self") and cls is not None and "." in cn:
            g = idx.resolve_method(cls, cn.split(".", 1)[1])
        elif cn:
            g = idx.resolve_func(m, cn, cls=cls, scope=fi)
        if g is not None:
            mk, why = _returned_callable(idx, g.module, g.cls or cls, g.node)
            if mk is not None and not isinstance(mk, ast.Lambda):
                return _returned_callable(idx, g.module, g.cls or cls, mk)
            if isinstance(mk, ast.Lambda):
                return _returned_callable(idx, g.module, g.cls or cls, mk)
            return None, why
    return None, f"make_value form {type(mv).__name__}"
