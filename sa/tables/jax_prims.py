"""Keyword parameter names JAX passes to `<prim>_p.bind(...)`, from an AST scan of the installed
jax sources (third-party reference table; nothing is executed)."""
from __future__ import annotations

import ast
import glob
import os
from typing import Dict, Optional, Set, Tuple


class JaxPrims:
    def __init__(self) -> None:
        import importlib.util

        spec = importlib.util.find_spec("jax")
        if spec is None or not spec.submodule_search_locations:
            raise RuntimeError("jax is not installed")
        root = os.path.join(list(spec.submodule_search_locations)[0], "_src")
        self.root = root
        self.bind_kw: Dict[str, Set[str]] = {}      # prim variable (e.g. round_p) -> keyword names
        self.wholesale: Set[str] = set()            # prims bound with **params somewhere
        self.name_to_var: Dict[str, str] = {}       # primitive name string -> variable
        self.files = 0
        trees = {}
        definers: Dict[str, Set[str]] = {}
        for path in glob.glob(os.path.join(root, "**", "*.py"), recursive=True):
            try:
                tree = ast.parse(open(path, encoding="utf-8").read())
            except Exception:
                continue
            trees[path] = tree
            for st in tree.body:
                if isinstance(st, ast.Assign) and len(st.targets) == 1 and isinstance(st.targets[0], ast.Name) and st.targets[0].id.endswith("_p"):
                    definers.setdefault(st.targets[0].id, set()).add(path)
        core_prefix = os.path.join(root, "lax") + os.sep
        for path, tree in trees.items():
            self.files += 1
            # a file that defines its *own* primitive variable of a name that jax.lax also defines (pallas
            # gather_p / scatter_p …) speaks about a different primitive: skip its bind sites for that name
            shadowed = {v for v, fs in definers.items() if path in fs and not path.startswith(core_prefix) and any(f.startswith(core_prefix) for f in fs)}
            for n in ast.walk(tree):
                if isinstance(n, ast.Call) and isinstance(n.func, ast.Attribute) and n.func.attr == "bind":
                    v = n.func.value
                    nm = v.id if isinstance(v, ast.Name) else (v.attr if isinstance(v, ast.Attribute) else None)
                    if nm and nm.endswith("_p") and not (isinstance(v, ast.Name) and nm in shadowed):
                        s = self.bind_kw.setdefault(nm, set())
                        for kw in n.keywords:
                            if kw.arg is None:
                                self.wholesale.add(nm)
                            else:
                                s.add(kw.arg)
                elif isinstance(n, ast.Assign) and len(n.targets) == 1 and isinstance(n.targets[0], ast.Name) and n.targets[0].id.endswith("_p") and isinstance(n.value, ast.Call):
                    for a in ast.walk(n.value):
                        if isinstance(a, ast.Constant) and isinstance(a.value, str) and a.value and " " not in a.value:
                            self.name_to_var.setdefault(a.value, n.targets[0].id)
        try:
            import jax

            self.version = jax.__version__
        except Exception:
            self.version = "?"

    def params_of(self, prim_var: str) -> Optional[Tuple[Set[str], bool]]:
        if prim_var not in self.bind_kw:
            return None
        return self.bind_kw[prim_var], prim_var in self.wholesale


_J: Optional[JaxPrims] = None


def get_jax_prims() -> JaxPrims:
    """Scan once per jax version; the table is cached under /verif/.cache (regenerated when absent)."""
    global _J
    if _J is not None:
        return _J
    import json
    try:
        import jax
        ver = jax.__version__
        root = os.path.dirname(jax.__file__)
    except Exception:
        ver, root = "?", ""
    cdir = os.path.join(os.path.dirname(os.path.dirname(os.path.dirname(os.path.abspath(__file__)))), ".cache")
    cfile = os.path.join(cdir, f"jax_prims_{ver}.json")
    try:
        with open(cfile) as fh:
            d = json.load(fh)
        if d.get("root") == root and d.get("schema") == 2:
            j = JaxPrims.__new__(JaxPrims)
            j.root = root
            j.bind_kw = {k: set(v) for k, v in d["bind_kw"].items()}
            j.wholesale = set(d["wholesale"])
            j.name_to_var = d["name_to_var"]
            j.files = d["files"]
            j.version = ver
            _J = j
            return _J
    except Exception:
        pass
    _J = JaxPrims()
    try:
        os.makedirs(cdir, exist_ok=True)
        with open(cfile, "w") as fh:
            json.dump({"schema": 2, "root": root, "bind_kw": {k: sorted(v) for k, v in _J.bind_kw.items()}, "wholesale": sorted(_J.wholesale),
                       "name_to_var": _J.name_to_var, "files": _J.files}, fh)
    except Exception:
        pass
    return _J
