"""Frozen tables of parameters that carry no semantics for an exported (inference, single-device) model.
Every entry has a one-line reason.  Tables only ever excuse; a name absent from them is not excused."""

# (substitute "target.attr" or "*", wrapper parameter) -> reason
INERT_WRAPPER_PARAMS = {
    ("*", "out_sharding"): "sharding annotation; single-device ONNX export ignores sharding (AGENTS.md documents this)",
    ("*", "sharding"): "sharding annotation; no meaning in a single-device model",
    ("equinox.nn.Dropout.__call__", "key"): "the PRNG key only seeds the random mask; ONNX Dropout draws its own mask with the same distribution, so no exported value depends on it",
}

# A wrapper parameter is also inert when the replaced library callable documents it as ignored:
# its docstring contains "`<name>`: Ignored" (Equinox does this for `key` / `state` on deterministic layers).
DOC_IGNORED_PATTERN = r"`{name}`:\s*Ignored"

# (jax primitive variable or "*", parameter) -> reason why a lowering need not read it
INERT_PRIM_PARAMS = {
    ("*", "sharding"): "sharding annotation; no meaning in a single-device ONNX model",
    ("rng_bit_generator_p", "algorithm"): "the lowering replaces JAX's counter-based generator by ONNX RandomUniform altogether: the bits are not reproduced for ANY algorithm (plugin docstring; its testcases skip numeric validation), so the choice of algorithm has no ONNX counterpart",
    ("*", "out_sharding"): "sharding annotation (AGENTS.md documents that it is ignored)",
    ("*", "precision"): "XLA matmul precision hint; ONNX has no counterpart, results stay within float tolerance",
    ("*", "accuracy"): "XLA transcendental accuracy hint",
    ("*", "unroll"): "loop unrolling hint for XLA; does not change results",
    ("*", "_split_transpose"): "scan AD implementation hint",
    ("*", "linear"): "linearity flags used by AD only",
    ("*", "indices_are_sorted"): "optimisation hint: a promise about the indices, not a semantic switch",
    ("*", "unique_indices"): "optimisation hint: a promise about the indices",
    ("*", "weak_type"): "weak-type flag of the result aval; the ONNX dtype comes from the output aval",
    ("*", "new_dtype"): "derivable: equals the output aval's dtype, which the lowering reads",
    ("*", "dtype"): "derivable from the output aval",
    ("*", "shape"): "derivable from the output aval",
    ("*", "new_sizes"): "derivable from the output aval's shape",
    ("*", "index_dtype"): "derivable from the output aval",
    ("*", "preferred_element_type"): "derivable from the output aval's dtype",
    ("*", "jaxpr"): "sub-jaxpr parameter handled by the control-flow plugins through dedicated accessors",
    ("*", "input_dtype"): "derivable from the operand aval",
    ("*", "out_dtype"): "derivable from the output aval",
    # --- per primitive (confirmed by reading the jax sources and the plugin) ---
    ("eig_p", "enable_eigvec_derivs"): "only switches the JVP rule; the primal results are identical",
    ("eig_p", "implementation"): "backend implementation choice (LAPACK / cuSOLVER); same mathematical result",
    ("eigh_p", "algorithm"): "backend algorithm choice (QR / Jacobi); same mathematical result",
    ("svd_p", "algorithm"): "backend algorithm choice; same mathematical result",
    ("svd_p", "full_matrices"): "the lowering only accepts 1x1 inputs or compute_uv=False and raises NotImplementedError otherwise; there full and reduced SVD coincide",
    ("qr_p", "use_magma"): "GPU backend selection",
    ("schur_p", "sort_eig_vals"): "documented as unused by jax.lax.linalg.schur; jax's own CPU lowering rejects True",
    ("tridiagonal_solve_p", "perturb_singular"): "selects a GPU kernel variant for singular systems; the default (False) is the only path on CPU",
    ("remat_p", "differentiated"): "rematerialisation bookkeeping for AD; forward values are unchanged",
    ("remat_p", "policy"): "which residuals to save under AD; forward values are unchanged",
    ("remat_p", "prevent_cse"): "XLA scheduling hint",
    ("shard_map_p", "check_vma"): "static checking flag", ("shard_map_p", "debug_info"): "debug info",
    ("shard_map_p", "in_specs"): "partitioning specs; a single-device export evaluates the body on the whole array",
    ("shard_map_p", "out_specs"): "partitioning specs", ("shard_map_p", "mesh"): "device mesh; single-device export",
    ("shard_map_p", "newly_manual_axes"): "partitioning bookkeeping", ("shard_map_p", "subfuns"): "internal wrapped functions of the same body jaxpr",
    ("random_seed_p", "impl"): "PRNG implementation: the exported random ops do not reproduce JAX's bit stream for any impl",
    ("random_wrap_p", "impl"): "PRNG implementation tag of the key array",
    ("approx_top_k_p", "recall_target"): "approximation budget: the exact top-k that is exported satisfies every recall target",
    ("approx_top_k_p", "aggregate_to_topk"): "approximation tuning of the TPU kernel", ("approx_top_k_p", "reduction_input_size_override"): "approximation tuning of the TPU kernel",
    ("device_put_p", "devices"): "placement; single-device export", ("device_put_p", "srcs"): "placement", ("device_put_p", "copy_semantics"): "buffer aliasing / donation semantics, not values",
    ("name_p", "name"): "debug name of the value",
    ("scan_p", "ft_out"): "output partition (carry | stacked ys): determined by the carry count decoded from ft_in and the number of outputs",
    ("sharding_constraint_p", "context_mesh"): "partitioning; single-device export", ("sharding_constraint_p", "layout"): "device memory layout hint",
    ("sharding_constraint_p", "unconstrained_dims"): "partitioning",
    ("sort_p", "is_stable"): "ONNX TopK breaks ties by the lower index, i.e. it is always stable; a stable order is admissible when is_stable=False",
    ("top_k_p", "is_stable"): "ONNX TopK is always index-stable",
    ("scatter_p", "update_jaxpr"): "the combiner is fixed by the primitive identity (scatter = overwrite)", ("scatter_p", "update_consts"): "constants of that combiner",
    ("scatter_add_p", "update_jaxpr"): "combiner fixed by the primitive identity (add)", ("scatter_add_p", "update_consts"): "constants of that combiner",
    ("scatter_mul_p", "update_jaxpr"): "combiner fixed by the primitive identity (mul)", ("scatter_mul_p", "update_consts"): "constants of that combiner",
    ("scatter_min_p", "update_jaxpr"): "combiner fixed by the primitive identity (min)", ("scatter_min_p", "update_consts"): "constants of that combiner",
    ("scatter_max_p", "update_jaxpr"): "combiner fixed by the primitive identity (max)", ("scatter_max_p", "update_consts"): "constants of that combiner",
    ("scatter_sub_p", "update_jaxpr"): "combiner fixed by the primitive identity (sub)", ("scatter_sub_p", "update_consts"): "constants of that combiner",
}

# keys of plugin-owned primitives that only shape / type the result (read by abstract_eval, derivable in lower)
SHAPE_ONLY_BIND_KEYS = {
    "dtype": "result dtype: lower() reads it from the output aval",
    "shape": "result shape: lower() reads it from the output aval",
    "out_sharding": "sharding annotation",
    "precision": "XLA precision hint",
    "axes_is_tuple": "bookkeeping flag telling abstract_eval how to call the original reduction; the reduced axes themselves are bound as `axes`",
    "method": "algorithm choice of jnp.searchsorted / jnp.digitize ('scan', 'sort', 'compare_all'): all methods return the same indices",
    "param_dtype": "dtype used to initialise parameters at module construction; the bound kernel/bias already carry it",
    "mode": "sampling-precision mode of jax.random.categorical; the exported sampler does not reproduce JAX's bit stream in either mode",
}
