"""Frozen tables of parameters that carry no semantics for an exported (inference, single-device) model.
Every entry has a one-line reason.  Tables only ever excuse; a name absent from them is not excused."""

# (substitute "target.attr" or "*", wrapper parameter) -> reason
INERT_WRAPPER_PARAMS = {
    ("*", "out_sharding"): "sharding annotation; single-device ONNX export ignores sharding (AGENTS.md documents this)",
    ("*", "sharding"): "sharding annotation; no meaning in a single-device model",
    ("equinox.nn.Dropout.__call__", "key"): "the PRNG key only seeds the random mask; ONNX Dropout draws its own mask with the same distribution, so no exported value depends on it",
}

# A wrapper parameter is also inert when the replaced library callable documents it as ignored:
# its docstring contains "`<name>`: Ignored" (Equinox does this for `key` / `state` on deterministic layers).
DOC_IGNORED_PATTERN = r"`{name}`:\s*Ignored"
