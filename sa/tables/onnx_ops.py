"""ONNX operator history, read from the installed `onnx` package (a third-party reference
table, regenerated on every run; jax2onnx itself is not imported)."""
from __future__ import annotations

from typing import Dict, Optional


class OpHistory:
    def __init__(self) -> None:
        import onnx.defs

        self.newest: int = onnx.defs.onnx_opset_version()
        self.hist: Dict[str, Dict[int, object]] = {}
        for s in onnx.defs.get_all_schemas_with_history():
            if s.domain in ("", "ai.onnx"):
                self.hist.setdefault(s.name, {})[s.since_version] = s
        self.onnx_version = getattr(__import__("onnx"), "__version__", "?")

    def known(self, op: str) -> bool:
        return op in self.hist

    def schema_at(self, op: str, v: int):
        vs = [k for k in self.hist.get(op, {}) if k <= v]
        return self.hist[op][max(vs)] if vs else None

    def available(self, op: str, v: int) -> bool:
        s = self.schema_at(op, v)
        return s is not None and not s.deprecated

    def since(self, op: str) -> Optional[int]:
        return min(self.hist[op]) if op in self.hist else None

    def attrs_at(self, op: str, v: int):
        s = self.schema_at(op, v)
        return set(s.attributes) if s is not None else None

    def max_inputs(self, op: str, v: int) -> Optional[int]:
        s = self.schema_at(op, v)
        return s.max_input if s is not None else None

    def max_outputs(self, op: str, v: int) -> Optional[int]:
        s = self.schema_at(op, v)
        return s.max_output if s is not None else None


_H: Optional[OpHistory] = None


def get_history() -> OpHistory:
    global _H
    if _H is None:
        _H = OpHistory()
    return _H
