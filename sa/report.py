"""Verdict bookkeeping, evidence / replay files, known findings, exit codes."""
from __future__ import annotations

import json
import os
import re
import sys
import time
from dataclasses import dataclass, field, asdict
from typing import Any, Dict, Iterable, List, Optional

VERIF = os.path.dirname(os.path.dirname(os.path.abspath(__file__)))
_OUT = os.environ.get("VERIF_OUT_DIR") or VERIF  # the self-test redirects evidence/replays of scratch runs
EVIDENCE_DIR = os.path.join(_OUT, "evidence")
REPLAY_DIR = os.path.join(_OUT, "replays")
KNOWN_FILE = os.path.join(VERIF, "known_findings.json")

OK = "OK"
VIOLATION = "VIOLATION"
UNRESOLVED = "UNRESOLVED"


@dataclass
class Instance:
    rule: str          # e.g. "R-C11a"
    status: str        # OK | VIOLATION | UNRESOLVED
    site: str          # file:line
    key: str           # construct key (no line numbers): used for known findings and replay names
    detail: str = ""   # human explanation
    func: str = ""     # enclosing function qualname
    extra: Dict[str, Any] = field(default_factory=dict)

    def brief(self) -> Dict[str, Any]:
        d = {"rule": self.rule, "status": self.status, "site": self.site, "key": self.key}
        if self.func:
            d["function"] = self.func
        if self.detail:
            d["detail"] = self.detail
        if self.extra:
            d["extra"] = self.extra
        return d


class Results:
    """Collects instances for one property check."""

    def __init__(self, prop: str, tier: str):
        self.prop = prop
        self.tier = tier
        self.instances: List[Instance] = []
        self.rules: Dict[str, str] = {}      # rule id -> one-line statement of the rule
        self.floors: Dict[str, int] = {}     # rule id -> minimal number of instances
        self.analysed: Dict[str, Any] = {}   # free-form counters (files, functions, ...)
        self.assumptions: List[str] = []
        self.trusted: List[str] = ["CPython ast module (parser)", "the rule tables in /verif/sa/tables (each entry carries its reason)"]
        self.controls: List[Dict[str, Any]] = []
        self.t0 = time.time()

    def rule(self, rid: str, text: str, floor: int = 1) -> None:
        self.rules[rid] = text
        self.floors[rid] = floor

    def add(self, rule: str, status: str, site: str, key: str, detail: str = "", func: str = "", **extra: Any) -> Instance:
        inst = Instance(rule, status, site, key, detail, func, dict(extra))
        self.instances.append(inst)
        return inst

    def ok(self, rule, site, key, detail="", func="", **extra):
        return self.add(rule, OK, site, key, detail, func, **extra)

    def violation(self, rule, site, key, detail="", func="", **extra):
        return self.add(rule, VIOLATION, site, key, detail, func, **extra)

    def unresolved(self, rule, site, key, detail="", func="", **extra):
        return self.add(rule, UNRESOLVED, site, key, detail, func, **extra)

    def control(self, rule: str, name: str, fired: bool, detail: str = "") -> None:
        """Positive control: an in-memory violating snippet the rule MUST flag."""
        self.controls.append({"rule": rule, "control": name, "fired": fired, "detail": detail})

    def count(self, rule: str, status: Optional[str] = None) -> int:
        return sum(1 for i in self.instances if i.rule == rule and (status is None or i.status == status))


class KnownFindings:
    def __init__(self, path: str = KNOWN_FILE):
        self.entries: List[Dict[str, Any]] = []
        if os.path.exists(path):
            with open(path) as fh:
                data = json.load(fh)
            self.entries = data.get("findings", [])

    def match(self, prop: str, inst: Instance) -> Optional[Dict[str, Any]]:
        for e in self.entries:
            if e.get("status") != "open":
                continue
            if e.get("property") == prop and e.get("rule") == inst.rule and e.get("key") == inst.key:
                return e
        return None


def _safe(s: str) -> str:
    return re.sub(r"[^A-Za-z0-9_.=-]+", "_", s)[:150]


def finish(res: Results, *, seed: int = 0) -> int:
    """Write evidence + replay files, print verdict lines, return the exit code."""
    known = KnownFindings()
    errors: List[str] = []
    # floors: a rule matching fewer sites than confirmed by hand is an analysis failure
    for rid, floor in res.floors.items():
        n = res.count(rid)
        if n < floor:
            errors.append(f"rule {rid} matched {n} instances, below the confirmed floor {floor}")
    for c in res.controls:
        if not c["fired"]:
            errors.append(f"positive control '{c['control']}' of {c['rule']} no longer fires")

    os.makedirs(EVIDENCE_DIR, exist_ok=True)
    viol_lines: List[str] = []
    known_lines: List[str] = []
    new_violations = 0
    rdir = os.path.join(REPLAY_DIR, res.prop)
    if os.path.isdir(rdir):
        for f in os.listdir(rdir):
            try:
                os.unlink(os.path.join(rdir, f))
            except OSError:
                pass
    for inst in res.instances:
        if inst.status != VIOLATION:
            continue
        k = known.match(res.prop, inst)
        if k is not None:
            known_lines.append(f"KNOWN-FINDING: property={res.prop} {inst.rule} {inst.key}: {k.get('what_fails', inst.detail)}")
            inst.extra["known_finding"] = True
            continue
        new_violations += 1
        os.makedirs(rdir, exist_ok=True)
        rp = os.path.join(rdir, _safe(f"{inst.rule}-{inst.key}") + ".json")
        with open(rp, "w") as fh:
            json.dump({"property": res.prop, **inst.brief(), "rule_text": res.rules.get(inst.rule, "")}, fh, indent=1)
        viol_lines.append(f"VIOLATION property={res.prop} replay={rp}")
        print(f"  {inst.rule} {inst.site} [{inst.func}] {inst.key}: {inst.detail}")

    per_rule = {}
    for rid, text in res.rules.items():
        per_rule[rid] = {
            "rule": text,
            "instances": res.count(rid),
            "ok": res.count(rid, OK),
            "violations": res.count(rid, VIOLATION),
            "unresolved": res.count(rid, UNRESOLVED),
            "floor": res.floors.get(rid, 0),
        }
    obligations = len(res.instances)
    discharged = sum(1 for i in res.instances if i.status == OK)
    unresolved = sum(1 for i in res.instances if i.status == UNRESOLVED)
    samples: List[Dict[str, Any]] = []
    seen_rules: Dict[str, int] = {}
    for inst in res.instances:
        lim = 6 if inst.status == OK else 25
        k = f"{inst.rule}/{inst.status}"
        if seen_rules.get(k, 0) < lim:
            seen_rules[k] = seen_rules.get(k, 0) + 1
            samples.append(inst.brief())
    distinct = len({(i.rule, i.key) for i in res.instances})
    ev = {
        "property_id": res.prop,
        "tier": res.tier,
        "seed": seed,
        "level": "other",
        "coverage": {
            "explanation": "Static analysis of /repo's current source (ast / CFG / def-use / call graph; nothing of jax2onnx is imported or executed). "
                           "Each rule enumerates its sites on this tree and decides every instance as OK / VIOLATION / UNRESOLVED. Rules: "
                           + " | ".join(f"{r}: {t}" for r, t in res.rules.items()),
            "obligations": obligations,
            "discharged": discharged,
            "unresolved": unresolved,
            "violations_total": sum(1 for i in res.instances if i.status == VIOLATION),
            "known_findings_matched": len(known_lines),
            "evaluations": max(obligations, 1),
            "distinct_nontrivial": max(distinct, 0),
            "rule": "one evaluation = one rule instance (a source construct the rule applies to); distinct = distinct (rule, construct key) pairs",
            "per_rule": per_rule,
            "analysed": res.analysed,
            "positive_controls": res.controls,
            "samples": samples or [{"note": "no instances"}],
            "all_violations": [i.brief() for i in res.instances if i.status == VIOLATION][:600],
            "exhaustive": True,
            "trusted_base": res.trusted,
            "checker_cmd": f"/venv/bin/python -m sa.cli check {res.prop} --tier {res.tier}",
        },
        "assumptions": res.assumptions,
        "wall_s": round(time.time() - res.t0, 3),
        "violations": new_violations,
    }
    if errors:
        ev["coverage"]["analysis_errors"] = errors
    with open(os.path.join(EVIDENCE_DIR, f"{res.prop}.json"), "w") as fh:
        json.dump(ev, fh, indent=1, default=str)

    for l in known_lines:
        print(l)
    summary = ", ".join(f"{r}={v['instances']}({v['violations']}v/{v['unresolved']}u)" for r, v in per_rule.items())
    print(f"[{res.prop}] {obligations} instances: {summary}; wall {ev['wall_s']}s")
    for e in errors:
        print(f"ANALYSIS-ERROR property={res.prop} {e}")
    if viol_lines:
        # a definite violation of a specific construct is reported even if another rule lost its anchor
        for l in viol_lines:
            print(l)
        return 1
    return 2 if errors else 0
