"""Axis-label semantics for batching rules (C10 R-C10e).

A batching rule receives operands that carry one extra (batch) dimension and the primitive's parameters, which are
written in the coordinates of ONE example.  Whether the rule addresses the right axes is decided here by abstract
evaluation of the rule's source over *labelled* arrays: every axis of an abstract array carries a label (`B` for the
batch axis, `e0`, `e1`, … for the axes of the example), array-manipulating library calls permute / insert / remove
labels, and every sink (a re-bind of the primitive on the batched operand, a call of the original library function
inside jax.vmap, a jax.lax call) is interpreted by the same small label model of the operation.  The result labels,
with `B` taken out at the batch dimension the rule returns, have to equal the labels the model assigns to the
per-example call with the original parameters; and no sink may act on the `B` axis.

Nothing of jax2onnx is imported or run: the rule's AST is interpreted by sa.symeval over this finite domain.
"""
from __future__ import annotations

import ast
import re
from typing import Any, Callable, Dict, List, Optional, Sequence, Tuple

from .index import FuncInfo, Index, dotted
from .symeval import Closure, EvalRaise, Evaluator, Obj, Opaque, Unsupported

SIZES = {"B": 7, "b0": 7, "k": 37, "n0": 41, "T": 43, "N": 47, "H": 53, "S": 59, "e0": 2, "e1": 3, "e2": 5, "e3": 11, "C": 13, "N": 17, "i0": 19, "i1": 23, "S": 29, "D": 31, "1": 1, "u0": 1, "u1": 1}


class AxisViolation(Exception):
    """The rule addresses a wrong axis (raised by a sink / vmap model)."""


def size_of(label: str) -> int:
    if label.startswith("merge(") and label.endswith(")"):
        a, b = _split2(label[6:-1])
        return size_of(a) * size_of(b)
    return SIZES.get(label, 37)


def _split2(s: str) -> Tuple[str, str]:
    depth = 0
    for i, ch in enumerate(s):
        if ch == "(":
            depth += 1
        elif ch == ")":
            depth -= 1
        elif ch == "," and depth == 0:
            return s[:i], s[i + 1:]
    return s, ""


def arr(labels: Sequence[str], dtype: Any = "f32") -> Obj:
    labels = tuple(labels)
    o = Obj("Array", ndim=len(labels), shape=tuple(size_of(l) for l in labels), labels=labels, dtype=dtype, size=1)
    return o


def is_arr(v: Any) -> bool:
    return isinstance(v, Obj) and v.kind == "Array"


def labels_of(v: Any) -> Tuple[str, ...]:
    return v.attrs["labels"]


def canon(ax: Any, rank: int) -> int:
    if isinstance(ax, bool) or not isinstance(ax, int):
        raise EvalRaise("TypeError")
    if not -rank <= ax < rank:
        raise EvalRaise("ValueError")
    return ax % rank if rank else 0


def _axes_tuple(axes: Any, rank: int) -> Tuple[int, ...]:
    if axes is None:
        return tuple(range(rank))
    if isinstance(axes, int) and not isinstance(axes, bool):
        axes = (axes,)
    if not isinstance(axes, (tuple, list)):
        raise EvalRaise("TypeError")
    out = tuple(canon(a, rank) for a in axes)
    if len(set(out)) != len(out):
        raise EvalRaise("ValueError")
    return out


class Model:
    """Label model of one operation: (arrays, params) -> (output(s), set of input labels acted on)."""

    # ---- kinds ------------------------------------------------------------------------------------------
    @staticmethod
    def preserve(arrays, p):
        (x,) = arrays[:1]
        L = labels_of(x)
        ax = p.get("axis")
        if ax is None:
            if p.get("_none_all"):
                # the primitive accumulates over the flattened operand and restores the operand's shape
                return arr(L), set(L)
            if p.get("_none_flattens"):
                return arr((f"flat({','.join(L)})",)), set(L)
            raise EvalRaise("TypeError")
        c = canon(ax, len(L))
        return arr(L), {L[c]}

    @staticmethod
    def elementwise(arrays, p):
        return arr(labels_of(arrays[0])), set()

    @staticmethod
    def broadcast(arrays, p):
        """n-ary element-wise operation with numpy broadcasting: operands are aligned on their LAST axes"""
        Ls = [labels_of(a) for a in arrays]
        n = max(len(L) for L in Ls)
        out = []
        for i in range(1, n + 1):
            here = {L[-i] for L in Ls if len(L) >= i} - {"1"}
            if len(here) > 1:
                raise AxisViolation(f"broadcasting aligns different axes of the operands: {' / '.join(str(L) for L in Ls)} (axis -{i}: {sorted(here)})")
            out.append(next(iter(here)) if here else "1")
        return arr(tuple(reversed(out))), set()

    @staticmethod
    def _contract(arrays, numpy_dot: bool):
        La, Lb = labels_of(arrays[0]), labels_of(arrays[1])
        if not La or not Lb:
            raise EvalRaise("ValueError")
        A = ("<row>",) + La if len(La) == 1 else La
        Bm = Lb + ("<col>",) if len(Lb) == 1 else Lb
        if A[-1] != Bm[-2]:
            raise AxisViolation(f"contracts axis `{A[-1]}` of the first operand {La} with axis `{Bm[-2]}` of the second {Lb}")
        if numpy_dot:
            out = A[:-1] + Bm[:-2] + Bm[-1:]
        else:
            ba, bb = A[:-2], Bm[:-2]
            n = max(len(ba), len(bb))
            batch = []
            for i in range(1, n + 1):
                here = {L[-i] for L in (ba, bb) if len(L) >= i} - {"1"}
                if len(here) > 1:
                    raise AxisViolation(f"stacks of matrices are aligned on different axes: {La} / {Lb}")
                batch.append(next(iter(here)) if here else "1")
            out = tuple(reversed(batch)) + (A[-2], Bm[-1])
        return arr(tuple(l for l in out if l not in ("<row>", "<col>"))), {A[-1]}

    @staticmethod
    def matmul(arrays, p):
        return Model._contract(arrays, False)

    @staticmethod
    def dot(arrays, p):
        return Model._contract(arrays, True)

    @staticmethod
    def whole(arrays, p):
        """acts on every axis of the operand and keeps the layout (pad, …)"""
        L = labels_of(arrays[0])
        return arr(L), set(L)

    @staticmethod
    def outer(arrays, p):
        La, Lb = labels_of(arrays[0]), labels_of(arrays[1])
        return arr((f"flat({','.join(La)})", f"flat({','.join(Lb)})")), set(La) | set(Lb)

    @staticmethod
    def diag(arrays, p):
        L = labels_of(arrays[0])
        if len(L) == 1:
            return arr((f"diag0({L[0]})", f"diag1({L[0]})")), set(L)
        if len(L) == 2:
            return arr((f"diag({L[0]},{L[1]})",)), set(L)
        raise EvalRaise("ValueError")

    @staticmethod
    def second(arrays, p):
        """element-wise in the SECOND operand (searchsorted: every query is located in an unbatched table)"""
        return arr(labels_of(arrays[1])), set()

    @staticmethod
    def attention(arrays, p):
        """q (..., T, N, H), k / v (..., S, N, H); bias / mask are left-padded to (batch, N, T, S).  The result is laid out
        like q; side operands must line up with (batch, heads, T, S) axis by axis (unit axes broadcast)."""
        q, k = labels_of(arrays[0]), labels_of(arrays[1])
        if len(q) < 3 or len(k) < 3 or len(q) != len(k):
            raise EvalRaise("ValueError")
        if len(q) > 4:
            raise EvalRaise("ValueError")
        bq = q[-4] if len(q) == 4 else "1"
        want = (bq, q[-2], q[-3], k[-3])
        n_side = int(bool(p.get("has_bias"))) + int(bool(p.get("has_mask")))
        for s_ in arrays[3:3 + n_side]:
            Ls = labels_of(s_)
            if len(Ls) > 4:
                raise AxisViolation(f"a bias / mask operand of rank {len(Ls)} {Ls} for logits of rank 4")
            padded = ("1",) * (4 - len(Ls)) + Ls
            for have, exp in zip(padded, want):
                base = have[3:] if have.startswith("rep") else have
                if have != "1" and have != exp and not (have.startswith("rep") and str(size_of(exp)) == base):
                    raise AxisViolation(f"bias / mask axes {Ls} are read as (batch, heads, T, S) = {padded} but the logits are laid out as {want}: axis `{have}` lands on `{exp}`")
        return arr(q), set(q[-3:]) | set(k[-3:-2])

    @staticmethod
    def einsum(arrays, p):
        eq = p.get("equation")
        if not isinstance(eq, str) or "->" not in eq or "." in eq:
            raise Unsupported("einsum equation form")
        lhs, out = eq.replace(" ", "").split("->")
        terms = lhs.split(",")
        if len(terms) != len(arrays):
            raise EvalRaise("ValueError")
        letter: Dict[str, str] = {}
        for term, a in zip(terms, arrays):
            L = labels_of(a)
            if len(term) != len(L):
                raise AxisViolation(f"einsum term `{term}` is applied to an operand laid out as {L}")
            for ch, l in zip(term, L):
                if letter.setdefault(ch, l) != l and "1" not in (l, letter[ch]):
                    raise AxisViolation(f"einsum index `{ch}` names axis `{letter[ch]}` of one operand and axis `{l}` of another")
        contracted = {letter[ch] for ch in letter if ch not in out}
        return arr(tuple(letter[ch] for ch in out)), contracted

    @staticmethod
    def trailing_all(arrays, p):
        """like `trailing`, for several data operands: every operand that carries the batch axis must carry it in front"""
        for a in arrays:
            La = labels_of(a)
            if "B" in La and La[0] != "B":
                raise AxisViolation(f"an operand laid out as {La} reaches the primitive with its batch axis not leading: the primitive reads the trailing axes as (sequence, features)")
        L = labels_of(arrays[0])
        return arr(L), set(l for l in L if l != "B")

    @staticmethod
    def tile(arrays, p):
        L = labels_of(arrays[0])
        reps = p.get("reps")
        if isinstance(reps, int):
            reps = (reps,)
        if not isinstance(reps, (tuple, list)) or not all(isinstance(r, int) for r in reps):
            raise EvalRaise("TypeError")
        reps = tuple(reps)
        if len(reps) < len(L):
            reps = (1,) * (len(L) - len(reps)) + reps
        out = ("1",) * (len(reps) - len(L)) + L
        return arr(out), {l for l, r in zip(out, reps) if r != 1 and l != "1"} | ({"<new>"} if any(r != 1 and l == "1" for l, r in zip(out, reps)) else set())

    @staticmethod
    def trailing(arrays, p):
        """acts on the last k axes of the operand (k: fixed, or every axis of one example); the layout is kept"""
        L = labels_of(arrays[0])
        k = p.get("_k") or len([l for l in L if l != "B"])
        if k > len(L):
            raise EvalRaise("ValueError")
        return arr(L), set(L[len(L) - k:]) if k else set()

    @staticmethod
    def along(arrays, p):
        """acts along the given axes (None: all) and keeps the layout"""
        L = labels_of(arrays[0])
        sel = _axes_tuple(p.get("axes"), len(L))
        return arr(L), {L[i] for i in sel}

    @staticmethod
    def reduce(arrays, p):
        (x,) = arrays[:1]
        L = labels_of(x)
        sel = _axes_tuple(p.get("axes"), len(L))
        keep = bool(p.get("keepdims", False))
        out = tuple(("1" if i in sel else l) for i, l in enumerate(L)) if keep else tuple(l for i, l in enumerate(L) if i not in sel)
        return arr(out), {L[i] for i in sel}

    @staticmethod
    def size(arrays, p):
        (x,) = arrays[:1]
        L = labels_of(x)
        sel = _axes_tuple(p.get("axes"), len(L))
        # the result is a scalar that depends on the extents of the selected axes only
        return arr(()), {L[i] for i in sel}

    @staticmethod
    def insert(arrays, p):
        (x,) = arrays[:1]
        L = labels_of(x)
        pos = canon(p.get("axis"), len(L) + 1)
        return arr(L[:pos] + (p.get("_new", "C"),) + L[pos:]), set()

    @staticmethod
    def stack(arrays, p):
        L = labels_of(arrays[0])
        if any(labels_of(a) != L for a in arrays):
            raise AxisViolation("stacked operands do not share one axis layout: " + " / ".join(str(labels_of(a)) for a in arrays))
        pos = canon(p.get("axis"), len(L) + 1)
        return arr(L[:pos] + ("S",) + L[pos:]), set()

    @staticmethod
    def concat(arrays, p):
        L = labels_of(arrays[0])
        if any(labels_of(a) != L for a in arrays):
            raise AxisViolation("concatenated operands do not share one axis layout: " + " / ".join(str(labels_of(a)) for a in arrays))
        c = canon(p.get("axis"), len(L))
        return arr(L), {L[c]}

    @staticmethod
    def squeeze(arrays, p):
        (x,) = arrays[:1]
        L = labels_of(x)
        dims = p.get("axes")
        if dims is None:
            sel = tuple(i for i, l in enumerate(L) if SIZES.get(l, 37) == 1)
        else:
            sel = _axes_tuple(dims, len(L))
        if any(SIZES.get(L[i], 37) != 1 for i in sel):
            raise EvalRaise("ValueError")
        return arr(tuple(l for i, l in enumerate(L) if i not in sel)), {L[i] for i in sel}

    @staticmethod
    def transpose(arrays, p):
        (x,) = arrays[:1]
        L = labels_of(x)
        perm = p.get("axes")
        if perm is None:
            perm = tuple(reversed(range(len(L))))
        perm = _axes_tuple(perm, len(L))
        if len(perm) != len(L):
            raise EvalRaise("ValueError")
        return arr(tuple(L[i] for i in perm)), set()

    @staticmethod
    def split(arrays, p):
        (x,) = arrays[:1]
        L = labels_of(x)
        c = canon(p.get("axis"), len(L))
        n = p.get("_n", 2)
        return tuple(arr(L) for _ in range(n)), {L[c]}

    @staticmethod
    def unstack(arrays, p):
        (x,) = arrays[:1]
        L = labels_of(x)
        c = canon(p.get("axis"), len(L))
        n = SIZES.get(L[c], 2)
        return tuple(arr(L[:c] + L[c + 1:]) for _ in range(n)), {L[c]}

    @staticmethod
    def take(arrays, p):
        x, ind = arrays[0], arrays[1]
        L, I = labels_of(x), labels_of(ind)
        ax = p.get("axis")
        if ax is None:
            return arr(I), set(L)
        c = canon(ax, len(L))
        return arr(L[:c] + I + L[c + 1:]), {L[c]}

    @staticmethod
    def diagonal(arrays, p):
        (x,) = arrays[:1]
        L = labels_of(x)
        a1, a2 = canon(p.get("axis1", 0), len(L)), canon(p.get("axis2", 1), len(L))
        if a1 == a2:
            raise EvalRaise("ValueError")
        return arr(tuple(l for i, l in enumerate(L) if i not in (a1, a2)) + ("D",)), {L[a1], L[a2]}

    @staticmethod
    def linspace(arrays, p):
        La, Lb = labels_of(arrays[0]), labels_of(arrays[1])
        L = La if len(La) >= len(Lb) else Lb
        short = Lb if L is La else La
        if short and tuple(L[len(L) - len(short):]) != tuple(short):
            raise AxisViolation(f"start / stop do not broadcast by position: {La} vs {Lb}")
        pos = canon(p.get("axis", 0), len(L) + 1)
        return arr(L[:pos] + ("N",) + L[pos:]), set()


KINDS: Dict[str, Callable[..., Any]] = {k: getattr(Model, k) for k in ("elementwise", "broadcast", "trailing_all", "tile", "einsum", "attention", "matmul", "dot", "whole", "outer", "diag", "second", "trailing", "along", "preserve", "reduce", "size", "insert", "stack", "concat", "squeeze", "transpose", "split", "unstack", "take", "diagonal", "linspace")}


class Spec:
    """How one primitive's calls map onto a label model.

    kind        model name
    prim        primitive parameter name  -> model parameter name   (keywords of <P>._PRIM.bind and of the rule itself)
    orig        library keyword name      -> model parameter name   (keywords of the original function called per example)
    orig_pos    model parameter names of the library function's positional arguments after the arrays
    const       fixed model parameters
    """
    def __init__(self, kind: str, prim: Dict[str, str], orig: Optional[Dict[str, str]] = None, orig_pos: Sequence[str] = (), const: Optional[Dict[str, Any]] = None, n_arrays: int = 1, variadic: bool = False):
        self.kind, self.prim, self.orig, self.orig_pos, self.const = kind, prim, orig if orig is not None else dict(prim), tuple(orig_pos), dict(const or {})
        self.n_arrays, self.variadic = n_arrays, variadic

    def apply(self, arrays: List[Any], kwargs: Dict[str, Any], names: Dict[str, str], extra_pos: Sequence[Any] = ()) -> Tuple[Any, set]:
        p = dict(self.const)
        for nm, v in zip(self.orig_pos, extra_pos):
            p[nm] = v
        for k, v in kwargs.items():
            if k in names:
                p[names[k]] = v
        return KINDS[self.kind](arrays, p)


def _flatten_arrays(args: Sequence[Any]) -> Tuple[List[Any], List[Any]]:
    arrays, rest = [], []
    for a in args:
        if is_arr(a):
            arrays.append(a)
        elif isinstance(a, (tuple, list)) and a and all(is_arr(x) for x in a):
            arrays.extend(a)
        else:
            rest.append(a)
    return arrays, rest


_ORIG_RE = re.compile(r"^(_JAX_\w+_ORIG|_ORIGINAL_\w+|_ORIG_\w+|_orig_\w+)$")


class BatchEval(Evaluator):
    """Evaluator with labelled arrays, opaque free names and the sinks of one primitive's Spec."""

    def __init__(self, idx: Index, spec: Spec):
        super().__init__(idx, {}, max_depth=10)
        self.spec = spec
        self.sinks: List[Tuple[str, str, Tuple[str, ...], Dict[str, Any]]] = []   # (coordinate system, call name, operand labels, params)
        self.vmap_depth = 0
        self.acted: set = set()
        self.owners: set = set()     # plugin classes whose primitive this rule is registered for
        self.consts = {"batching.not_mapped": None, "not_mapped": None}
        self.call_hook = self._hook

    # free names are opaque, attribute chains on them stay opaque
    def eval(self, e, env, fi, depth):  # type: ignore[override]
        if isinstance(e, ast.Name) and e.id not in env and e.id in ("NOT_MAPPED", "not_mapped"):
            return None
        if isinstance(e, ast.Name) and e.id not in env and e.id not in fi.module.consts and e.id not in ("True", "False", "None"):
            return Opaque(e.id)
        if isinstance(e, ast.Attribute):
            d = dotted(e)
            if d is not None and d in self.consts:
                return self.consts[d]
            base = self.eval(e.value, env, fi, depth)
            if isinstance(base, Opaque):
                if e.attr == "multiple_results":
                    return False
                return Opaque(base.name + "." + e.attr)
            if is_arr(base) and e.attr == "T":
                return arr(tuple(reversed(labels_of(base))))
        return super().eval(e, env, fi, depth)

    def eval_call(self, e, env, fi, depth):  # type: ignore[override]
        from .index import call_name as _cn
        if (_cn(e) or "") in ("cast", "typing.cast") and len(e.args) == 2 and not e.keywords:
            return self.eval(e.args[1], env, fi, depth)   # typing.cast(T, v) is v; T is not evaluated
        return super().eval_call(e, env, fi, depth)

    # ------------------------------------------------------------------------------------------------ sinks
    def _sink(self, cn: str, args: Sequence[Any], kwargs: Dict[str, Any], names: Dict[str, str]) -> Any:
        if self.vmap_depth and cn.endswith("._PRIM.bind") and cn[: -len("._PRIM.bind")] in self.owners:
            raise AxisViolation(f"`{cn}(…)` is called under jax.vmap inside the batching rule of that very primitive: the inner vmap invokes this rule again, which calls jax.vmap again (RecursionError at export)")
        arrays, rest = _flatten_arrays(args)
        if not arrays:
            raise Unsupported(f"sink {cn} without array operands")
        out, acted = self.spec.apply(arrays, kwargs, names, rest)
        if "B" in acted or any(l.startswith("flat(") and "B" in l[5:-1].split(",") for l in acted):
            raise AxisViolation(f"`{cn}(…)` acts on the batch axis: operand axes {labels_of(arrays[0])}, parameters {_fmt({k: v for k, v in kwargs.items() if k in names})}")
        self.sinks.append(("example" if self.vmap_depth else "batched", cn, labels_of(arrays[0]), {k: v for k, v in kwargs.items() if k in names}))
        for l in acted:
            self.acted |= set(l[5:-1].split(",")) if l.startswith("flat(") else {l}
        return out

    def _hook(self, cn: str, args: List[Any], kwargs: Dict[str, Any]) -> Any:
        last = cn.split(".")[-1]
        if cn.endswith("._PRIM.bind") or cn in ("prim.bind", "primitive.bind"):
            return self._sink(cn, args, kwargs, self.spec.prim)
        if _ORIG_RE.match(cn):
            return self._sink(cn, args, kwargs, self.spec.orig)
        if last == "get_orig_impl":
            return lambda *a, **k: self._sink("orig", a, k, self.spec.orig)
        if last == "tree_map" and len(args) >= 2 and callable(args[0]):
            def tm(f_, x):
                if isinstance(x, (tuple, list)):
                    return type(x)(tm(f_, y) for y in x)
                return f_(x)
            return tm(args[0], args[1])
        if self.spec.const.get("_opaque_callee") and cn in self.spec.const["_opaque_callee"]:
            return self._sink(cn, args, {}, {})
        if cn in ("jax.vmap", "vmap"):
            return self._vmap(*args, **kwargs)
        if cn in ("batching.bdim_at_front", "bdim_at_front"):
            x, bd = args[0], args[1]
            if not is_arr(x):
                return x
            L = labels_of(x)
            if bd is None:
                # an unmapped operand is broadcast to the given extent along a new leading axis
                size = args[2] if len(args) > 2 else kwargs.get("size")
                return arr((("1" if size == 1 else "B"),) + L)
            c = canon(bd, len(L))
            return arr((L[c],) + L[:c] + L[c + 1:])
        if last == "moveaxis" and len(args) + len(kwargs) >= 3 and is_arr(args[0]):
            x = args[0]
            src_ = args[1] if len(args) > 1 else kwargs.get("source")
            dst_ = args[2] if len(args) > 2 else kwargs.get("destination")
            L = list(labels_of(x))
            if isinstance(src_, int) and isinstance(dst_, int):
                s, d = canon(src_, len(L)), canon(dst_, len(L))
                l = L.pop(s)
                L.insert(d, l)
                return arr(L)
            raise Unsupported("moveaxis with sequences")
        if last == "expand_dims" and args and is_arr(args[0]):
            ax = kwargs.get("axis", kwargs.get("dimensions", args[1] if len(args) > 1 else None))
            L = list(labels_of(args[0]))
            axes = list(ax) if isinstance(ax, (tuple, list)) else [ax]
            total = len(L) + len(axes)
            for pos in sorted(canon(a_, total) for a_ in axes):
                L.insert(pos, "1")
            return arr(L)
        if last == "definitely_equal_shape" and len(args) == 2:
            return tuple(args[0]) == tuple(args[1])
        if cn in ("np.ndim", "jnp.ndim") and args and not is_arr(args[0]):
            if isinstance(args[0], (int, float, bool)):
                return 0
            raise Unsupported("ndim of a non-array")
        if last == "concatenate" and args and isinstance(args[0], (list, tuple)) and all(is_arr(a) for a in args[0]):
            ax = kwargs.get("axis", args[1] if len(args) > 1 else 0)
            xs = list(args[0])
            L = labels_of(xs[0])
            if any(labels_of(a) != L for a in xs):
                raise AxisViolation("concatenated operands do not share one axis layout")
            c = canon(ax, len(L))
            return arr(L[:c] + ("S" if L[c] == "1" else L[c],) + L[c + 1:])
        if last == "broadcast_to" and len(args) == 2 and is_arr(args[0]) and isinstance(args[1], (tuple, list)) and len(args[1]) == len(labels_of(args[0])) \
                and all(s == t_ or s == 1 for s, t_ in zip(args[0].attrs["shape"], args[1])):
            # same rank: unit axes are stretched; the stretched axis repeats its content along the target extent
            L = labels_of(args[0])
            names = self.spec.const.get("_stretch_names", {})
            return arr(tuple((names.get(t_, f"rep{t_}") if s == 1 and t_ != 1 else l) for l, s, t_ in zip(L, args[0].attrs["shape"], args[1])))
        if last == "broadcast_to" and len(args) == 2 and is_arr(args[0]) and isinstance(args[1], (tuple, list)):
            rev = {v: k for k, v in SIZES.items() if v != 1 and k not in ("b0", "k", "n0", "T", "N", "H", "S")}
            new = tuple(rev.get(s, "?") for s in args[1])
            old = labels_of(args[0])
            if old and tuple(new[len(new) - len(old):]) != old:
                raise Unsupported("broadcast_to changing labelled axes")
            return arr(new)
        if last == "reshape" and len(args) >= 2 and is_arr(args[0]) and isinstance(args[1], (tuple, list)):
            L = labels_of(args[0])
            shp = tuple(args[1])
            sizes = args[0].attrs["shape"]
            if -1 in shp:
                k = shp.index(-1)
                if shp.count(-1) == 1 and k == len(shp) - 1 and tuple(shp[:k]) == tuple(sizes[:k]):
                    return arr(L[:k] + (f"flat({','.join(L[k:])})",))
                raise Unsupported("reshape with -1 that is not a trailing flatten")
            # only unit axes are inserted / dropped: the non-unit extents keep their order
            nz_new = [s for s in shp if s != 1]
            nz_old = [(l, s) for l, s in zip(L, sizes) if s != 1]
            if nz_new == [s for _l, s in nz_old] and len(set(nz_new)) == len(nz_new):
                it = iter(nz_old)
                return arr(tuple("1" if s == 1 else next(it)[0] for s in shp))
            # merge of the two leading axes / its inverse
            if len(L) >= 2 and len(shp) == len(L) - 1 and shp[0] == sizes[0] * sizes[1] and tuple(shp[1:]) == tuple(sizes[2:]):
                return arr((f"merge({L[0]},{L[1]})",) + L[2:])
            if L and L[0].startswith("merge(") and len(shp) == len(L) + 1:
                a_, b_ = _split2(L[0][6:-1])
                if (size_of(a_), size_of(b_)) == tuple(shp[:2]) and tuple(shp[2:]) == tuple(sizes[1:]):
                    return arr((a_, b_) + L[1:])
            # un-flatten: the target extents are those of labelled axes
            comp: List[str] = []
            for l in L:
                comp.extend(l[5:-1].split(",") if l.startswith("flat(") else [l])
            if tuple(SIZES.get(c, 37) for c in comp) == shp:
                return arr(comp)
            raise Unsupported("reshape changing labelled axes")
        if cn in ("cast", "typing.cast") and len(args) == 2:
            return args[1]
        if last in ("asarray", "array", "stop_gradient", "astype") and args and is_arr(args[0]):
            return args[0]
        if cn in ("jax.lax.split", "lax.split") and args and is_arr(args[0]):
            sizes = args[1] if len(args) > 1 else kwargs.get("sizes")
            n = len(sizes) if isinstance(sizes, (tuple, list)) else 2
            L = labels_of(args[0])
            c = canon(kwargs.get("axis", args[2] if len(args) > 2 else 0), len(L))
            if L[c] == "B":
                raise AxisViolation(f"`{cn}` splits the batch axis of {L}")
            self.sinks.append(("batched", cn, L, {"axis": c}))
            self.acted.add(L[c])
            return [arr(L) for _ in range(n)]
        if last in ("int", "operator.index", "index") and len(args) == 1 and isinstance(args[0], int):
            return int(args[0])
        if cn in ("np.ndim", "jnp.ndim") and args and is_arr(args[0]):
            return args[0].attrs["ndim"]
        if cn in ("np.shape", "jnp.shape") and args and is_arr(args[0]):
            return args[0].attrs["shape"]
        return NotImplemented

    def _vmap(self, f: Any, in_axes: Any = 0, out_axes: Any = 0, **_: Any) -> Callable[..., Any]:
        if not callable(f):
            raise Unsupported("vmap of a non-callable")

        def run(*xs: Any) -> Any:
            axes = list(in_axes) if isinstance(in_axes, (tuple, list)) else [in_axes] * len(xs)
            if len(axes) != len(xs):
                raise EvalRaise("ValueError")
            inner = []
            mapped = False
            for x, a in zip(xs, axes):
                if a is None or not is_arr(x):
                    inner.append(x)
                    continue
                L = labels_of(x)
                c = canon(a, len(L))
                if L[c] != "B":
                    raise AxisViolation(f"jax.vmap maps over axis {c} of an operand laid out as {L}: that is not the batch axis")
                mapped = True
                inner.append(arr(L[:c] + L[c + 1:]))
            if not mapped:
                raise EvalRaise("ValueError")
            self.vmap_depth += 1
            try:
                r = f(*inner)
            finally:
                self.vmap_depth -= 1

            def put(o: Any) -> Any:
                if is_arr(o):
                    L = labels_of(o)
                    if "B" in L:
                        raise AxisViolation(f"the per-example result still carries the batch axis: {L}")
                    pos = canon(out_axes if isinstance(out_axes, int) else 0, len(L) + 1)
                    return arr(L[:pos] + ("B",) + L[pos:])
                if isinstance(o, (tuple, list)):
                    return type(o)(put(y) for y in o)
                return o
            return put(r)
        return run


def _fmt(d: Dict[str, Any]) -> str:
    return ", ".join(f"{k}={v!r}" for k, v in sorted(d.items()))


def expected(spec: Spec, example_arrays: List[Any], params: Dict[str, Any]) -> Tuple[Any, set]:
    return spec.apply(example_arrays, params, spec.prim)


def run_rule(idx: Index, fi: FuncInfo, spec: Spec, example_labels: List[Optional[Tuple[str, ...]]], bdims: List[Optional[int]], params: Dict[str, Any], free_env: Optional[Dict[str, Any]] = None,
             owners: Optional[set] = None) -> Tuple[str, str]:
    """Evaluate one batching rule on one case.  Returns (status, detail) with status in OK / VIOLATION / UNRESOLVED / SKIP
    (SKIP: the per-example call itself is invalid for these parameters, e.g. an axis out of range)."""
    ex_arrays = [arr(L) for L in example_labels if L is not None]
    try:
        exp, exp_acted = expected(spec, ex_arrays, params)
    except (EvalRaise, AxisViolation):
        return "SKIP", "the per-example call is invalid"
    batched = []
    for L, bd in zip(example_labels, bdims):
        if L is None:
            batched.append(None)
        elif bd is None:
            batched.append(arr(L))
        else:
            batched.append(arr(L[:bd] + ("B",) + L[bd:]))
    ev = BatchEval(idx, spec)
    ev.owners = set(owners or ())
    clo = Closure(ev, fi.node, dict(free_env or {}), fi, 0)
    lead = (Opaque("self"),) if fi.cls is not None and fi.node.args.args and fi.node.args.args[0].arg in ("self", "cls") else ()  # type: ignore[attr-defined]
    try:
        res = clo(*lead, tuple(batched), tuple(bdims), **params)
    except AxisViolation as v:
        return "VIOLATION", str(v)
    except EvalRaise as r:
        if getattr(r, "explicit", False):
            return "REJECTED", f"the rule rejects the case with an explicit `raise {r.name}` (loud, not a wrong model)"
        return "VIOLATION", f"the rule raises {r.name} on a call that is valid per example"
    except Unsupported as u:
        return "UNRESOLVED", f"not evaluable: {u}"
    except RecursionError:
        return "UNRESOLVED", "recursion limit"
    except (TypeError, ValueError, KeyError, IndexError, AttributeError) as x:
        return "UNRESOLVED", f"not evaluable: {type(x).__name__}: {x}"
    if not isinstance(res, (tuple, list)) or len(res) != 2:
        return "UNRESOLVED", f"the rule returned {type(res).__name__}, not (outputs, batch dims)"
    outs, obd = res
    if is_arr(outs):
        outs_l, obd_l, exp_l = [outs], [obd], [exp]
    elif isinstance(outs, (tuple, list)) and isinstance(exp, (tuple, list)):
        outs_l = list(outs)
        obd_l = list(obd) if isinstance(obd, (tuple, list)) else [obd] * len(outs_l)
        exp_l = list(exp)
    else:
        return "UNRESOLVED", "output structure not recognised"
    if len(outs_l) != len(exp_l) or len(obd_l) != len(outs_l):
        return "VIOLATION", f"{len(outs_l)} outputs / {len(obd_l)} batch dims for {len(exp_l)} per-example outputs"
    for o, bd, ex in zip(outs_l, obd_l, exp_l):
        if not is_arr(o):
            return "UNRESOLVED", "an output is not an abstract array"
        L = labels_of(o)
        if bd is None:
            if "B" in L:
                return "VIOLATION", f"the result {L} carries the batch axis but the rule reports it as not mapped"
            got = L
        else:
            if isinstance(bd, bool) or not isinstance(bd, int) or not 0 <= bd < len(L):
                return "VIOLATION", f"returned batch dim {bd!r} is not an axis of the result {L}"
            if L[bd] != "B":
                return "VIOLATION", f"returned batch dim {bd} names axis `{L[bd]}` of the result {L}: the batch axis is at {L.index('B') if 'B' in L else 'none'}"
            got = L[:bd] + L[bd + 1:]
        if got != labels_of(ex):
            return "VIOLATION", f"per example the result is laid out as {got}, the original call yields {labels_of(ex)}"
    if ev.sinks and ev.acted != exp_acted:
        return "VIOLATION", f"the rule's calls act on the axes {sorted(ev.acted)} of the example, the original call acts on {sorted(exp_acted)}"
    return "OK", f"result {labels_of(outs_l[0])} batch dim {obd_l[0]}; sinks: " + "; ".join(f"{c}:{n}{l}{_fmt(p)}" for c, n, l, p in ev.sinks[:3])
