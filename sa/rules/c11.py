"""C11 — the requested opset is honoured (structural part).

R-C11a  every emission site's operator exists (not deprecated) at every opset in
        (path fact at the site) ∩ [21, newest]
R-C11b  every attribute keyword given at a direct builder call is a schema attribute of that
        operator at every such opset
R-C11c  the number of positional inputs / declared outputs fits the schema at every such opset
R-C11d  function attach: every ir.Function domain gets an opset import (shared with C03)
"""
from __future__ import annotations

import ast
from typing import Dict, FrozenSet, List, Tuple

from ..callgraph import get_callgraph
from ..emit import EmitSite, enumerate_sites
from ..facts import OpsetFacts
from ..guards import src
from ..index import AnalysisError, Index, call_name, walk_no_nested
from ..report import Results
from ..tables.onnx_ops import get_history

BASE = 21


def _key(s: EmitSite) -> str:
    fn = s.origin_func.qualname if s.origin_func else "<module>"
    return f"{s.origin_module.rel}::{fn}::{s.op}"


def site_fact(facts: OpsetFacts, s: EmitSite, explain: List[str]):
    f = facts.path_fact(s.call, s.func, explain)
    for cs in s.chain:
        f = f & facts.path_fact(cs.call, cs.caller, explain)
    return f


def site_fact_deep(facts: OpsetFacts, s: EmitSite, explain: List[str]):
    f = site_fact(facts, s, explain)
    if s.chain:
        first = s.chain[0]
        if first.caller is not None:
            f = f & facts.entry_fact(first.caller, explain=explain)
    elif s.func is not None:
        f = f & facts.entry_fact(s.func, explain=explain)
    return f


def run(res: Results, idx: Index, tier: str) -> None:
    hist = get_history()
    cg = get_callgraph(idx)
    facts = OpsetFacts(idx, cg, hist.newest)
    claim = frozenset(range(BASE, hist.newest + 1))
    res.rule("R-C11a", f"operator of every emission site exists and is not deprecated at every opset in (path fact ∩ {BASE}..{hist.newest})", floor=1500)
    res.rule("R-C11b", "attribute keywords of direct builder calls are schema attributes at every admissible opset", floor=600)
    res.rule("R-C11c", "positional input count and declared output count fit the schema at every admissible opset", floor=1500)
    res.trusted.append(f"onnx.defs operator history of the installed onnx {hist.onnx_version} (newest opset {hist.newest})")
    res.assumptions.append("a local named `opset`/`.opset`/`_builder_opset(builder)` denotes the target default-domain opset")
    res.assumptions.append("dynamic operator names that cannot be constant-propagated are UNRESOLVED, not checked")

    sites, stats = enumerate_sites(idx, cg, set(hist.hist))
    res.analysed.update({"emission_sites": len(sites), "forms": stats, "distinct_operators": len({s.op for s in sites if s.op}),
                         "calls_seen": cg.n_calls, "calls_resolved": cg.n_resolved, "opset_range_claimed": [BASE, hist.newest]})
    if stats["A"] == 0:
        raise AnalysisError("no direct builder emission sites found (recogniser broken or package layout changed)")

    guarded = 0
    for s in sites:
        fn = s.origin_func.qualname if s.origin_func else "<module>"
        if s.op is None:
            res.unresolved("R-C11a", s.site, f"{s.origin_module.rel}::{fn}::<dynamic>", f"operator name not constant: {s.why_unresolved}", fn)
            continue
        if not hist.known(s.op):
            if s.form in ("C", "D") or s.chain:
                # a string reaching a node constructor that is no ONNX operator
                res.violation("R-C11a", s.site, _key(s), f"'{s.op}' is not an operator of the default ONNX domain in the installed onnx", fn)
            continue
        explain: List[str] = []
        fact = site_fact(facts, s, explain)
        adm = fact & claim
        missing = sorted(v for v in adm if not hist.available(s.op, v))
        if missing:
            fact = site_fact_deep(facts, s, explain)
            adm = fact & claim
            missing = sorted(v for v in adm if not hist.available(s.op, v))
        if fact != facts.U:
            guarded += 1
        if missing:
            since = hist.since(s.op)
            sch = hist.schema_at(s.op, missing[0])
            why = "deprecated" if (sch is not None and sch.deprecated) else f"introduced in opset {since}"
            res.violation("R-C11a", s.site, _key(s),
                          f"{s.op} ({why}) can be emitted at opset(s) {missing[0]}..{missing[-1]}: no guard on the path restricts the target opset"
                          + (f" [facts: {'; '.join(explain)}]" if explain else ""), fn, op=s.op, opsets=missing)
        else:
            res.ok("R-C11a", s.site, _key(s), (f"{s.op}: admissible opsets {min(adm)}..{max(adm)}" if adm else f"{s.op}: unreachable in {BASE}..{hist.newest}")
                   + (f" [{'; '.join(explain)}]" if explain else ""), fn)
        if not adm:
            continue
        # R-C11b attributes (direct builder calls only: keywords are attribute names there)
        if s.form in ("A", "B"):
            for a in s.attrs:
                bad = sorted(v for v in adm if hist.available(s.op, v) and a not in (hist.attrs_at(s.op, v) or set()))
                k = f"{_key(s)}::{a}"
                if bad:
                    res.violation("R-C11b", s.site, k, f"attribute '{a}' is not defined for {s.op} at opset(s) {bad[0]}..{bad[-1]}", fn)
                else:
                    res.ok("R-C11b", s.site, k, "", fn)
            # R-C11c arity
            if s.n_inputs is not None:
                bad = sorted(v for v in adm if hist.available(s.op, v) and s.n_inputs > (hist.max_inputs(s.op, v) or 0))
                k = f"{_key(s)}::inputs={s.n_inputs}"
                if bad:
                    res.violation("R-C11c", s.site, k, f"{s.n_inputs} positional inputs exceed the schema maximum of {s.op} at opset(s) {bad[0]}..{bad[-1]}", fn)
                elif s.n_outputs is not None and any(s.n_outputs > (hist.max_outputs(s.op, v) or 0) for v in adm if hist.available(s.op, v)):
                    res.violation("R-C11c", s.site, f"{_key(s)}::outputs={s.n_outputs}", f"{s.n_outputs} outputs exceed the schema maximum of {s.op}", fn)
                else:
                    res.ok("R-C11c", s.site, k, "", fn)
            else:
                res.unresolved("R-C11c", s.site, f"{_key(s)}::inputs=*", "starred inputs", fn)
    res.analysed["sites_with_opset_fact"] = guarded
    rule_d(res, idx, sites, facts, hist)

    # positive control: an unguarded Swish emission must be flagged
    ctrl_missing = [v for v in claim if not hist.available("Swish", v)]
    res.control("R-C11a", "unguarded builder.Swish is unavailable somewhere in the claimed range", bool(ctrl_missing))
    _control_guard_engine(res, facts)
    rule_e(res, idx, cg, tier)
    rule_g(res, idx)
    rule_h(res, idx, facts)
    rule_i(res, idx, facts)
    rule_j(res, idx)
    from .c03 import inherited_settings
    res.rule("R-C11f", "nested Loop / If / function scopes inherit the requested opset from an attribute that exists", floor=1)
    for site, key, status, detail, func, setting in inherited_settings(idx):
        if "opset" in setting:
            res.add("R-C11f", status, site, key, detail, func)


def _control_guard_engine(res: Results, facts: OpsetFacts) -> None:
    """In-memory snippets: the guard engine must derive the expected facts."""
    import textwrap
    from ..index import Module

    src = textwrap.dedent(
        '''
        def lower(ctx):
            opset = int(getattr(ctx.builder, "opset", 0) or 0)
            if opset >= 24:
                a = ctx.builder.Swish(x)
            else:
                b = ctx.builder.Sigmoid(x)
            use = opset >= 23 and hasattr(ctx.builder, "Attention")
            if use:
                c = ctx.builder.Attention(x)
            if opset < 22:
                raise ValueError("no")
            d = ctx.builder.Mish(x)
        '''
    )
    m = Module("<control>", "<control>", "control", src)
    fi = m.funcs["lower"]
    got = {}
    for n in ast.walk(m.tree):
        if isinstance(n, ast.Call) and isinstance(n.func, ast.Attribute) and n.func.attr in ("Swish", "Sigmoid", "Attention", "Mish"):
            got[n.func.attr] = facts.path_fact(n, fi)
    newest = max(facts.U)
    want = {
        "Swish": frozenset(range(24, newest + 1)),
        "Sigmoid": frozenset(range(1, 24)),
        "Attention": frozenset(range(23, newest + 1)),
        "Mish": frozenset(range(22, newest + 1)),
    }
    res.control("R-C11a", "guard engine derives if/else, flag-variable and abort-guard facts", got == want, str({k: (min(v), max(v)) for k, v in got.items() if v}))


# ---------------------------------------------------------------------------------------------- R-C11d
import re as _re

_DTYPE_WORDS = ("bfloat16", "float16", "float32", "float64", "int4", "uint4", "int2", "uint2", "int8", "uint8", "int16", "uint16", "int32", "uint32", "int64", "uint64", "bool")


def _added_types(hist, op: str):
    """{version: set(simple dtype names)} of input types an operator gained at versions inside the claimed range."""
    out = {}
    vs = sorted(hist.hist.get(op, {}))
    for prev, cur in zip(vs, vs[1:]):
        if cur <= BASE:
            continue
        def types(v):
            s = hist.hist[op][v]
            acc = set()
            for tc in s.type_constraints:
                if any(tc.type_param_str == i.type_str for i in s.inputs):
                    acc |= set(tc.allowed_type_strs)
            return acc
        added = {t[len("tensor("):-1] for t in (types(cur) - types(prev)) if t.startswith("tensor(")}
        added = {t for t in added if t in _DTYPE_WORDS}
        if added:
            out[cur] = added
    return out


def _dtype_tokens(e: ast.AST, mod, fi) -> set:
    txt = ast.unparse(e)
    for n in ast.walk(e):
        if isinstance(n, ast.Name):
            # module-level constant: use its defining source text
            for st in mod.tree.body:
                tgt = st.targets[0] if isinstance(st, ast.Assign) and len(st.targets) == 1 else getattr(st, "target", None)
                if isinstance(tgt, ast.Name) and tgt.id == n.id and getattr(st, "value", None) is not None:
                    txt += " " + ast.unparse(st.value)
    found = set()
    for w in sorted(_DTYPE_WORDS, key=len, reverse=True):
        if _re.search(r"(?<![A-Za-z0-9])" + w + r"(?![0-9])", txt):
            found.add(w)
            txt = _re.sub(r"(?<![A-Za-z0-9])" + w + r"(?![0-9])", " ", txt)
    return found


def rule_d(res: Results, idx: Index, sites, facts: OpsetFacts, hist) -> None:
    res.rule("R-C11d", "a lowering that gates an operator's dtype handling on the opset at which ONNX extended that operator's input types covers every type added at that version", floor=1)
    from ..flow import defuse
    seen = set()
    for s in sites:
        if s.op is None or s.func is None or not hist.known(s.op):
            continue
        added = _added_types(hist, s.op)
        if not added:
            continue
        fi = s.func
        if (id(fi.node), s.op) in seen:
            continue
        seen.add((id(fi.node), s.op))
        du = defuse(fi.node)
        # flag expressions: comparisons of the opset with a version at which the op's input types grew
        for V, A in sorted(added.items()):
            ge = frozenset(v for v in facts.U if v >= V)
            flags = set()
            flag_exprs = []
            for n in ast.walk(fi.node):
                if isinstance(n, ast.Compare):
                    c = facts.cond_set(n, True, fi)
                    if c is not None and (c == ge or c == facts.U - ge):
                        flag_exprs.append(n)
            if not flag_exprs:
                continue
            for name, ds in du.defs.items():
                for d in ds:
                    if d.value is not None and any(x in flag_exprs for x in ast.walk(d.value)):
                        flags.add(name)
            # boolean contexts that combine a flag with dtype tests
            mentioned = set()
            contexts = []
            for n in ast.walk(fi.node):
                if isinstance(n, (ast.BoolOp, ast.IfExp, ast.If)):
                    expr = n.test if isinstance(n, (ast.IfExp, ast.If)) else n
                    has_flag = any((x in flag_exprs) or (isinstance(x, ast.Name) and x.id in flags) for x in ast.walk(expr))
                    if has_flag:
                        t = _dtype_tokens(expr, fi.module, fi) & A
                        if t:
                            contexts.append((n, t))
                            mentioned |= t
            if not contexts:
                continue
            key = f"{fi.module.rel}::{fi.qualname}::{s.op}@{V}"
            site = f"{fi.module.rel}:{contexts[0][0].lineno}"
            partial = [(n, t) for n, t in contexts if t != A]
            if partial:
                n, t = partial[0]
                res.violation("R-C11d", f"{fi.module.rel}:{n.lineno}", key,
                              f"{s.op} accepts {sorted(A)} only from opset {V}; this lowering gates its dtype handling on opset {V} but the condition at line {n.lineno} only considers {sorted(t)}: "
                              f"{sorted(A - t)} inputs reach {s.op} below opset {V}", fi.qualname)
            else:
                res.ok("R-C11d", site, key, f"opset-{V} gate covers every type {s.op} gained there: {sorted(A)}", fi.qualname)


# ---------------------------------------------------------------------------------------------- R-C11e
def rule_e(res: Results, idx: Index, cg, tier: str) -> None:
    """Optimizer passes that only run from some opset on (they test `_graph_default_opset`) make the exported
    function depend on the requested opset unless the rewrite is semantics-preserving.  The precondition / observation
    / identity-predicate instances C02 decides for those passes (and for the helpers they reach) are re-decided here."""
    from ..optflow import registered_passes
    from . import c02
    res.rule("R-C11e", "opset-gated optimizer rewrites are semantics-preserving (instances of C02 for passes that test the graph's opset)", floor=3)
    m = idx.module(c02.OPT)
    gated = []
    for name, fi in [(p[0], p[1]) for p in registered_passes(idx, m)]:
        if any(isinstance(c, ast.Call) and (call_name(c) or "").split(".")[-1] in ("_graph_default_opset", "_builder_opset") for c in ast.walk(fi.node)):
            gated.append(fi)
    if not gated:
        raise AnalysisError("no opset-gated optimizer pass found (the Swish rewrite tests _graph_default_opset on the pinned tree)")
    names = set()
    for fi in gated:
        for g in cg.reachable_from(fi, depth=3):
            names.add(g.qualname)
    sub = Results("C02", tier)
    setattr(sub, "_nested_xref", True)
    c02.run(sub, idx, tier)
    n = 0
    for inst in sub.instances:
        if inst.func in names or any(f"::{nm}::" in inst.key for nm in names):
            n += 1
            res.add("R-C11e", inst.status, inst.site, f"{inst.rule}::{inst.key}", f"[C02 {inst.rule}] {inst.detail}", inst.func)
    res.analysed["opset_gated_passes"] = [g.qualname for g in gated]
    res.analysed["c02_instances_for_gated_passes"] = n


# ---------------------------------------------------------------------------------------------- R-C11g
# String attributes with a closed set of values (operator spec; frozen reference)
_AUTO_PAD = {"NOTSET", "SAME_UPPER", "SAME_LOWER", "VALID"}
_REDUCTION = {"none", "add", "mul", "max", "min"}
ENUM_ATTRS = {
    ("TensorScatter", "mode"): {"linear", "circular"},
    ("Pad", "mode"): {"constant", "reflect", "edge", "wrap"},
    ("Resize", "mode"): {"nearest", "linear", "cubic"},
    ("Resize", "coordinate_transformation_mode"): {"half_pixel", "half_pixel_symmetric", "pytorch_half_pixel", "align_corners", "asymmetric", "tf_crop_and_resize"},
    ("Resize", "nearest_mode"): {"round_prefer_floor", "round_prefer_ceil", "floor", "ceil"},
    ("Resize", "keep_aspect_ratio_policy"): {"stretch", "not_larger", "not_smaller"},
    ("ScatterND", "reduction"): _REDUCTION, ("ScatterElements", "reduction"): _REDUCTION,
    ("DepthToSpace", "mode"): {"DCR", "CRD"},
    ("Gelu", "approximate"): {"none", "tanh"},
    ("GridSample", "mode"): {"linear", "nearest", "cubic", "bilinear", "bicubic"},
    ("GridSample", "padding_mode"): {"zeros", "border", "reflection"},
    ("BitShift", "direction"): {"LEFT", "RIGHT"},
    ("Conv", "auto_pad"): _AUTO_PAD, ("ConvTranspose", "auto_pad"): _AUTO_PAD, ("MaxPool", "auto_pad"): _AUTO_PAD, ("AveragePool", "auto_pad"): _AUTO_PAD, ("LpPool", "auto_pad"): _AUTO_PAD,
    ("LSTM", "direction"): {"forward", "reverse", "bidirectional"}, ("GRU", "direction"): {"forward", "reverse", "bidirectional"}, ("RNN", "direction"): {"forward", "reverse", "bidirectional"},
    ("RoiAlign", "mode"): {"avg", "max"}, ("RoiAlign", "coordinate_transformation_mode"): {"half_pixel", "output_half_pixel"},
}


def rule_g(res: Results, idx: Index) -> None:
    """Enumerated string attributes: a literal (or locally constant) value passed for an attribute with a closed value set
    must be a member of that set — the checker only validates attribute NAMES against the schema, the runtime rejects the
    value (or, worse, a permissive runtime picks its default)."""
    import ast as _ast
    from ..flow import defuse as _defuse
    from ..index import dotted as _dotted, walk_no_nested as _wnn
    res.rule("R-C11g", "literal values of enumerated string attributes are members of the operator's value set", floor=10)
    n = 0
    for m in idx.product_modules():
        if "/plugins/" not in m.rel and "/converter/" not in m.rel:
            continue
        if ".examples" in m.name:
            continue
        for fi in m.funcs.values():
            du = None
            for c in _wnn(fi.node):
                if not (isinstance(c, _ast.Call) and isinstance(c.func, _ast.Attribute) and c.func.attr[:1].isupper() and (_dotted(c.func.value) or "").lower().endswith("builder")):
                    continue
                op = c.func.attr
                for k in c.keywords:
                    if k.arg is None or (op, k.arg) not in ENUM_ATTRS:
                        continue
                    vals = []
                    if isinstance(k.value, _ast.Constant) and isinstance(k.value.value, str):
                        vals = [k.value.value]
                    elif isinstance(k.value, _ast.Name):
                        du = du or _defuse(fi.node)
                        dv = [v for v in du.values(k.value.id) if v is not None]
                        if dv and all(isinstance(v, _ast.Constant) and isinstance(v.value, str) for v in dv):
                            vals = [v.value for v in dv]
                        elif dv and all(isinstance(v, _ast.IfExp) and isinstance(v.body, _ast.Constant) and isinstance(v.orelse, _ast.Constant) for v in dv):
                            vals = [x.value for v in dv for x in (v.body, v.orelse) if isinstance(x.value, str)]
                    elif isinstance(k.value, _ast.IfExp) and isinstance(k.value.body, _ast.Constant) and isinstance(k.value.orelse, _ast.Constant):
                        vals = [x.value for x in (k.value.body, k.value.orelse) if isinstance(x.value, str)]
                    if not vals:
                        continue
                    n += 1
                    key = f"{m.rel}::{fi.qualname}::{op}.{k.arg}"
                    site = f"{m.rel}:{c.lineno}"
                    bad = [v for v in vals if v not in ENUM_ATTRS[(op, k.arg)]]
                    if bad:
                        res.violation("R-C11g", site, key, f"{op}({k.arg}={bad[0]!r}): the operator only defines {sorted(ENUM_ATTRS[(op, k.arg)])}; the model carries an attribute value no runtime accepts", fi.qualname)
                    else:
                        res.ok("R-C11g", site, key, f"{k.arg} in {sorted(set(vals))}", fi.qualname)
    res.analysed["enumerated_attribute_sites"] = n


# ---------------------------------------------------------------------------------------------- R-C11h
def rule_h(res: Results, idx: Index, facts: OpsetFacts) -> None:
    """A lowering that takes another path from some opset on must still compute the same function.  Where the
    opset-gated path and the path used below that opset assign the SAME local name from the SAME operator (`max_start =
    Sub(…)`, `start_clamped = Min(…)`), the two emissions are siblings: each operand position must derive from the same
    equation operands (taint by `ctx.get_value_for_var(<eqn input>)` roots, through shapes / gathers / scalars).  A
    sibling whose operand lost a root (the update's extent in a clamp bound) computes something else at that opset."""
    from ..flow import defuse, names_in
    res.rule("R-C11h", "opset-gated alternative lowerings feed sibling emissions from the same equation operands", floor=1)
    n = 0
    for m in idx.product_modules():
        if "/plugins/" not in m.rel or "opset" not in m.src:
            continue
        for fi in m.funcs.values():
            if fi.name != "lower" and not fi.name.startswith("_lower"):
                continue
            du = defuse(fi.node)
            roots: Dict[str, str] = {}
            for nm, ds in du.defs.items():
                for d in ds:
                    if d.value is not None and isinstance(d.value, ast.Call) and (call_name(d.value) or "").endswith("get_value_for_var") and d.value.args:
                        roots[nm] = src(d.value.args[0], 30)
            if len(roots) < 2:
                continue
            fed: Dict[str, set] = {}          # container mutation: `xs.append(v)` makes xs depend on v
            for c in walk_no_nested(fi.node):
                if isinstance(c, ast.Call) and isinstance(c.func, ast.Attribute) and c.func.attr in ("append", "extend", "insert", "add", "update") \
                        and isinstance(c.func.value, ast.Name):
                    for a in c.args:
                        fed.setdefault(c.func.value.id, set()).update(names_in(a))

            def clo_of(names: set) -> set:
                out = set(du.closure(names)) | set(names)
                while True:
                    extra = set()
                    for nm_ in out:
                        if nm_ in fed:
                            extra |= set(du.closure(fed[nm_])) | fed[nm_]
                    if extra <= out:
                        return out
                    out |= extra
            by_name: Dict[Tuple[str, str], List[Tuple[ast.Call, FrozenSet[int]]]] = {}
            for st in walk_no_nested(fi.node):
                if not (isinstance(st, ast.Assign) and len(st.targets) == 1 and isinstance(st.targets[0], ast.Name)):
                    continue
                v = st.value
                while isinstance(v, ast.Call) and (call_name(v) or "") in ("cast", "typing.cast") and len(v.args) == 2:
                    v = v.args[1]
                if not isinstance(v, ast.Call):
                    continue
                op = None
                operands: List[ast.AST] = []
                cn = call_name(v) or ""
                if isinstance(v.func, ast.Attribute) and v.func.attr[:1].isupper() and "builder" in cn:
                    op, operands = v.func.attr, list(v.args)
                else:
                    sc = [a for a in v.args if isinstance(a, ast.Constant) and isinstance(a.value, str) and a.value[:1].isupper() and a.value.isalpha()]
                    if sc and len(v.args) >= 3:
                        op = sc[0].value
                        operands = [a for a in v.args if not isinstance(a, ast.Constant) and not (isinstance(a, ast.Name) and a.id == "ctx")]
                if op is None or len(operands) < 2:
                    continue
                by_name.setdefault((st.targets[0].id, op), []).append((v, facts.path_fact(st, fi)))
            for (nm, op), lst in sorted(by_name.items()):
                if len(lst) < 2:
                    continue
                gated = [x for x in lst if x[1] != facts.U]
                plain = [x for x in lst if x[1] == facts.U]
                if not gated or not plain:
                    continue

                def taints(call: ast.Call) -> List[FrozenSet[str]]:
                    out = []
                    ops_ = list(call.args) if isinstance(call.func, ast.Attribute) and call.func.attr[:1].isupper() else [a for a in call.args if not isinstance(a, ast.Constant) and not (isinstance(a, ast.Name) and a.id == "ctx")]
                    for a in ops_:
                        clo = clo_of(names_in(a))
                        out.append(frozenset(roots[r] for r in clo if r in roots))
                    return out
                ref = taints(plain[0][0])
                for call, fact in gated:
                    n += 1
                    key = f"{m.rel}::{fi.qualname}::sibling::{nm}::{op}@{min(fact) if fact else '?'}"
                    site = f"{m.rel}:{call.lineno}"
                    got = taints(call)
                    if len(got) != len(ref):
                        res.unresolved("R-C11h", site, key, f"siblings `{nm} = {op}(…)` take {len(got)} and {len(ref)} operands", fi.qualname)
                        continue
                    lost = [(i, sorted(r - g)) for i, (g, r) in enumerate(zip(got, ref)) if r - g]
                    if lost:
                        i, what = lost[0]
                        res.violation("R-C11h", site, key, f"`{nm} = {op}(…)` on the path taken at opsets {min(fact)}..{max(fact)} no longer derives operand {i} from {what} as its sibling at line {plain[0][0].lineno} does "
                                      f"(`{src(call, 70)}` vs `{src(plain[0][0], 70)}`): the two opset ranges compute different functions", fi.qualname)
                    else:
                        res.ok("R-C11h", site, key, f"operands of `{nm} = {op}(…)` derive from the same equation inputs as the sibling at line {plain[0][0].lineno}", fi.qualname)
    res.analysed["opset_gated_sibling_emissions"] = n



# ---------------------------------------------------------------------------------------------- R-C11i
def rule_i(res: Results, idx: Index, facts: OpsetFacts) -> None:
    """From opset 27 Range accepts float16 / bfloat16.  A Range in such a type COUNTS in it: the limit 2051 is the float16
    value 2052, and indices above 2**11 (2**8 for bfloat16) are not representable, so the model returns another number of
    elements than the same request at a lower opset (INT64 / float32 Range + Cast).  Wherever a lowering switches to the native
    narrow-float Range on `opset >= 27`, the switch must also be bounded by an extent test (an ordering comparison next to
    the opset test, directly or through a flag it is and-ed with)."""
    res.rule("R-C11i", "the opset-27 switch to a float16 / bfloat16 Range is bounded by the number of elements the type can count", floor=2)
    from ..flow import defuse, names_in
    n = 0
    ge27 = frozenset(v for v in facts.U if v >= 27)
    for m in idx.product_modules():
        if "/plugins/" not in m.rel or "Range" not in m.src or "27" not in m.src:
            continue
        for fi in m.funcs.values():
            if not any(isinstance(c, ast.Call) and isinstance(c.func, ast.Attribute) and c.func.attr == "Range" for c in walk_no_nested(fi.node)):
                continue
            du = defuse(fi.node)
            for b in walk_no_nested(fi.node):
                if not (isinstance(b, ast.BoolOp) and isinstance(b.op, ast.And)):
                    continue
                gates = [x for x in b.values if isinstance(x, ast.Compare) and facts.cond_set(x, True, fi) == ge27]
                if not gates:
                    continue
                if not any("DTYPES" in src(v, 80) or "float16" in src(v, 80) for v in b.values):
                    continue
                n += 1
                key = f"{m.rel}::{fi.qualname}::native-range-switch"
                site = f"{m.rel}:{b.lineno}"
                exprs = list(b.values)
                for v in b.values:
                    if isinstance(v, ast.Name):
                        exprs += [d.value for d in du.defs.get(v.id, []) if d.value is not None]
                bound = next((c for e in exprs for c in ast.walk(e) if isinstance(c, ast.Compare) and any(isinstance(o, (ast.LtE, ast.Lt)) for o in c.ops)
                              and any(isinstance(x, ast.BinOp) and isinstance(x.op, ast.Pow) for x in ast.walk(c)) ), None)
                if bound is not None:
                    res.ok("R-C11i", site, key, f"the switch is and-ed with `{src(bound, 60)}`", fi.qualname)
                else:
                    res.violation("R-C11i", site, key, f"`{src(b, 80)}` switches to a Range in the narrow float type for every extent: beyond 2**11 (float16) / 2**8 (bfloat16) elements the limit and the indices are "
                                  "not representable — iota / arange of 2051 float16 elements returns 2052 at opset 27 and 2051 at opset 23", fi.qualname)
    res.analysed["native_range_switches"] = n


# ---------------------------------------------------------------------------------------------- R-C11j
TRAILING_AXES_OPS = {"LayerNormalization", "RMSNormalization"}  # `axis=k` means "normalise over k .. rank-1"


def rule_j(res: Results, idx: Index) -> None:
    """`LayerNormalization(axis=k)` / `RMSNormalization(axis=k)` normalise over ALL axes k..rank-1.  A lowering whose primitive
    normalises along one axis (its decomposed sibling reduces over `[axis]`) computes the same function with the native operator
    only when that axis is the last one, so the native emission has to be guarded by `axis == rank - 1` (else the opset at which
    the native operator becomes available changes the function: nnx.RMSNorm over axis 1 of a rank-3 input, opset 22 vs 23)."""
    from ..guards import path_conditions
    from ..flow import defuse, names_in
    res.rule("R-C11j", "native normalisation operators whose `axis` means axis..rank-1 are emitted for a single-axis primitive only when the axis is the last one", floor=3)
    n = 0
    for m in idx.product_modules():
        if "/plugins/" not in m.rel:
            continue
        for fi in m.funcs.values():
            for c in walk_no_nested(fi.node):
                if not (isinstance(c, ast.Call) and isinstance(c.func, ast.Attribute) and c.func.attr in TRAILING_AXES_OPS and "builder" in src(c.func.value, 40)):
                    continue
                n += 1
                op = c.func.attr
                key = f"{m.rel}::{fi.qualname}::trailing-axes::{op}"
                site = f"{m.rel}:{c.lineno}"
                axis_kw = next((kw.value for kw in c.keywords if kw.arg == "axis"), None)
                if axis_kw is None or (isinstance(axis_kw, ast.Constant) and axis_kw.value == -1) or (isinstance(axis_kw, ast.UnaryOp) and src(axis_kw, 5) == "-1"):
                    res.ok("R-C11j", site, key, "axis is the last one (literal / operator default)", fi.qualname)
                    continue
                anames = names_in(axis_kw)
                conds = path_conditions(c)

                def last_axis_test(e: ast.AST) -> bool:
                    if not (isinstance(e, ast.Compare) and len(e.ops) == 1 and isinstance(e.ops[0], ast.Eq)):
                        return False
                    sides = [e.left, e.comparators[0]]
                    for a, b in (sides, sides[::-1]):
                        if names_in(a) & anames and isinstance(b, ast.BinOp) and isinstance(b.op, ast.Sub) and isinstance(b.right, ast.Constant) and b.right.value == 1:
                            return True
                    return False

                if any(want and last_axis_test(e) for e, want in conds):
                    res.ok("R-C11j", site, key, "the emission is guarded by `axis == rank - 1`", fi.qualname)
                    continue
                du = defuse(fi.node)
                defs_src = " ".join(src(d.value, 120) for nm in anames for d in du.defs.get(nm, []) if getattr(d, "value", None) is not None)
                if "len(" in defs_src and defs_src.count("len(") >= 2 and "-" in defs_src:
                    res.ok("R-C11j", site, key, "axis = rank(x) - rank(scale): the scale operand spans exactly the trailing block that is normalised", fi.qualname)
                    continue
                # a decomposed sibling in the same function that reduces over the single axis
                single = [r for r in walk_no_nested(fi.node) if isinstance(r, ast.Call) and isinstance(r.func, ast.Attribute) and r.func.attr in ("ReduceMean", "ReduceSum", "ReduceSumSquare", "ReduceL2")]
                one_axis = any(isinstance(l, ast.List) and len(l.elts) == 1 and names_in(l.elts[0]) & anames for l in ast.walk(fi.node))
                if single and one_axis:
                    res.violation("R-C11j", site, key, f"`{op}(axis={src(axis_kw, 20)})` normalises over axis..rank-1, the decomposed path of the same lowering reduces over `[{src(axis_kw, 20)}]` alone, and nothing "
                                  "restricts the native path to the last axis: the two opset ranges export different functions for every other axis", fi.qualname)
                else:
                    res.unresolved("R-C11j", site, key, f"`{op}(axis={src(axis_kw, 20)})`: whether the axes the library normalises are exactly the trailing block axis..rank-1 is not decided", fi.qualname)
    res.analysed["trailing_axes_emissions"] = n
