"""R-C01t — dynamic window starts are clamped exactly once, and not wrapped again.

XLA's DynamicSlice / DynamicUpdateSlice clamp the start so that the window fits: 0 <= start <= dim - size.  The Python
wrappers `lax.dynamic_slice` / `lax.dynamic_update_slice` wrap a negative start once (start + dim) BEFORE they bind the
primitive — those equations are already in the jaxpr.  The lowering of the primitive therefore has to (a) pass every start
through Max(·, 0) and Min(·, dim - size) before it reaches the Slice / scatter, and (b) must not wrap a second time
(`Where(start < 0, start + dim, start)`): start -7 on an axis of 5 would land at 3 instead of 0.
"""
from __future__ import annotations

import ast
from typing import List, Set

from ..flow import defuse, names_in
from ..guards import src
from ..index import AnalysisError, Index, call_name, walk_no_nested
from ..report import Results


def _closure_calls(du, e: ast.AST) -> List[ast.Call]:
    clo = du.closure(names_in(e)) | names_in(e)
    exprs = [e] + [d.value for nm in clo for d in du.defs.get(nm, []) if d.value is not None]
    return [c for x in exprs for c in ast.walk(x) if isinstance(c, ast.Call)]


def _op_of(c: ast.Call) -> str:
    """`ctx.builder.Max(...)` -> Max ; `_binary_scalar(ctx, "Max", a, b, …)` -> Max."""
    cn = call_name(c) or ""
    if cn.split(".")[-1] == "_binary_scalar" and len(c.args) >= 2 and isinstance(c.args[1], ast.Constant):
        return str(c.args[1].value)
    if ".builder." in f".{cn}":
        return cn.split(".")[-1]
    return ""


def run_dynamic_window_starts(res: Results, idx: Index) -> None:
    res.rule("R-C01t", "the start of a dynamic window passes through Max(., 0) and Min(., dim - size) before it reaches the Slice / scatter, and is not wrapped (start + dim) a second time", floor=3)
    n = 0
    # (a) dynamic_slice: the `starts` operand of the emitted Slice
    rel = "jax2onnx/plugins/jax/lax/dynamic_slice.py"
    m = idx.module(rel)
    lowers = [fi for fi in m.funcs.values() if fi.name == "lower"]
    if not lowers:
        raise AnalysisError("dynamic_slice.lower not found")
    for fi in lowers:
        du = defuse(fi.node)
        for c in walk_no_nested(fi.node):
            if not (isinstance(c, ast.Call) and _op_of(c) == "Slice"):
                continue
            n += 1
            key = f"{rel}::{fi.qualname}::window-start::Slice"
            site = f"{rel}:{c.lineno}"
            starts = None
            if len(c.args) >= 2 and not isinstance(c.args[0], ast.Starred):
                starts = c.args[1]
            elif c.args and isinstance(c.args[0], ast.Starred) and isinstance(c.args[0].value, ast.Name):
                lst = [d.value for d in du.defs.get(c.args[0].value.id, []) if isinstance(d.value, ast.List)]
                if lst and len(lst[0].elts) >= 2:
                    starts = lst[0].elts[1]
            if starts is None:
                res.unresolved("R-C01t", site, key, "the starts operand of the Slice is not a resolvable expression", fi.qualname)
                continue
            ops = {_op_of(x) for x in _closure_calls(du, starts)}
            if {"Max", "Min"} <= ops or "Clip" in ops:
                res.ok("R-C01t", site, key, f"`{src(starts, 30)}` derives from Max / Min nodes (clamped into 0 .. dim - size)", fi.qualname)
            else:
                res.violation("R-C01t", site, key, f"`{src(starts, 30)}` reaches the Slice without a clamp: XLA clamps the start of a dynamic window into 0 .. dim - size, ONNX Slice truncates a window that runs "
                              "past the end (fewer rows than declared) and counts a negative start from the end", fi.qualname)
    # (b) dynamic_update_slice: every clamp chain Min(Max(start, 0), max_start); no wrap inside
    rel2 = "jax2onnx/plugins/jax/lax/dynamic_update_slice.py"
    m2 = idx.module(rel2)
    for fi in m2.funcs.values():
        du = defuse(fi.node)
        for c in walk_no_nested(fi.node):
            if not (isinstance(c, ast.Call) and _op_of(c) == "Min" and (call_name(c) or "").split(".")[-1] == "_binary_scalar" and len(c.args) >= 4):
                continue
            inner = _closure_calls(du, c.args[2])
            ops = {_op_of(x) for x in inner}
            if "Max" not in ops:
                continue   # not a start clamp
            n += 1
            key = f"{rel2}::{fi.qualname}::window-start::{src(c.args[-1], 40) if isinstance(c.args[-1], ast.Constant) else 'clamp'}"
            site = f"{rel2}:{c.lineno}"
            wraps = [x for x in inner if _op_of(x) == "Where"]
            if wraps:
                res.violation("R-C01t", site, key, f"the clamped start derives from `{src(wraps[0], 60)}`: the primitive's start was already wrapped once by lax.dynamic_update_slice; wrapping a still-negative start again "
                              "moves it into range (start -7 on an axis of 5 lands at 3) where XLA clamps it to 0", fi.qualname)
            else:
                res.ok("R-C01t", site, key, "Max(start, 0) then Min(., dim - size); no second wrap", fi.qualname)
    res.analysed["dynamic_window_starts"] = n
