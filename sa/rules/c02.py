"""C02 — the graph optimizer never changes what a model computes (structural part).

R-C02a  observation guards: in every registered rewrite pass
          (A)  a retained node whose input is re-routed (replace_input_with / _set_node_inputs with a
               non-fresh value) changes the meaning of its output -> an observation test (graph output /
               nested-graph capture) on that node's output must be negative on every path to the rewrite
          (P2) replace_all_uses_with(out(P), in(P)) of a node P that is removed together with another node
               (pair fold) re-routes P's consumers -> out(P) and the carrier collection must be unobserved
          (R)  a removed node whose output is not re-routed by a dominating replace_all_uses_with(..,
               replace_graph_outputs=True) must have its output tested unobserved
R-C02b  first-input-only chain walks step only through ops whose other operands cannot change the
        element-wise meaning (single data input, or all side operands tested scalar-constant)
R-C02c  the shape-equality guard of the reshape-pair fold does not compare through a normaliser that
        maps every symbolic dimension to one constant
R-C02d  every ir.Value constructed by a pass that becomes a node input is defined (initializer or
        output of an inserted node)
R-C02e  passes that run on function bodies write neither graph.initializers nor graph.inputs
R-C02f  every rewrite commit point (replace_all_uses_with) is dominated by the pass's semantic
        precondition (inverse permutation, keepdims, shape equality, exact identity, value-preserving
        cast, SiLU operand match, literal True)
"""
from __future__ import annotations

import ast
from typing import Dict, List, Optional, Set, Tuple

from ..cfg import cfg_of
from ..flow import defuse, names_in
from ..guards import path_conditions, src
from ..index import AnalysisError, FuncInfo, Index, Module, call_name, dotted, enclosing_stmt, fold_const, is_const, parents, walk_no_nested
from ..optflow import PassFlow, _last, observation_predicates, registered_passes
from ..report import Results
from ..tables.onnx_ops import get_history

OPT = "jax2onnx/converter/ir_optimizations.py"

# ops whose extra inputs never take part in the element-wise computation (reason per entry)
SIDE_INPUTS_INERT = {
    "CastLike": "the second input only supplies the target element type; its shape and values are ignored",
}

# registry name -> callee names of the semantic precondition; every one must hold on each path to a commit point
PRECONDITIONS: Dict[str, List[Tuple[str, ...]]] = {
    # each tuple is a disjunction of acceptable callee names / comparison markers
    "remove_redundant_transpose_reduce": [("_is_inverse_perm",), ("cmp:keepdims",)],
    "remove_redundant_transpose_add_forests": [("_is_inverse_perm",)],
    "remove_redundant_transpose_pairs": [("_is_inverse_perm",)],
    "remove_redundant_reshape_pairs": [("_shapes_compatible",)],
    "remove_identity_reshapes": [("_shapes_match_exact",)],
    "rewrite_mul_sigmoid_as_swish": [("_match_mul_sigmoid_silu_inputs",)],
    "inline_dropout_training_mode_constants": [("_read_scalar_bool_from_value_or_constant",)],
}


# operand roles a precondition call must have: callee -> [(argument index, 'in' | 'out')]:
# 'in' = derived from an input of a pattern node (the source value), 'out' = from a node output
PRECONDITION_ARG_ROLES: Dict[str, List[Tuple[int, str]]] = {
    "_shapes_match_exact": [(0, "in")],       # the *source* dims must equal the constant target, not only the declared output dims
    "_shapes_compatible": [(0, "in"), (1, "out")],
}


def _key(fi: FuncInfo, what: str) -> str:
    return f"{OPT}::{fi.qualname}::{what}"


def _removed_names(call: ast.Call) -> List[str]:
    if not call.args:
        return []
    a = call.args[0]
    while isinstance(a, ast.Call) and _last(call_name(a)) in ("list", "set", "tuple", "sorted") and a.args:
        a = a.args[0]
    if isinstance(a, ast.Name):
        return [a.id]
    if isinstance(a, (ast.List, ast.Tuple, ast.Set)):
        return [e.id for e in a.elts if isinstance(e, ast.Name)]
    return sorted(names_in(a))


def _kw_true(call: ast.Call, name: str) -> bool:
    for k in call.keywords:
        if k.arg == name and isinstance(k.value, ast.Constant) and k.value.value is True:
            return True
    return False


def rule_a(res: Results, idx: Index, m: Module, passes) -> Dict[str, Set[str]]:
    """Returns carriers per pass function (used by C08)."""
    preds = observation_predicates(m)
    res.analysed["observation_predicates"] = sorted(preds)
    carriers_out: Dict[str, Set[str]] = {}
    seen_funcs: Set[int] = set()
    for name, fi, fb, kind in passes:
        if kind != "graph" or id(fi.node) in seen_funcs:
            continue
        seen_funcs.add(id(fi.node))
        pf = PassFlow(idx, m, fi, preds)
        muts = pf.mutations()
        if not muts:
            continue
        g = cfg_of(fi.node)
        unattributed = [o for o in pf.observations if not o.attributed]
        rauws = [c for k, c in muts if k == "rauw"]
        removes = [c for k, c in muts if k == "remove"]
        removed_all: Set[str] = set()
        for r in removes:
            for nm in _removed_names(r):
                removed_all |= pf.group(nm, at=r)

        def verdict(rule_key: str, site_node: ast.AST, groups: Set[str], what: str, why: str) -> None:
            prot = [o for o in pf.protecting_observations(site_node) if o.groups & groups]
            site = f"{OPT}:{site_node.lineno}"
            key = _key(fi, rule_key)
            kinds = set().union(*[o.kinds for o in prot]) if prot else set()
            if prot and {"output", "nested"} <= kinds:
                res.ok("R-C02a", site, key, f"{what}: observation test `{src(prot[0].call, 70)}` (line {prot[0].call.lineno}) is negative on every path (graph outputs and nested-graph captures)", fi.qualname)
            elif prot:
                missing = "nested-graph captures (Loop / If bodies)" if "nested" not in kinds else "graph outputs"
                res.violation("R-C02a", site, key, f"{what}: only {'graph outputs' if 'output' in kinds else 'nested captures'} are tested (`{src(prot[0].call, 60)}`), not {missing}; "
                              "_consumer_nodes sees neither, so the value can still be observed when the rewrite fires", fi.qualname)
            elif unattributed:
                res.unresolved("R-C02a", site, key, f"{what}: no attributed observation guard; the function contains an observation test the analysis cannot attribute (line {unattributed[0].call.lineno})", fi.qualname)
            else:
                res.violation("R-C02a", site, key, f"{what}: {why}; no graph-output / nested-graph test on it dominates the rewrite "
                              "(_consumer_nodes ignores graph outputs and nested-graph captures)", fi.qualname)

        done: Set[str] = set()
        # ---- (A) retained re-meant nodes
        for k, c in muts:
            if k == "reinput":
                x = c.func.value  # type: ignore[attr-defined]
                newv = c.args[1] if len(c.args) > 1 else None
            elif k == "setinputs":
                x = c.args[0] if c.args else None
                newv = c.args[1] if len(c.args) > 1 else None
            else:
                continue
            if not isinstance(x, ast.Name):
                continue
            if newv is not None and pf.is_fresh_value(newv) and not (pf.owners(newv, kind="in") - {x.id}):
                # the new inputs are the node's own inputs plus values constructed by the pass (equal-value
                # replacement; its precondition is R-C02f's business)
                continue
            if any(isinstance(a, ast.Assign) and any(isinstance(t, ast.Attribute) and t.attr == "op_type" and isinstance(t.value, ast.Name) and t.value.id == x.id for t in a.targets)
                   for a in walk_no_nested(fi.node)):
                res.ok("R-C02a", f"{OPT}:{c.lineno}", _key(fi, f"reexpressed::{x.id}"), f"`{x.id}` is re-expressed in place (op_type and inputs change together): same denotation, no observer sees a different value", fi.qualname)
                continue
            grp = pf.group(x.id, at=c)
            tag = "A:" + "|".join(sorted(grp - {x.id}) or [x.id]) + f"@{_step_of(fi, c)}"
            if tag in done:
                continue
            done.add(tag)
            carriers_out.setdefault(fi.qualname, set()).update(grp)
            verdict(f"remeant::{tag[2:].split('@')[0]}", c, grp, f"node `{x.id}` ({', '.join(sorted(grp))}) keeps its place while its input is re-routed",
                    "its output changes meaning (layout/shape) but may be a graph output or be captured by a nested graph")
        # ---- (P2) upstream self-bypass in a pair fold
        for c in rauws:
            if len(c.args) < 2:
                continue
            old_o = pf.owners(c.args[0], kind="out")
            new_i = pf.owners(c.args[1], kind="in")
            selfb = old_o & new_i
            if not selfb:
                continue
            others = [r for r in rauws if r is not c and not (pf.owners(r.args[0], kind="out") & selfb)]
            # the other commit must be in the same step: same innermost enclosing loop
            same_step = [r for r in others if _step_of(fi, r) == _step_of(fi, c) and _same_iteration_path(g, c, r)]
            if not same_step:
                continue
            p = sorted(selfb)[0]
            grp = pf.group(p, at=c)
            verdict(f"bypass::{p}", c, grp, f"replace_all_uses_with(out({p}), in({p})) re-routes every observer of out({p})",
                    f"out({p}) is not equal to in({p}); if it is a graph output the model output changes")
            # carriers named by the enclosing `if <collection>:`
            for par in parents(c):
                if isinstance(par, ast.If) and isinstance(par.test, ast.Name):
                    cg = pf.group(par.test.id, at=c)
                    carriers_out.setdefault(fi.qualname, set()).update(cg)
                    verdict(f"remeant::{par.test.id}", c, cg, f"nodes in `{par.test.id}` are re-meant by the bypass of {p}",
                            "their outputs change meaning but may be graph outputs or nested-graph captures")
                    break
                if isinstance(par, (ast.For, ast.While, ast.FunctionDef)):
                    break
        # ---- (R) removed nodes
        for r in removes:
            for nm in _removed_names(r):
                grp = pf.group(nm, at=r)
                tag = f"removed::{nm}"
                # re-routed by a dominating RAUW with replace_graph_outputs=True?
                covered = False
                for c in rauws:
                    if len(c.args) >= 1 and (pf.owner_groups(c.args[0]) & grp) and _kw_true(c, "replace_graph_outputs"):
                        sc, sr = enclosing_stmt(c), enclosing_stmt(r)
                        if sc is not None and sr is not None and g.dominates(sc, sr):
                            covered = True
                            break
                if not covered:
                    # collection-wide re-route: `for E in <nm>: replace_all_uses_with(out(E), …)` dominating the removal
                    sr = enclosing_stmt(r)
                    for loop in walk_no_nested(fi.node):
                        if not isinstance(loop, ast.For) or not (names_in(loop.iter) & grp) or not isinstance(loop.target, ast.Name):
                            continue
                        inner = [c for c in rauws if _kw_true(c, "replace_graph_outputs") and any(p is loop for p in parents(c)) and loop.target.id in pf.owners(c.args[0], kind="out")]
                        if inner and sr is not None and g.dominates(loop, sr):
                            covered = True
                            break
                site = f"{OPT}:{r.lineno}"
                if covered:
                    res.ok("R-C02a", site, _key(fi, tag), f"output of removed `{nm}` is re-routed by replace_all_uses_with(..., replace_graph_outputs=True)", fi.qualname)
                    continue
                # collection filled by append: every append site must be protected
                app_sites = [a for a in walk_no_nested(fi.node) if isinstance(a, ast.Call) and isinstance(a.func, ast.Attribute) and a.func.attr in ("append", "add") and isinstance(a.func.value, ast.Name) and a.func.value.id == nm]
                if app_sites:
                    for i, a in enumerate(app_sites):
                        eg: Set[str] = set()
                        for x in names_in(a.args[0]) if a.args else []:
                            eg |= pf.group(x, at=a)
                        conds = path_conditions(a)
                        # nothing to observe when the node has no output
                        no_out = any(_is_none_or_empty_test(e, want, pf, eg) for e, want in conds)
                        if no_out:
                            res.ok("R-C02a", f"{OPT}:{a.lineno}", _key(fi, f"{tag}#{i}"), "element has no output value", fi.qualname)
                            continue
                        # RAUW'd at the append site?
                        rr = [c for c in rauws if (pf.owner_groups(c.args[0]) & eg) and _kw_true(c, "replace_graph_outputs") and enclosing_stmt(c) is not None and enclosing_stmt(a) is not None and g.dominates(enclosing_stmt(c), enclosing_stmt(a))]
                        if rr:
                            res.ok("R-C02a", f"{OPT}:{a.lineno}", _key(fi, f"{tag}#{i}"), "element's output re-routed before it is queued for removal", fi.qualname)
                            continue
                        verdict(f"{tag}#{i}", a, eg | grp, f"node queued in `{nm}` for removal", "its output may still be a graph output when the node is removed")
                    continue
                verdict(tag, r, grp, f"node `{nm}` is removed", "its output is not re-routed and may be a graph output: the model output would dangle")
    return carriers_out


def _is_none_or_empty_test(e: ast.AST, want: bool, pf: PassFlow, eg: Set[str]) -> bool:
    # `t_out is None` (True)  /  `not outputs` (True)  on an output of the element
    if isinstance(e, ast.Compare) and len(e.ops) == 1 and isinstance(e.ops[0], ast.Is) and isinstance(e.comparators[0], ast.Constant) and e.comparators[0].value is None and want:
        return bool(pf.owner_groups(e.left) & eg)
    if isinstance(e, ast.Name) and not want:
        return bool(pf.owner_groups(e) & eg)
    return False


def _innermost_loop(n: ast.AST) -> Optional[ast.AST]:
    for p in parents(n):
        if isinstance(p, (ast.For, ast.While)):
            return p
        if isinstance(p, (ast.FunctionDef, ast.AsyncFunctionDef)):
            return p
    return None


def _step_of(fi: FuncInfo, n: ast.AST) -> int:
    """Rewrite steps end with `changed = True`: the step of a mutation is the line of the first such
    assignment after it (0 when the function has none)."""
    lines = sorted(a.lineno for a in walk_no_nested(fi.node) if isinstance(a, ast.Assign) and len(a.targets) == 1 and isinstance(a.targets[0], ast.Name)
                   and a.targets[0].id == "changed" and isinstance(a.value, ast.Constant) and a.value.value is True)
    for ln in lines:
        if ln >= n.lineno:
            return ln
    return 0


def _same_iteration_path(g, a: ast.AST, b: ast.AST) -> bool:
    """Is there a path a -> b or b -> a that does not go back through the head of a loop enclosing both
    (i.e. both rewrites can happen in one step)?"""
    sa_, sb_ = enclosing_stmt(a), enclosing_stmt(b)
    if sa_ is None or sb_ is None:
        return False
    la = [p for p in parents(a) if isinstance(p, (ast.For, ast.While))]
    lb = [p for p in parents(b) if isinstance(p, (ast.For, ast.While))]
    heads = [n for p in la if p in lb for n in g.nodes_of(p)]
    na, nb = g.nodes_of(sa_), g.nodes_of(sb_)
    return g.can_reach(na, nb, removed_nodes=heads) or g.can_reach(nb, na, removed_nodes=heads)


def _same_loop_body_before(a: ast.AST, b: ast.AST) -> bool:
    """a occurs earlier than b inside the same loop body (straight-line order inside one iteration)."""
    la = [p for p in parents(a) if isinstance(p, (ast.For, ast.While))]
    lb = [p for p in parents(b) if isinstance(p, (ast.For, ast.While))]
    common = [p for p in la if p in lb]
    return bool(common) and a.lineno < b.lineno


# ---------------------------------------------------------------------------------------------- R-C02b
def rule_b(res: Results, idx: Index, m: Module, passes) -> None:
    hist = get_history()
    sets = {k: v for k, v in m.consts.items() if isinstance(v, frozenset) and v and all(isinstance(x, str) for x in v)}
    n_walks = 0
    seen: Set[int] = set()
    for name, fi, fb, kind in passes:
        if id(fi.node) in seen:
            continue
        seen.add(id(fi.node))
        for loop in [n for n in walk_no_nested(fi.node) if isinstance(n, ast.While)]:
            # acceptance `if` inside the walk loop: body appends the tested node to a list and advances through
            # _first_input(node) / _consumer_nodes(.., _node_output(node)) without visiting _node_inputs(node)
            for st in ast.walk(loop):
                if not isinstance(st, ast.If):
                    continue
                tested = _tested_node(st.test)
                if tested is None:
                    continue
                body_src = ast.Module(body=st.body, type_ignores=[])
                appends = [c for c in ast.walk(body_src) if isinstance(c, ast.Call) and isinstance(c.func, ast.Attribute) and c.func.attr == "append" and c.args and isinstance(c.args[0], ast.Name) and c.args[0].id == tested]
                advances = [c for c in ast.walk(body_src) if isinstance(c, ast.Call) and _last(call_name(c)) in ("_first_input", "_node_output") and c.args and isinstance(c.args[0], ast.Name) and c.args[0].id == tested]
                visits_all = [c for c in ast.walk(body_src) if isinstance(c, ast.Call) and _last(call_name(c)) == "_node_inputs" and c.args and isinstance(c.args[0], ast.Name) and c.args[0].id == tested]
                if not appends or not advances or visits_all:
                    continue
                n_walks += 1
                accepted = _accepted_ops(idx, m, fi, st.test, tested, sets)
                site = f"{OPT}:{st.lineno}"
                if accepted is None:
                    res.unresolved("R-C02b", site, _key(fi, f"walk@{tested}"), f"acceptance test `{src(st.test)}` not understood", fi.qualname)
                    continue
                for op, guarded in sorted(accepted.items()):
                    key = _key(fi, f"walk::{op}")
                    sch = hist.schema_at(op, hist.newest)
                    if sch is None:
                        res.unresolved("R-C02b", site, key, f"'{op}' is not an ONNX operator known to the installed onnx", fi.qualname)
                        continue
                    if sch.max_input <= 1:
                        res.ok("R-C02b", site, key, f"{op}: single input", fi.qualname)
                    elif op in SIDE_INPUTS_INERT:
                        res.ok("R-C02b", site, key, f"{op}: {SIDE_INPUTS_INERT[op]}", fi.qualname)
                    elif guarded:
                        res.ok("R-C02b", site, key, f"{op}: accepted only when the other operands are scalar constants", fi.qualname)
                    else:
                        res.violation("R-C02b", site, key, f"chain walk follows only the first input of `{tested}` but accepts {op}, which combines up to {sch.max_input} operands element-wise: "
                                      "a non-scalar side operand keeps the old layout/shape while the first operand is re-routed", fi.qualname)
    res.analysed["first_input_walks"] = n_walks
    if n_walks < 2:
        raise AnalysisError(f"only {n_walks} first-input chain walks recognised (2 on the confirmed tree: transpose pairs case 1, reshape pairs)")


def _tested_node(test: ast.AST) -> Optional[str]:
    """The node variable an acceptance test is about: `m.op_type in S` / `pred(m)` (possibly and-ed)."""
    for n in ast.walk(test):
        if isinstance(n, ast.Compare) and isinstance(n.left, ast.Attribute) and n.left.attr == "op_type" and isinstance(n.left.value, ast.Name) and isinstance(n.ops[0], ast.In):
            return n.left.value.id
    pc = _pred_call(test)
    if pc is not None:
        return pc.args[0].id  # type: ignore[attr-defined]
    return None


def _pred_call(test: ast.AST) -> Optional[ast.Call]:
    """`_is_xxx(node)` as the whole test or as a conjunct of an `and`"""
    if isinstance(test, ast.Call) and len(test.args) == 1 and isinstance(test.args[0], ast.Name) and (call_name(test) or "").startswith("_is_"):
        return test
    if isinstance(test, ast.BoolOp) and isinstance(test.op, ast.And):
        for v in test.values:
            r = _pred_call(v)
            if r is not None:
                return r
    return None


def _accepted_ops(idx: Index, m: Module, fi: FuncInfo, test: ast.AST, tested: str, sets: Dict[str, frozenset]) -> Optional[Dict[str, bool]]:
    """op -> guarded?  for the ops the acceptance test lets through."""
    # inline membership
    for n in ast.walk(test):
        if isinstance(n, ast.Compare) and isinstance(n.left, ast.Attribute) and n.left.attr == "op_type" and isinstance(n.ops[0], ast.In):
            s = fold_const(n.comparators[0], m.consts)
            if not is_const(s):
                return None
            has_side_check = any(isinstance(c, ast.Call) and _last(call_name(c)) == "_is_scalar_const_value" for c in ast.walk(test))
            return {op: has_side_check for op in s}
    pc = _pred_call(test)
    if pc is not None:
        test = pc
    if isinstance(test, ast.Call):
        g = idx.resolve_func(m, call_name(test) or "", scope=fi)
        if g is None:
            return None
        universe: Set[str] = set()
        for s in sets.values():
            universe |= set(s)
        out: Dict[str, bool] = {}
        a = g.node.args  # type: ignore[attr-defined]
        pname = (a.posonlyargs + a.args)[0].arg
        for op in sorted(universe):
            r = _eval_pred(g.node.body, op, pname, m)  # type: ignore[attr-defined]
            if r is None:
                return None
            accepted, guarded = r
            if accepted:
                out[op] = guarded
        return out
    return None


def _eval_pred(body: List[ast.stmt], op: str, pname: str, m: Module) -> Optional[Tuple[bool, bool]]:
    """Abstractly run a predicate `def p(node): ...` for node.op_type == op.
    Returns (may_accept, every accepting return is conjoined with a scalar-side-operand test)."""
    accept_unguarded = False
    accept_guarded = False

    def cond(e: ast.AST) -> Optional[bool]:
        if isinstance(e, ast.UnaryOp) and isinstance(e.op, ast.Not):
            c = cond(e.operand)
            return None if c is None else (not c)
        if isinstance(e, ast.BoolOp):
            vals = [cond(v) for v in e.values]
            if isinstance(e.op, ast.And):
                if any(v is False for v in vals):
                    return False
                return True if all(v is True for v in vals) else None
            if any(v is True for v in vals):
                return True
            return False if all(v is False for v in vals) else None
        if isinstance(e, ast.Compare) and len(e.ops) == 1 and isinstance(e.left, ast.Attribute) and e.left.attr == "op_type" and isinstance(e.left.value, ast.Name) and e.left.value.id == pname:
            rhs = fold_const(e.comparators[0], m.consts)
            if not is_const(rhs):
                return None
            o = e.ops[0]
            if isinstance(o, ast.In):
                return op in rhs
            if isinstance(o, ast.NotIn):
                return op not in rhs
            if isinstance(o, ast.Eq):
                return op == rhs
            if isinstance(o, ast.NotEq):
                return op != rhs
        return None

    def ret(e: Optional[ast.AST]) -> None:
        nonlocal accept_unguarded, accept_guarded
        if e is None or (isinstance(e, ast.Constant) and not e.value):
            return
        c = cond(e)
        if c is False:
            return
        if guard_ctx[0] or any(isinstance(x, ast.Call) and _last(call_name(x)) == "_is_scalar_const_value" for x in ast.walk(e)):
            accept_guarded = True
        else:
            accept_unguarded = True

    guard_ctx = [0]

    def _rejects_non_scalar(st: ast.If) -> bool:
        # `if not all(... _is_scalar_const_value(iv) ...): return False` — everything after it runs with scalar side operands
        t = st.test
        if not (isinstance(t, ast.UnaryOp) and isinstance(t.op, ast.Not)):
            return False
        if not any(isinstance(x, ast.Call) and _last(call_name(x)) == "_is_scalar_const_value" for x in ast.walk(t.operand)):
            return False
        return bool(st.body) and not st.orelse and all(isinstance(b, ast.Return) and (b.value is None or (isinstance(b.value, ast.Constant) and not b.value.value)) for b in st.body[-1:])

    def run(stmts: List[ast.stmt]) -> bool:
        """returns True if control may fall through; guard_ctx[0] then holds the guards established on that path"""
        for st in stmts:
            if isinstance(st, ast.Expr):
                continue
            if isinstance(st, ast.Return):
                ret(st.value)
                return False
            if isinstance(st, ast.If) and _rejects_non_scalar(st):
                guard_ctx[0] += 1
                continue
            if isinstance(st, ast.If):
                c = cond(st.test)
                g0 = guard_ctx[0]
                ft_body = ft_else = True
                g_body = g_else = g0
                if c is not False:
                    ft_body = run(st.body)
                    g_body = guard_ctx[0]
                guard_ctx[0] = g0
                if c is not True:
                    ft_else = run(st.orelse) if st.orelse else True
                    g_else = guard_ctx[0]
                if c is True:
                    guard_ctx[0] = g_body
                    if not ft_body:
                        return False
                elif c is False:
                    guard_ctx[0] = g_else
                    if not ft_else:
                        return False
                else:
                    if not ft_body and not ft_else:
                        return False
                    live = [g for g, ft in ((g_body, ft_body), (g_else, ft_else)) if ft]
                    guard_ctx[0] = min(live)
                continue
            if isinstance(st, (ast.Assign, ast.AnnAssign)):
                continue
            raise ValueError("unsupported")
        return True

    try:
        run(body)
    except ValueError:
        return None
    return (accept_unguarded or accept_guarded, not accept_unguarded)


# ---------------------------------------------------------------------------------------------- R-C02c
def _lossy_normaliser(fi: FuncInfo) -> Optional[int]:
    """Does the function map every non-integer dimension to one constant?  -> line of the constant."""
    for n in walk_no_nested(fi.node):
        if isinstance(n, ast.If):
            t = n.test
            is_int_test = any(isinstance(c, ast.Call) and (call_name(c) or "") == "isinstance" and len(c.args) == 2 and any(isinstance(x, ast.Name) and x.id in ("int",) for x in ast.walk(c.args[1])) for c in ast.walk(t))
            if not is_int_test:
                continue
            for s in n.orelse:
                for c in ast.walk(s):
                    if isinstance(c, ast.Call) and isinstance(c.func, ast.Attribute) and c.func.attr == "append" and c.args:
                        v = fold_const(c.args[0], {})
                        if is_const(v) and isinstance(v, int):
                            return c.lineno
    return None


def rule_c(res: Results, idx: Index, m: Module) -> None:
    f = idx.func(OPT, "remove_redundant_reshape_pairs_ir")
    # the shape-equality guard: abort-guard callee with (in(T1), out(T2)) operands dominating the commit
    rauws = [c for c in walk_no_nested(f.node) if isinstance(c, ast.Call) and _last(call_name(c)) == "replace_all_uses_with"]
    if not rauws:
        raise AnalysisError("remove_redundant_reshape_pairs_ir has no commit point")
    guards: Set[str] = set()
    for e, want in path_conditions(rauws[-1]):
        for c in ast.walk(e):
            if isinstance(c, ast.Call) and "shape" in (call_name(c) or "").lower() and want:
                guards.add(call_name(c) or "")
    if not guards:
        res.violation("R-C02c", f"{OPT}:{rauws[-1].lineno}", _key(f, "shape-guard"), "the reshape-pair fold is not dominated by any shape-equality test", f.qualname)
        return
    for gname in sorted(guards):
        g = idx.resolve_func(m, gname, scope=f)
        if g is None:
            res.unresolved("R-C02c", f"{OPT}:{rauws[-1].lineno}", _key(f, f"shape-guard::{gname}"), "guard function not resolved", f.qualname)
            continue
        # functions reachable (depth 2) from the guard
        todo, seen = [g], {id(g.node)}
        lossy = None
        while todo:
            cur = todo.pop()
            ln = _lossy_normaliser(cur)
            if ln is not None:
                lossy = (cur, ln)
                break
            for c in walk_no_nested(cur.node):
                if isinstance(c, ast.Call):
                    h = idx.resolve_func(cur.module, call_name(c) or "", scope=cur)
                    if h is not None and id(h.node) not in seen and h.module is m:
                        seen.add(id(h.node))
                        todo.append(h)
        key = _key(f, f"shape-guard::{gname}")
        if lossy is not None:
            res.violation("R-C02c", f"{OPT}:{lossy[1]}", key, f"shape guard {gname}() compares dimensions after {lossy[0].qualname}() replaced every symbolic/unknown dimension by one constant: "
                          "two different symbols compare equal and (B,N)->flat->(N,B) is folded to the identity", f.qualname)
        else:
            res.ok("R-C02c", f"{OPT}:{g.node.lineno}", key, f"{gname}() keeps symbolic dimensions distinguishable", f.qualname)


# ---------------------------------------------------------------------------------------------- R-C02d / e
def _graph_writes(fi: FuncInfo) -> List[Tuple[str, ast.AST]]:
    out = []
    for n in walk_no_nested(fi.node):
        if isinstance(n, ast.Call) and isinstance(n.func, ast.Attribute):
            d = dotted(n.func.value) or ""
            if d.endswith("graph.initializers") and n.func.attr in ("add", "update", "__setitem__", "pop", "clear"):
                out.append(("graph.initializers", n))
            if d.endswith("graph.inputs") and n.func.attr in ("append", "extend", "clear", "insert", "remove", "pop"):
                out.append(("graph.inputs", n))
        if isinstance(n, (ast.Assign, ast.AugAssign, ast.Delete)):
            tgts = n.targets if isinstance(n, (ast.Assign, ast.Delete)) else [n.target]
            for t in tgts:
                d = dotted(t.value) if isinstance(t, ast.Subscript) else dotted(t)
                if d and (d.endswith("graph.initializers") or d.endswith("graph.inputs")):
                    out.append((d.split(".")[-1] and ("graph." + d.split(".")[-1]), n))
    return out


def rule_de(res: Results, idx: Index, m: Module, passes) -> None:
    from ..callgraph import get_callgraph
    cg = get_callgraph(idx)
    seen: Set[int] = set()
    for name, fi, fb, kind in passes:
        if kind != "graph":
            continue
        funcs = [f for f in cg.reachable_from(fi, depth=3) if f.module is m]
        # ---- e
        if fb:
            for f in funcs:
                for what, n in _graph_writes(f):
                    res.violation("R-C02e", f"{OPT}:{n.lineno}", _key(fi, f"{what}@{f.qualname}"), f"pass '{name}' also runs on ONNX function bodies but writes {what} ({src(n, 70)}): "
                                  "function bodies own no initializers and their inputs are the function signature", f.qualname)
            res.ok("R-C02e", f"{OPT}:{fi.node.lineno}", _key(fi, "function-body-safe"), f"{len(funcs)} functions scanned for graph.initializers / graph.inputs writes", fi.qualname)
        else:
            res.ok("R-C02e", f"{OPT}:{fi.node.lineno}", _key(fi, "top-level-only"), "registered with function_bodies=False", fi.qualname)
        # ---- d
        if id(fi.node) in seen:
            continue
        seen.add(id(fi.node))
        du = defuse(fi.node)
        for n in walk_no_nested(fi.node):
            if not isinstance(n, ast.Call):
                continue
            cn = call_name(n) or ""
            fresh = cn in ("ir.Value", "ir.val")
            if not fresh:
                g = idx.resolve_func(m, cn, scope=fi) if cn else None
                fresh = g is not None and g.module is m and any(isinstance(r, ast.Return) and isinstance(r.value, ast.Call) and (call_name(r.value) or "") in ("ir.Value", "ir.val") for r in ast.walk(g.node))
            if not fresh:
                continue
            st = enclosing_stmt(n)
            tgt = None
            if isinstance(st, (ast.Assign, ast.AnnAssign)):
                t = st.targets[0] if isinstance(st, ast.Assign) else st.target
                if isinstance(t, ast.Name):
                    tgt = t.id
            if tgt is None:
                continue
            fwd = du.forward({tgt})
            used_as_input = False
            defined = False
            for c in walk_no_nested(fi.node):
                if not isinstance(c, ast.Call):
                    continue
                nm = _last(call_name(c))
                argnames = set()
                for a in list(c.args) + [k.value for k in c.keywords]:
                    argnames |= names_in(a)
                if nm in ("replace_input_with", "_set_node_inputs", "replace_all_uses_with") and (argnames & fwd):
                    # as the *new* value
                    newargs = c.args[1:] if nm != "_set_node_inputs" else c.args[1:]
                    if any(names_in(a) & fwd for a in newargs):
                        used_as_input = True
                if nm in ("Node", "node"):
                    for k in c.keywords:
                        if k.arg == "inputs" and (names_in(k.value) & fwd):
                            used_as_input = True
                        if k.arg == "outputs" and (names_in(k.value) & fwd):
                            defined = True
                if isinstance(c.func, ast.Attribute) and c.func.attr == "add" and (dotted(c.func.value) or "").endswith("initializers") and (argnames & fwd):
                    defined = True
            key = _key(fi, f"value::{tgt}")
            site = f"{OPT}:{n.lineno}"
            if used_as_input and not defined:
                res.violation("R-C02d", site, key, f"`{tgt}` is a freshly constructed ir.Value that becomes a node input but is neither registered as initializer nor produced by an inserted node: the model references an undefined value", fi.qualname)
            elif used_as_input:
                res.ok("R-C02d", site, key, "fresh value is defined (initializer or Constant/inserted node output)", fi.qualname)
            else:
                res.ok("R-C02d", site, key, "fresh value is not used as a node input", fi.qualname)


# ---------------------------------------------------------------------------------------------- R-C02f
def rule_f(res: Results, idx: Index, m: Module, passes) -> None:
    seen: Set[int] = set()
    for name, fi, fb, kind in passes:
        if name not in PRECONDITIONS or id(fi.node) in seen:
            continue
        seen.add(id(fi.node))
        for group in PRECONDITIONS[name]:
            for alt in group:
                if not alt.startswith("cmp:") and alt not in m.funcs:
                    raise AnalysisError(f"precondition helper {alt} of pass {name} no longer exists")
        du = defuse(fi.node)
        pf = PassFlow(idx, m, fi, {})
        rauws = [c for c in walk_no_nested(fi.node) if isinstance(c, ast.Call) and _last(call_name(c)) == "replace_all_uses_with"]
        for i, c in enumerate(rauws):
            conds = path_conditions(c)
            for group in PRECONDITIONS[name]:
                ok, how = _precondition_holds(idx, m, fi, du, conds, group, pf)
                key = _key(fi, f"commit#{i}::{'|'.join(group)}")
                site = f"{OPT}:{c.lineno}"
                if ok:
                    res.ok("R-C02f", site, key, how, fi.qualname)
                else:
                    res.violation("R-C02f", site, key, f"rewrite commit `{src(c, 60)}` of pass '{name}' is not dominated by its precondition {' / '.join(group)}: {how}", fi.qualname)


# helper -> callees that must hold (positively) on every path to a non-None return of the helper
HELPER_INNER_REQUIREMENTS: Dict[str, List[str]] = {
    "_match_mul_sigmoid_silu_inputs": ["_same_value"],   # x * Sigmoid(x): both operands are the same value
}


def rule_f_inner(res: Results, idx: Index, m: Module) -> None:
    for hname, reqs in HELPER_INNER_REQUIREMENTS.items():
        h = m.funcs.get(hname)
        if h is None:
            raise AnalysisError(f"precondition helper {hname} no longer exists")
        for alt in reqs:
            key = _key(h, f"requires::{alt}")
            if _helper_requires(h, alt):
                res.ok("R-C02f", f"{OPT}:{h.node.lineno}", key, f"{hname}() only returns a match after {alt}() held", h.qualname)
            else:
                res.violation("R-C02f", f"{OPT}:{h.node.lineno}", key, f"{hname}() can return a match without {alt}() having held: the rewrite it licenses is no longer an identity", h.qualname)
        # the op-type test of the matched producer
        sig = [n for n in walk_no_nested(h.node) if isinstance(n, ast.Compare) and isinstance(n.left, ast.Attribute) and n.left.attr == "op_type" and isinstance(n.comparators[0], ast.Constant)]
        sig2 = [n for n in walk_no_nested(h.node) if isinstance(n, ast.Call) and _last(call_name(n)) == "_is_standard_onnx_node" and len(n.args) == 2 and isinstance(n.args[1], ast.Constant)]
        key = _key(h, "requires::op_type")
        if sig2:
            res.ok("R-C02f", f"{OPT}:{sig2[0].lineno}", key, f"matched producer is tested to be standard-domain {sig2[0].args[1].value!r}", h.qualname)
        elif sig:
            res.ok("R-C02f", f"{OPT}:{sig[0].lineno}", key, f"matched producer is tested to be {sig[0].comparators[0].value!r}", h.qualname)
        else:
            res.violation("R-C02f", f"{OPT}:{h.node.lineno}", key, f"{hname}() no longer tests the operator type of the matched producer", h.qualname)


def _precondition_holds(idx: Index, m: Module, fi: FuncInfo, du, conds, group: Tuple[str, ...], pf: Optional[PassFlow] = None) -> Tuple[bool, str]:
    for alt in group:
        if alt.startswith("cmp:"):
            var = alt[4:]
            for e, want in conds:
                if isinstance(e, ast.Compare) and var in names_in(e):
                    return True, f"comparison `{src(e)}` is {want} on the path"
            continue
        for e, want in conds:
            for c in ast.walk(e):
                if isinstance(c, ast.Call) and _last(call_name(c)) == alt:
                    pos = _positive(e, c)
                    if pos == want:
                        if _existential(e, c):
                            # `any(pred(x) for x in xs)`: the predicate holds for SOME element only, while the rewrite re-routes
                            # every element of the collection
                            return False, f"`{src(c, 50)}` is only required of some element (`any(...)`), the rewrite applies to all of them"
                        if len(c.args) >= 2 and isinstance(c.args[0], ast.Name) and isinstance(c.args[1], ast.Name) and c.args[0].id == c.args[1].id:
                            return False, f"{alt}() is called with the same operand twice"
                        roles_ok = True
                        for ai, role in PRECONDITION_ARG_ROLES.get(alt, []):
                            if pf is not None and ai < len(c.args) and not pf.owners(c.args[ai], kind=role):
                                roles_ok = False
                        if not roles_ok:
                            continue
                        return True, f"`{src(c)}` holds on every path"
        # result variable of the helper tested `is None -> abort`
        for e, want in conds:
            if isinstance(e, ast.Compare) and isinstance(e.ops[0], (ast.Is, ast.IsNot)) and isinstance(e.left, ast.Name):
                isnone = isinstance(e.ops[0], ast.Is)
                if (isnone and want is False) or (not isnone and want is True):
                    for v in du.values(e.left.id):
                        for c in ast.walk(v):
                            if isinstance(c, ast.Call):
                                cn = _last(call_name(c))
                                if cn == alt:
                                    return True, f"`{e.left.id} = {src(c, 50)}` is not None on the path"
                                h = m.funcs.get(cn)
                                if h is not None and _helper_requires(h, alt):
                                    return True, f"helper {cn}() only returns a match after {alt}()"
                            # nv = pred(...); `nv is not None and bool(nv) is True`
    return False, "no such test on the path"


def _helper_requires(h: FuncInfo, alt: str) -> bool:
    """Every non-None return of helper h is dominated by a positive alt() test."""
    rets = [r for r in walk_no_nested(h.node) if isinstance(r, ast.Return) and r.value is not None and not (isinstance(r.value, ast.Constant) and r.value.value is None)]
    if not rets:
        return False
    for r in rets:
        ok = False
        for e, want in path_conditions(r):
            for c in ast.walk(e):
                if isinstance(c, ast.Call) and _last(call_name(c)) == alt and _positive(e, c) == want:
                    ok = True
        if not ok:
            return False
    return True


def _existential(e: ast.AST, target: ast.AST) -> bool:
    """target sits in the element expression of a comprehension that is the argument of any(...)"""
    cur = target
    while cur is not e and cur is not None:
        par = getattr(cur, "parent", None)
        if isinstance(par, (ast.GeneratorExp, ast.ListComp, ast.SetComp)):
            gp = getattr(par, "parent", None)
            if isinstance(gp, ast.Call) and (call_name(gp) or "") == "any" and gp.args and gp.args[0] is par:
                return True
        cur = par
    return False


def _positive(e: ast.AST, target: ast.AST) -> bool:
    pol = True
    cur = target
    while cur is not e and cur is not None:
        par = getattr(cur, "parent", None)
        if isinstance(par, ast.UnaryOp) and isinstance(par.op, ast.Not):
            pol = not pol
        cur = par
    return pol


def run(res: Results, idx: Index, tier: str) -> None:
    m = idx.module(OPT)
    passes = registered_passes(idx, m)
    if len(passes) < 12:
        raise AnalysisError(f"only {len(passes)} registered optimizer passes resolved (18 on the pinned tree)")
    res.analysed["registered_passes"] = [p[0] for p in passes]
    res.rule("R-C02a", "re-meant / bypassed / removed intermediate values carry a dominating graph-output / nested-graph observation test", floor=15)
    res.rule("R-C02b", "first-input-only chain walks accept only ops with one data input or scalar-constant side operands", floor=10)
    res.rule("R-C02c", "reshape-pair shape guard keeps symbolic dimensions distinguishable", floor=1)
    res.rule("R-C02d", "fresh ir.Value objects used as node inputs are defined", floor=2)
    res.rule("R-C02e", "function-body passes write neither graph.initializers nor graph.inputs", floor=10)
    res.rule("R-C02f", "every rewrite commit is dominated by the pass's semantic precondition", floor=10)
    res.trusted.append("onnx.defs max_input per operator (installed onnx) for R-C02b")
    res.assumptions += ["numerical equivalence of rewrites whose guards are present (permutation arithmetic, axis remapping, CSE and upstream onnx_ir passes) is not decided",
                        "node/value roles are recognised through the module's own accessors (_node_output, _first_input, _node_inputs, _producer_node, _consumer_nodes)"]
    rule_a(res, idx, m, passes)
    rule_b(res, idx, m, passes)
    rule_c(res, idx, m)
    rule_de(res, idx, m, passes)
    rule_f(res, idx, m, passes)
    rule_f_inner(res, idx, m)
    rule_g(res, idx, m)
    rule_h(res, idx, m, tier)
    if not getattr(res, "_nested_xref", False):
        rule_i(res, idx, tier)
    rule_j(res, idx, m)
    rule_k(res, idx, m)
    rule_l(res, idx, m)
    rule_m(res, idx, m)
    rule_n(res, idx, m)
    rule_o(res, idx, m)
    rule_p(res, idx, m)
    rule_q(res, idx, m)


# ---------------------------------------------------------------------------------------------- R-C02k
# Point-wise ONNX operators (output element i depends on input element(s) i only, up to numpy broadcasting): the
# reference the optimizer's "commutes with Transpose / Reshape" tables are checked against.  From the operator spec.
POINTWISE_OPS = {
    "Abs", "Acos", "Acosh", "Asin", "Asinh", "Atan", "Atanh", "Ceil", "Cos", "Cosh", "Erf", "Exp", "Floor", "IsInf", "IsNaN", "Log", "Neg", "Not", "Reciprocal",
    "Round", "Sign", "Sin", "Sinh", "Sqrt", "Tan", "Tanh", "Relu", "Sigmoid", "Elu", "Celu", "Gelu", "Selu", "Swish", "Mish", "Softplus", "Softsign", "LeakyRelu",
    "HardSigmoid", "HardSwish", "ThresholdedRelu", "Identity", "Cast", "CastLike", "Clip", "Dropout", "BitwiseNot",
    "Add", "Sub", "Mul", "Div", "Pow", "Mod", "Max", "Min", "Mean", "Sum", "And", "Or", "Xor", "Equal", "Less", "LessOrEqual", "Greater", "GreaterOrEqual",
    "Where", "BitShift", "BitwiseAnd", "BitwiseOr", "BitwiseXor", "PRelu",
}
LAYOUT_ATTRS = {"axis", "axes", "perm", "keepdims", "blocksize", "kernel_shape", "pads", "strides", "dilations", "transA", "transB", "direction", "k", "batch_dims"}


def rule_k(res: Results, idx: Index, m: Module) -> None:
    """The operator tables that make a node transparent for Transpose / Reshape folding (`_is_elementwise_node`,
    `_is_first_input_passthrough`) may only contain point-wise operators.  An operator with an axis / axes / perm
    attribute in its ONNX schema (Softmax, LogSoftmax, ReduceX, Concat …) acts along a fixed axis and does not commute
    with a permutation: definite violation.  Operators that are neither in the point-wise reference nor carry such
    an attribute are UNRESOLVED."""
    from .c08 import _op_sets
    res.rule("R-C02k", "operator tables of the transpose / reshape folds contain point-wise operators only", floor=20)
    hist = get_history()
    sets = _op_sets(m)
    used = {}
    for fn in ("_is_elementwise_node", "_is_first_input_passthrough"):
        f = idx.find_func(OPT, fn)
        if f is None:
            raise AnalysisError(f"{fn} not found (acceptance predicate of the transpose / reshape folds)")
        for x in ast.walk(f.node):
            if isinstance(x, ast.Name) and x.id in sets:
                used.setdefault(x.id, set()).add(fn)
    if not used:
        raise AnalysisError("the fold acceptance predicates reference no operator table")
    for sname in sorted(used):
        for op in sorted(sets[sname]):
            key = f"{OPT}::{sname}::{op}"
            site = f"{OPT}:1"
            attrs = set()
            vers = hist.hist.get(op, {})
            base = max([v for v in vers if v <= 21], default=None)
            for ver, sch in vers.items():
                if ver == base or ver > 21:  # the schema versions a target opset in 21..newest can select
                    attrs |= set(sch.attributes)
            lay = sorted(attrs & LAYOUT_ATTRS)
            if op in POINTWISE_OPS and not lay:
                res.ok("R-C02k", site, key, "point-wise operator", sname)
            elif lay:
                res.violation("R-C02k", site, key, f"`{op}` is listed in {sname} (nodes the {'/'.join(sorted(used[sname]))} folds move Transposes / Reshapes across) but its ONNX schema has the layout attribute(s) {lay}: it acts along a fixed axis and does not commute with a permutation of the axes", sname)
            elif op in POINTWISE_OPS:
                res.ok("R-C02k", site, key, "point-wise operator", sname)
            else:
                res.unresolved("R-C02k", site, key, f"`{op}` is not in the checker's point-wise reference and has no axis-like attribute", sname)


# ---------------------------------------------------------------------------------------------- R-C02j
def rule_j(res: Results, idx: Index, m: Module) -> None:
    """Value-identity predicates used as rewrite preconditions (`_same_value`: "x * Sigmoid(x)" is only a Swish when
    both operands are the *same* value) are evaluated on a small universe of abstract values: they may answer True
    only for the same object or for equal non-empty names — in particular not for two different outputs of one node."""
    from ..symeval import EvalRaise, Evaluator, Obj, Unsupported, library_dtypes
    res.rule("R-C02j", "value-identity predicates answer True only for the same value (same object or equal non-empty name)", floor=1)
    f = idx.find_func(OPT, "_same_value")
    if f is None:
        raise AnalysisError("_same_value not found (anchor of the Swish rewrite precondition)")
    n1, n2 = Obj("Node", name="n1", op_type="Split"), Obj("Node", name="n2", op_type="Relu")

    def val(name, node, index):
        return Obj("Value", name=name, producer=(lambda: node), index=(lambda: index), is_graph_output=(lambda: False), uses=(lambda: ()), shape=None, type=None, dtype=None, const_value=None)
    universe = [("a@n1#0", val("a", n1, 0)), ("b@n1#1", val("b", n1, 1)), ("c@n2#0", val("c", n2, 0)), ("a'@n1#0 (re-created)", val("a", n1, 0)),
                ("unnamed@n2#0", val("", n2, 0)), ("unnamed'@n2#1", val("", n2, 1)), ("input x", val("x", None, None)), ("input y", val("y", None, None)), ("None", None)]
    ev = Evaluator(idx, library_dtypes())
    key = f"{OPT}::_same_value::identity"
    site = f"{OPT}:{f.node.lineno}"
    n = 0
    try:
        for la, a in universe:
            for lb, b in universe:
                n += 1
                try:
                    got = ev.truth(ev.call(f, [a, b]))
                except EvalRaise:
                    continue
                same = a is not None and b is not None and (a is b or (bool(a.attrs["name"]) and a.attrs["name"] == b.attrs["name"]))
                if got and not same:
                    res.violation("R-C02j", site, key, f"_same_value({la}, {lb}) is True although these are different values: a rewrite guarded by it (Mul(x, Sigmoid(x)) -> Swish) then fires for Mul(p, Sigmoid(q)) with p != q", f.qualname)
                    return
                if same and a is b and not got:
                    res.unresolved("R-C02j", site, key, f"_same_value({la}, {lb}) is False for the same object (rewrites are lost, not unsound)", f.qualname)
                    return
    except Unsupported as e:
        res.unresolved("R-C02j", site, key, f"outside the evaluator's subset: {e}", f.qualname)
        return
    res.ok("R-C02j", site, key, f"sound on {n} pairs of abstract values (same node / different output index, equal names, unnamed values, graph inputs, None)", f.qualname)


# ---------------------------------------------------------------------------------------------- R-C02i
def rule_i(res: Results, idx: Index, tier: str) -> None:
    """remove_redundant_casts_ir is one of the registered passes: the soundness of its decision procedure and range
    proof is decided by C17 (R-C17b / c / d / e).  The violating / unresolved instances are re-reported here, the
    sound ones summarised, so that a cast pair removed unsoundly is also a C02 violation."""
    from . import c17
    res.rule("R-C02i", "the cast-elimination pass removes only value-preserving round trips (instances of C17 R-C17b/c/d/e)", floor=4)
    sub = Results("C17", tier)
    c17.run(sub, idx, tier)
    per_rule = {}
    for inst in sub.instances:
        if inst.rule not in ("R-C17b", "R-C17c", "R-C17d", "R-C17e"):
            continue
        per_rule.setdefault(inst.rule, [0, 0])
        per_rule[inst.rule][0] += 1
        if inst.status != "OK":
            per_rule[inst.rule][1] += 1
            res.add("R-C02i", inst.status, inst.site, f"{inst.rule}::{inst.key}", f"[C17 {inst.rule}] {inst.detail}", inst.func)
    for rid, (n, bad) in sorted(per_rule.items()):
        res.ok("R-C02i", f"{OPT}:1", f"{rid}::summary", f"{n - bad} of {n} instances of C17 {rid} hold", "remove_redundant_casts_ir")
    if len(per_rule) < 4:
        raise AnalysisError(f"C17 rules re-decided for C02: only {sorted(per_rule)} produced instances")


# ---------------------------------------------------------------------------------------------- R-C02g
def rule_g(res: Results, idx: Index, m: Module) -> None:
    """The observation predicates themselves are complete: the nested-capture test looks at sub-graph outputs,
    at every sub-graph node's inputs and recurses into sub-graphs of sub-graph nodes (both GRAPH and GRAPHS
    attributes); the graph-output test compares against every graph output."""
    res.rule("R-C02g", "observation predicates are complete (graph outputs; nested graphs at every depth, GRAPH and GRAPHS attributes)", floor=5)
    f = m.funcs.get("_nested_graph_references_value")
    if f is None:
        raise AnalysisError("_nested_graph_references_value no longer exists")
    nested = f.nested()
    walker = None   # the helper that takes a graph
    attrs = None    # the helper that takes a node and visits its graph attributes
    for g in nested.values():
        txt = ast.unparse(g.node)
        if "as_graph" in txt or "GRAPH" in txt:
            attrs = g
        elif any(isinstance(n, ast.For) for n in ast.walk(g.node)) or "outputs" in txt:
            if g.name != "_matches":
                walker = g
    key0 = _key(f, "structure")
    if walker is None or attrs is None:
        res.unresolved("R-C02g", f"{OPT}:{f.node.lineno}", key0, "graph walker / attribute visitor helpers not recognised", f.qualname)
        return
    wtxt = ast.unparse(walker.node)

    def _calls(fn: FuncInfo, name: str) -> List[ast.Call]:
        return [c for c in ast.walk(fn.node) if isinstance(c, ast.Call) and _last(call_name(c)) == name]
    checks = [
        ("sub-graph outputs", any(isinstance(x, ast.Attribute) and x.attr == "outputs" for x in ast.walk(walker.node)), "values returned by a nested graph (its outputs) are not tested"),
        ("sub-graph node inputs", bool(_calls(walker, "_node_inputs")) or any(isinstance(x, ast.Attribute) and x.attr == "inputs" for x in ast.walk(walker.node)), "inputs of nodes inside a nested graph are not tested"),
        ("recursion into nested nodes", bool(_calls(walker, attrs.name)) and any(any(p is lp for p in parents(c)) for c in _calls(walker, attrs.name) for lp in ast.walk(walker.node) if isinstance(lp, (ast.For, ast.GeneratorExp, ast.comprehension, ast.ListComp))),
         "sub-graphs of nodes inside a nested graph are not visited: a value captured two levels deep (If in If, Loop in If) looks unobserved"),
        ("GRAPH attributes", "as_graph()" in ast.unparse(attrs.node) and bool(_calls(attrs, walker.name)), "single-graph attributes (If branches, Loop body) are not visited"),
        ("GRAPHS attributes", "as_graphs()" in ast.unparse(attrs.node), "graph-list attributes are not visited"),
        ("top-level nodes", any(_last(call_name(c)) == attrs.name for r in walk_no_nested(f.node) if isinstance(r, ast.Return) and r.value is not None for c in ast.walk(r.value) if isinstance(c, ast.Call)), "the predicate does not visit the attributes of the given nodes"),
    ]
    for name, ok, why in checks:
        key = _key(f, f"covers::{name}")
        if ok:
            res.ok("R-C02g", f"{OPT}:{walker.node.lineno}", key, "", f.qualname)
        else:
            res.violation("R-C02g", f"{OPT}:{walker.node.lineno}", key, f"_nested_graph_references_value: {why}; every rewrite guard that relies on it then folds across an observed value", f.qualname)
    # every path through the walker's node loop tests inputs AND recurses (not an early `any(...)` over inputs only)
    g = m.funcs.get("_value_is_graph_output")
    key = f"{OPT}::_value_is_graph_output::all-outputs"
    if g is None:
        raise AnalysisError("_value_is_graph_output no longer exists")
    loops = [n for n in walk_no_nested(g.node) if isinstance(n, ast.For) and any(isinstance(x, ast.Attribute) and x.attr == "outputs" for x in ast.walk(n.iter))]
    rets_true = [r for lp in loops for r in ast.walk(lp) if isinstance(r, ast.Return) and isinstance(r.value, ast.Constant) and r.value.value is True]
    ident = any(isinstance(c, ast.Compare) and isinstance(c.ops[0], ast.Is) for lp in loops for c in ast.walk(lp))
    byname = any(isinstance(c, ast.Compare) and isinstance(c.ops[0], ast.Eq) for lp in loops for c in ast.walk(lp))
    if loops and rets_true and ident and byname:
        res.ok("R-C02g", f"{OPT}:{g.node.lineno}", key, "every graph output is compared by identity and by name", g.qualname)
    else:
        res.violation("R-C02g", f"{OPT}:{g.node.lineno}", key, "_value_is_graph_output no longer compares the value with every graph output by identity and by name", g.qualname)


# ---------------------------------------------------------------------------------------------- R-C02h
def rule_h(res: Results, idx: Index, m: Module, tier: str = "quick") -> None:
    """Semantic helpers the preconditions rely on, decided on their whole (small) finite domain by evaluating
    their expression trees: _is_inverse_perm(p1, p2) must hold exactly when Transpose(Transpose(x, p1), p2) == x."""
    import itertools
    from ..symeval import EvalRaise, Evaluator, Unsupported
    res.rule("R-C02h", "_is_inverse_perm accepts a pair of permutations only if their composition is the identity (all pairs up to rank 4, plus length mismatches)", floor=1)
    f = m.funcs.get("_is_inverse_perm")
    if f is None:
        raise AnalysisError("_is_inverse_perm no longer exists")
    ev = Evaluator(idx, {})
    key = _key(f, "semantics")
    n = 0
    try:
        for r in range(1, 5 if tier != "thorough" else 6):
            perms = [list(p) for p in itertools.permutations(range(r))]
            for p1 in perms:
                for p2 in perms:
                    n += 1
                    got = bool(ev.call(f, [list(p1), list(p2)]))
                    # y = transpose(x, p1): y.shape[i] = x.shape[p1[i]];  z = transpose(y, p2): z axis i = x axis p1[p2[i]]
                    want = all(p1[p2[i]] == i for i in range(r))
                    if got and not want:
                        res.violation("R-C02h", f"{OPT}:{f.node.lineno}", key, f"_is_inverse_perm({p1}, {p2}) is True but Transpose(perm={p2}) after Transpose(perm={p1}) is not the identity", f.qualname)
                        return
        for p1, p2 in (([0, 1], [0, 1, 2]), ([1, 0, 2], [1, 0])):
            n += 1
            try:
                if ev.call(f, [p1, p2]):
                    res.violation("R-C02h", f"{OPT}:{f.node.lineno}", key, f"_is_inverse_perm({p1}, {p2}) accepts permutations of different rank", f.qualname)
                    return
            except EvalRaise:
                pass
    except Unsupported as e:
        res.unresolved("R-C02h", f"{OPT}:{f.node.lineno}", key, f"outside the evaluator's subset: {e}", f.qualname)
        return
    except EvalRaise as e:
        res.unresolved("R-C02h", f"{OPT}:{f.node.lineno}", key, f"raises {e.name} on a valid permutation pair", f.qualname)
        return
    res.ok("R-C02h", f"{OPT}:{f.node.lineno}", key, f"sound on all {n} permutation pairs of rank 1..{4 if tier != 'thorough' else 5}", f.qualname)


# ---------------------------------------------------------------------------------------------- R-C02l
def rule_l(res: Results, idx: Index, m: Module) -> None:
    """Node predicates that classify a node by `op_type in <operator table>` must also require the standard (empty)
    domain: the call node of an @onnx_function lives in a custom domain and may carry any op_type ("Abs", "Relu" …)
    while its body is not point-wise at all."""
    from .c08 import _op_sets
    res.rule("R-C02l", "operator-table predicates of the optimizer also require the standard ONNX domain", floor=2)
    sets = _op_sets(m)
    n = 0
    for fi in m.funcs.values():
        if fi.parent_func is not None:
            continue
        a = fi.node.args  # type: ignore[attr-defined]
        if len(a.args) != 1 or not fi.name.startswith("_is_"):
            continue
        tests = [c for c in walk_no_nested(fi.node) if isinstance(c, ast.Compare) and any(isinstance(o, (ast.In, ast.NotIn)) for o in c.ops) and "op_type" in src(c.left, 60)
                 and isinstance(c.comparators[0], ast.Name) and c.comparators[0].id in sets]
        if not tests:
            continue
        n += 1
        key = f"{OPT}::{fi.qualname}::domain"
        site = f"{OPT}:{fi.node.lineno}"
        dom = any((isinstance(x, ast.Attribute) and x.attr == "domain") or (isinstance(x, ast.Constant) and x.value == "domain") or (isinstance(x, ast.Call) and _last(call_name(x)) == "_is_standard_onnx_node") for x in walk_no_nested(fi.node))
        if dom:
            res.ok("R-C02l", site, key, "tests the node's domain together with the operator table", fi.qualname)
        else:
            res.violation("R-C02l", site, key, f"`{fi.name}` accepts a node by `op_type in {tests[0].comparators[0].id}` without looking at its domain: an @onnx_function call node named like a point-wise operator is folded through as if it were that operator", fi.qualname)
    res.analysed["operator_table_predicates"] = n


# ---------------------------------------------------------------------------------------------- R-C02m
def rule_m(res: Results, idx: Index, m: Module) -> None:
    """A FORWARD chain walk visits the consumers of a value.  `_is_first_input_passthrough(n)` only says that `n` commutes
    with a layout change of its FIRST operand; a consumer that reads the walked value at another position (CastLike: the
    second operand supplies a type only) is not part of the data path.  Where the node tested by the predicate comes from
    `_consumer_nodes(…)`, the accepting branch must also require `_first_input(n) is <walked value>` (or
    `_node_inputs(n)[0] is …`).  Backward walks (`_producer_node` / `_first_input`) follow the first input by construction."""
    res.rule("R-C02m", "forward chain walks accept a consumer only when the walked value is its first input", floor=1)
    n = 0
    for fi in m.funcs.values():
        du = defuse(fi.node)
        for c in walk_no_nested(fi.node):
            if not (isinstance(c, ast.Call) and _last(call_name(c)) == "_is_first_input_passthrough" and c.args and isinstance(c.args[0], ast.Name)):
                continue
            node_name = c.args[0].id
            clo = du.closure({node_name}) | {node_name}
            forward = any(isinstance(x, ast.Call) and _last(call_name(x)) == "_consumer_nodes" for nm in clo for v in du.values(nm) for x in ast.walk(v))
            backward = any(isinstance(x, ast.Call) and _last(call_name(x)) in ("_producer_node",) for v in du.values(node_name) for x in ast.walk(v))
            key = _key(fi, f"forward-walk::{node_name}@{_nth_call(fi, c)}")
            site = f"{OPT}:{c.lineno}"
            if not forward or backward and not forward:
                continue
            n += 1
            # the test expression the call sits in
            test = c
            while getattr(test, "parent", None) is not None and not isinstance(getattr(test, "parent"), (ast.If, ast.While, ast.IfExp)):
                test = getattr(test, "parent")
            holder = getattr(test, "parent", None)
            texpr = holder.test if isinstance(holder, (ast.If, ast.While, ast.IfExp)) else test
            conds = [texpr] + [e for e, want in path_conditions(c) if want]
            ok = False
            for e in conds:
                for cmp_ in ast.walk(e):
                    if isinstance(cmp_, ast.Compare) and len(cmp_.ops) == 1 and isinstance(cmp_.ops[0], (ast.Is, ast.Eq)):
                        sides = [cmp_.left, cmp_.comparators[0]]
                        for s_ in sides:
                            if isinstance(s_, ast.Call) and _last(call_name(s_)) == "_first_input" and s_.args and isinstance(s_.args[0], ast.Name) and s_.args[0].id == node_name:
                                ok = True
                            if isinstance(s_, ast.Subscript) and isinstance(s_.value, ast.Call) and _last(call_name(s_.value)) == "_node_inputs" and isinstance(s_.slice, ast.Constant) and s_.slice.value == 0 \
                                    and s_.value.args and isinstance(s_.value.args[0], ast.Name) and s_.value.args[0].id == node_name:
                                ok = True
            if ok:
                res.ok("R-C02m", site, key, f"`{node_name}` is accepted only when its first input is the walked value", fi.qualname)
            else:
                res.violation("R-C02m", site, key, f"`{src(texpr, 70)}` accepts any consumer of the walked value that is a first-input passthrough operator, whichever input position the value has: "
                              "`Transpose(x) -> CastLike(a, ·) -> Transpose` is folded to `CastLike(a, x)`, changing the result's layout and values", fi.qualname)
    res.analysed["forward_chain_walks"] = n   # the rule's floor (1) reports a vanished walk as an analysis error at the end of the run


def _nth_call(fi: FuncInfo, c: ast.AST) -> int:
    calls = [x for x in walk_no_nested(fi.node) if isinstance(x, ast.Call) and _last(call_name(x)) == "_is_first_input_passthrough"]
    return next(i for i, x in enumerate(calls) if x is c)


# ---------------------------------------------------------------------------------------------- R-C02n
def rule_n(res: Results, idx: Index, m: Module) -> None:
    """The call node of an @onnx_function carries the function's name as op_type and lives in a custom domain; users name
    their blocks freely (`Sigmoid`, `Dropout`, `Add` …).  A rewrite that selects a node by `n.op_type == "<Op>"` alone
    treats such a call node as the standard operator (a block named `Add` that multiplies matrices had its surrounding
    Transposes folded away).  Every test of a node against a literal operator name in the optimizer must be
    domain-qualified: `_is_standard_onnx_node(n, "<Op>")`, or a comparison accompanied by a domain test on the same node."""
    res.rule("R-C02n", "rewrites match standard operators by name AND default domain", floor=30)
    helper = m.funcs.get("_is_standard_onnx_node")
    if helper is None or not any(isinstance(x, ast.Constant) and x.value == "domain" for x in ast.walk(helper.node)) and not any(isinstance(x, ast.Attribute) and x.attr == "domain" for x in ast.walk(helper.node)):
        raise AnalysisError("_is_standard_onnx_node no longer exists or no longer tests the node's domain")
    n = 0
    for fi in m.funcs.values():
        if fi is helper:
            continue
        k = 0
        for c in walk_no_nested(fi.node):
            if isinstance(c, ast.Call) and _last(call_name(c)) == "_is_standard_onnx_node" and len(c.args) == 2 and isinstance(c.args[1], ast.Constant):
                n += 1
                k += 1
                res.ok("R-C02n", f"{OPT}:{c.lineno}", _key(fi, f"op-name-test::{src(c.args[0], 20)}::{c.args[1].value}#{k}"), "name and default domain are tested together", fi.qualname)
                continue
            if not (isinstance(c, ast.Compare) and isinstance(c.left, ast.Attribute) and c.left.attr == "op_type" and isinstance(c.left.value, ast.Name) and len(c.ops) == 1
                    and isinstance(c.comparators[0], ast.Constant) and isinstance(c.comparators[0].value, str)):
                continue
            nm, op = c.left.value.id, c.comparators[0].value
            n += 1
            k += 1
            key = _key(fi, f"op-name-test::{nm}::{op}#{k}")
            site = f"{OPT}:{c.lineno}"
            dom = [x for x in walk_no_nested(fi.node) if (isinstance(x, ast.Attribute) and x.attr == "domain" and isinstance(x.value, ast.Name) and x.value.id == nm)
                   or (isinstance(x, ast.Call) and _last(call_name(x)) == "getattr" and len(x.args) >= 2 and isinstance(x.args[0], ast.Name) and x.args[0].id == nm and isinstance(x.args[1], ast.Constant) and x.args[1].value == "domain")]
            if dom:
                res.ok("R-C02n", site, key, f"`{nm}` is also tested for the default domain", fi.qualname)
            else:
                res.violation("R-C02n", site, key, f"`{src(c, 50)}` selects the node by name only: the call node of a user's @onnx_function named `{op}` (custom domain) is rewritten as if it were ONNX {op}", fi.qualname)
    res.analysed["op_name_tests"] = n


# ---------------------------------------------------------------------------------------------- R-C02o
def _has_rank_test(nodes) -> Optional[ast.AST]:
    for st in nodes:
        for c in ast.walk(st):
            if isinstance(c, ast.Compare) and any(isinstance(o, (ast.Gt, ast.GtE, ast.Lt, ast.LtE)) for o in c.ops) and any((isinstance(x, ast.Call) and (call_name(x) or "") == "len") or (isinstance(x, ast.Attribute) and x.attr in ("ndim", "rank"))
                                                  or (isinstance(x, ast.Name) and "rank" in x.id.lower()) for x in ast.walk(c)):
                return c
    return None


def rule_o(res: Results, idx: Index, m: Module) -> None:
    """Chain walks step through broadcasting operators (Max / Min / Clip …) when the side operands are size-1 constants.
    `_is_scalar_const_value` is true for a size-1 constant of ANY rank, and a size-1 constant that out-ranks the walked
    operand still broadcasts: Reshape-Max-Reshape folded to Max(x:(6,), c:(1,1,1)) returns (1,1,6).  The predicate that
    admits such operators has to bound the constants' rank by the walked operand's, and the reshape-pair fold — whose
    source has another rank than the operand inside the chain — has to bound it by the source's rank as well."""
    res.rule("R-C02o", "chain walks admit broadcasting operators only with side constants whose rank is bounded by the walked operand's (and, for reshape pairs, the source's) rank", floor=2)
    f = m.funcs.get("_is_first_input_passthrough")
    if f is None:
        raise AnalysisError("_is_first_input_passthrough not found")
    key = f"{OPT}::_is_first_input_passthrough::side-constant-rank"
    branch = next((st for st in walk_no_nested(f.node) if isinstance(st, ast.If) and "BINARY" in src(st.test, 80).upper()), None)
    if branch is None:
        res.unresolved("R-C02o", f.site, key, "the branch for broadcasting operators was not found", f.qualname)
    else:
        uses_size1 = any(isinstance(c, ast.Call) and (call_name(c) or "") == "_is_scalar_const_value" for c in ast.walk(branch))
        direct = [r for r in ast.walk(branch) if isinstance(r, ast.Return) and r.value is not None and any(isinstance(c, ast.Call) and (call_name(c) or "") == "_is_scalar_const_value" for c in ast.walk(r.value))]
        rk = _has_rank_test(branch.body)
        if not uses_size1:
            res.unresolved("R-C02o", f"{OPT}:{branch.lineno}", key, "side operands are not tested with _is_scalar_const_value", f.qualname)
        elif direct or rk is None:
            res.violation("R-C02o", f"{OPT}:{(direct[0] if direct else branch).lineno}", key, "broadcasting operators are admitted as soon as every side operand is a size-1 constant, whatever its rank: a (1,1,1) constant next to a "
                          "rank-1 operand changes the result's rank once the surrounding Reshape / Transpose pair is folded away", f.qualname)
        else:
            res.ok("R-C02o", f"{OPT}:{rk.lineno}", key, f"`{src(rk, 60)}` bounds the side constants' rank", f.qualname)
    g = m.funcs.get("remove_redundant_reshape_pairs_ir")
    if g is None:
        raise AnalysisError("remove_redundant_reshape_pairs_ir not found")
    key = f"{OPT}::remove_redundant_reshape_pairs_ir::side-constant-rank-vs-source"
    removes = [c for c in walk_no_nested(g.node) if isinstance(c, ast.Call) and (call_name(c) or "").endswith("graph.remove")]
    walks = [c for c in walk_no_nested(g.node) if isinstance(c, ast.Call) and (call_name(c) or "") == "_is_first_input_passthrough"]
    if not removes or not walks:
        res.unresolved("R-C02o", g.site, key, "fold structure not recognised", g.qualname)
        return
    between = [st for st in walk_no_nested(g.node) if isinstance(st, ast.If) and walks[0].lineno < st.lineno < removes[0].lineno and any(isinstance(x, ast.Continue) for x in ast.walk(st))]
    rk = next((st for st in between if _has_rank_test([st.test]) is not None or any(isinstance(c, ast.Call) and "rank" in (call_name(c) or "").lower() for c in ast.walk(st.test))
               or any(isinstance(x, ast.Name) and "rank" in x.id.lower() for x in ast.walk(st.test))), None)
    if rk is not None:
        res.ok("R-C02o", f"{OPT}:{rk.lineno}", key, f"the fold is skipped when `{src(rk.test, 70)}`", g.qualname)
    else:
        res.violation("R-C02o", f"{OPT}:{removes[0].lineno}", key, "the reshape-pair fold never compares the rank of the chain's constant side operands with the rank of the source it re-routes the chain to: "
                      "x:(6,) -> Reshape[2,3] -> Max(., zeros((1,1,1))) -> Reshape[6] becomes Max(x, c) of shape (1,1,6)", g.qualname)


# ---------------------------------------------------------------------------------------------- R-C02p
def rule_p(res: Results, idx: Index, m: Module) -> None:
    """A node a pass inserts has to stand BEFORE every node that reads its output: graphs are serialised in list order and a
    model whose nodes are not topologically sorted is invalid (the checker rejects it; inside function bodies, where no later
    pass lifts the Constant, ONNX Runtime refuses to load it).  For every `graph.insert_before(anchor, new_node)`: a node X
    that is re-wired to read the new node's output (`X.replace_input_with(i, v)`, `_set_node_inputs(X, [... v ...])`) must be
    the anchor itself, unless the anchor is the first node of the graph; an output that takes over another value's uses
    (`replace_all_uses_with(old, v)`) must be anchored at the producer of `old`."""
    res.rule("R-C02p", "nodes inserted by a pass are anchored before every node re-wired to read their output", floor=3)
    n = 0
    for fi in m.funcs.values():
        du = None
        for c in walk_no_nested(fi.node):
            if not (isinstance(c, ast.Call) and isinstance(c.func, ast.Attribute) and c.func.attr == "insert_before" and len(c.args) == 2):
                continue
            du = du or defuse(fi.node)
            anchor, newn = c.args
            n += 1
            key = f"{OPT}::{fi.qualname}::insert_before::{src(anchor, 30)}#{sum(1 for x in walk_no_nested(fi.node) if isinstance(x, ast.Call) and isinstance(x.func, ast.Attribute) and x.func.attr == 'insert_before' and x.lineno < c.lineno)}"
            site = f"{OPT}:{c.lineno}"
            node_calls = [newn] if isinstance(newn, ast.Call) else [d.value for d in du.defs.get(newn.id, []) if d.value is not None and isinstance(d.value, ast.Call)] if isinstance(newn, ast.Name) else []
            outs: Set[str] = set()
            for nc in node_calls:
                for k in nc.keywords:
                    if k.arg == "outputs":
                        outs |= names_in(k.value)
            if not outs:
                res.unresolved("R-C02p", site, key, "outputs of the inserted node not recognised", fi.qualname)
                continue
            aliases = set(outs)
            for nm, ds in du.defs.items():
                for d in ds:
                    if d.value is not None and isinstance(d.value, ast.Name) and d.value.id in aliases:
                        aliases.add(nm)
            first = isinstance(anchor, ast.Subscript) and isinstance(anchor.slice, ast.Constant) and anchor.slice.value == 0
            bad = None
            n_cons = 0
            for x in walk_no_nested(fi.node):
                if not isinstance(x, ast.Call):
                    continue
                cn = call_name(x) or ""
                if isinstance(x.func, ast.Attribute) and x.func.attr == "replace_input_with" and len(x.args) == 2 and names_in(x.args[1]) & aliases:
                    n_cons += 1
                    if not first and src(x.func.value, 40) != src(anchor, 40):
                        bad = bad or (x, f"`{src(x.func.value, 30)}` is re-wired to read the new value but the node is inserted before `{src(anchor, 30)}`")
                elif cn.endswith("_set_node_inputs") and len(x.args) == 2:
                    lst = (du.closure(names_in(x.args[1])) | names_in(x.args[1]))
                    if lst & aliases:
                        n_cons += 1
                        if not first and src(x.args[0], 40) != src(anchor, 40):
                            bad = bad or (x, f"`{src(x.args[0], 30)}` gets the new value among its inputs but the node is inserted before `{src(anchor, 30)}`")
                elif cn.endswith("replace_all_uses_with") and len(x.args) >= 2 and names_in(x.args[1]) & aliases:
                    n_cons += 1
                    old = x.args[0]
                    old_src = [d.value for nm in names_in(old) for d in du.defs.get(nm, []) if d.value is not None]
                    anchored = any(isinstance(v_, ast.Call) and (call_name(v_) or "").endswith("_node_output") and v_.args and src(v_.args[0], 40) == src(anchor, 40) for v_ in old_src)
                    if not first and not anchored and not any(isinstance(v_, ast.Call) and (call_name(v_) or "").endswith("_node_output") for v_ in old_src):
                        continue
                    if not first and not anchored:
                        bad = bad or (x, f"the new value takes over the uses of `{src(old, 30)}`, which is not the output of the anchor `{src(anchor, 30)}`")
            if bad is not None:
                res.violation("R-C02p", f"{OPT}:{bad[0].lineno}", key, f"{bad[1]}: the inserted node can end up AFTER a node that reads its output — the graph is no longer topologically sorted (invalid model "
                              "whenever a later pass aborts, and always inside function bodies)", fi.qualname)
            elif n_cons == 0:
                res.unresolved("R-C02p", site, key, "no re-wiring of the inserted node's output found in this function", fi.qualname)
            else:
                res.ok("R-C02p", site, key, f"{n_cons} reader(s) of the inserted node's output are the anchor itself" + (" (anchor is the first node)" if first else ""), fi.qualname)
    res.analysed["insert_before_sites"] = n


# ---------------------------------------------------------------------------------------------- R-C02q
def rule_q(res: Results, idx: Index, m: Module) -> None:
    """Every value name of a graph is defined once.  A pass that creates a value has to name it freshly: through a helper that
    looks at the names the graph already uses, or with the name of a value the same rewrite replaces (the old output of the
    node it removes).  A name derived from something that STAYS in the graph (`f"{reducer.name}_axes_optimized"`) repeats when
    the rewrite fires twice on the same node — the lift pass then raises, and the default policy returns a model in which the
    name is defined twice."""
    res.rule("R-C02q", "values created by optimizer passes are named freshly (freshness helper) or take over the name of the value they replace", floor=3)
    fresh_helpers = {fi.name for fi in m.funcs.values() if "fresh" in fi.name.lower() and any(isinstance(x, ast.While) or isinstance(x, ast.For) for x in ast.walk(fi.node))}
    n = 0
    for fi in m.funcs.values():
        du = None
        for c in walk_no_nested(fi.node):
            if not (isinstance(c, ast.Call) and (call_name(c) or "") == "ir.Value"):
                continue
            nm = next((k.value for k in c.keywords if k.arg == "name"), None)
            if nm is None:
                continue
            n += 1
            key = f"{OPT}::{fi.qualname}::value-name#{sum(1 for x in walk_no_nested(fi.node) if isinstance(x, ast.Call) and (call_name(x) or '') == 'ir.Value' and x.lineno < c.lineno)}"
            site = f"{OPT}:{c.lineno}"
            if any(isinstance(x, ast.Call) and (call_name(x) or "") in fresh_helpers for x in ast.walk(nm)):
                res.ok("R-C02q", site, key, f"`{src(nm, 50)}` goes through a freshness helper", fi.qualname)
                continue
            if isinstance(nm, ast.Attribute) and nm.attr == "name" and isinstance(nm.value, ast.Name):
                old = nm.value.id
                replaced = any(isinstance(x, ast.Call) and (call_name(x) or "").endswith("replace_all_uses_with") and x.args and isinstance(x.args[0], ast.Name) and x.args[0].id == old for x in walk_no_nested(fi.node))
                if replaced:
                    res.ok("R-C02q", site, key, f"takes over the name of `{old}`, whose uses the same rewrite re-routes to the new value", fi.qualname)
                    continue
            res.violation("R-C02q", site, key, f"`ir.Value(name={src(nm, 50)}, …)`: the name is neither made fresh against the graph nor taken over from a value this rewrite replaces; when the rewrite fires twice "
                          "(or the user already has a value of that name) the graph defines the name twice", fi.qualname)
    res.analysed["pass_created_values"] = n
    if not fresh_helpers:
        res.unresolved("R-C02q", f"{OPT}:1", f"{OPT}::freshness-helper", "no freshness helper found in the optimizer module", "")
