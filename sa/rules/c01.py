"""C01 — exported model computes the same function (structural necessary conditions only).

R-C01a  parameter consumption: every keyword parameter JAX binds on a primitive (AST table of the
        installed jax) is read by the plugin's lowering (lower() and the package functions reachable from
        it), or is listed as semantically inert / derivable from the avals
R-C01b  plugin-owned primitives: every key a tracing substitute passes to `<prim>.bind(..., k=v)` is read
        by that plugin's lower() (or is consumed by abstract_eval only and listed shape-only)
R-C01c  checked dispatch: every path through lower_equation_with_plugin passes input-binding assertion,
        plugin dispatch and output finalisation, in this order; sub-jaxprs are lowered through
        lower_jaxpr_with_plugins (no private loop over .eqns that calls plugin.lower)
"""
from __future__ import annotations

import ast
from typing import Dict, List, Optional, Set, Tuple

from ..callgraph import get_callgraph
from ..cfg import cfg_of
from ..flow import defuse, names_in
from ..guards import src
from ..index import AnalysisError, ClassInfo, FuncInfo, Index, Module, call_name, dotted, enclosing_stmt, fold_const, is_const, walk_no_nested
from ..report import Results
from ..tables.inert import INERT_PRIM_PARAMS
from ..tables.jax_prims import get_jax_prims

LD = "jax2onnx/converter/lowering_dispatch.py"


def _mentions_params(e: ast.AST) -> bool:
    for n in ast.walk(e):
        if isinstance(n, ast.Name) and (n.id == "params" or n.id.endswith("_params") or n.id.startswith("params_") or n.id == "eqn_params"):
            return True
        if isinstance(n, ast.Attribute) and n.attr == "params":
            return True
        if isinstance(n, ast.Call) and (call_name(n) or "") == "getattr" and len(n.args) >= 2 and isinstance(n.args[1], ast.Constant) and n.args[1].value == "params":
            return True
    return False


def _is_params_expr(e: ast.AST) -> bool:
    """The expression IS the parameter mapping (not something computed from one of its entries)."""
    if isinstance(e, ast.Name):
        return e.id == "params" or e.id.endswith("_params") or e.id.startswith("params_") or e.id == "eqn_params"
    if isinstance(e, ast.Attribute):
        return e.attr == "params"
    if isinstance(e, ast.Call):
        cn = call_name(e) or ""
        if cn == "getattr" and len(e.args) >= 2 and isinstance(e.args[1], ast.Constant) and e.args[1].value == "params":
            return True
        if cn in ("dict", "cast", "MappingProxyType", "copy.copy") and e.args:
            return _is_params_expr(e.args[-1])
        return False
    if isinstance(e, ast.BoolOp):
        return any(_is_params_expr(v) for v in e.values)
    if isinstance(e, ast.IfExp):
        return _is_params_expr(e.body) or _is_params_expr(e.orelse)
    return False


def _is_paramslike(e: ast.AST, du, _depth: int = 0) -> bool:
    if _is_params_expr(e):
        return True
    if isinstance(e, ast.Name) and _depth < 3:
        for v in du.values(e.id):
            if v is not None and (_is_params_expr(v) or (isinstance(v, ast.Name) and _is_paramslike(v, du, _depth + 1))):
                return True
    return False


_READS: Dict[int, Tuple[Set[str], bool]] = {}


def reads_in_function(fi: FuncInfo) -> Tuple[Set[str], bool]:
    """String keys read from params-like objects in one function; escapes=True if the whole mapping leaves."""
    if id(fi.node) in _READS:
        return _READS[id(fi.node)]
    r = _reads_in_function(fi)
    _READS[id(fi.node)] = r
    return r


def _reads_in_function(fi: FuncInfo) -> Tuple[Set[str], bool]:
    du = defuse(fi.node)
    keys: Set[str] = set()
    esc = False
    for n in ast.walk(fi.node):
        if isinstance(n, ast.Subscript) and isinstance(n.slice, ast.Constant) and isinstance(n.slice.value, str) and _is_paramslike(n.value, du):
            keys.add(n.slice.value)
        elif isinstance(n, ast.Call):
            f = n.func
            if isinstance(f, ast.Attribute) and f.attr in ("get", "pop", "setdefault") and n.args and isinstance(n.args[0], ast.Constant) and isinstance(n.args[0].value, str) and _is_paramslike(f.value, du):
                keys.add(n.args[0].value)
            elif isinstance(f, ast.Attribute) and f.attr in ("items", "keys", "values") and _is_paramslike(f.value, du):
                esc = True
            else:
                # helper(params_like, "key", ...) / getattr(params_like, "key")
                strs = [a.value for a in n.args if isinstance(a, ast.Constant) and isinstance(a.value, str)]
                if strs and any(_is_paramslike(a, du) or (isinstance(a, ast.Name) and a.id == "eqn") for a in n.args if not isinstance(a, ast.Constant)):
                    keys.update(strs)
                cn = call_name(n) or ""
                if cn == "dict" and n.args and _is_paramslike(n.args[0], du):
                    # dict(params): a copy; reads through the copy are found via the copy's name (contains 'param' by convention) — otherwise escape
                    st = getattr(n, "parent", None)
                    tgt = None
                    if isinstance(st, ast.Assign) and len(st.targets) == 1 and isinstance(st.targets[0], ast.Name):
                        tgt = st.targets[0].id
                    if tgt is None or "param" not in tgt.lower():
                        esc = True
            for kw in n.keywords:
                if kw.arg is None and _is_paramslike(kw.value, du):
                    esc = True
        elif isinstance(n, ast.Compare) and isinstance(n.left, ast.Constant) and isinstance(n.left.value, str) and any(isinstance(o, (ast.In, ast.NotIn)) for o in n.ops) and _is_paramslike(n.comparators[0], du):
            keys.add(n.left.value)
        elif isinstance(n, (ast.For, ast.comprehension)) and _is_paramslike(n.iter, du):
            esc = True
    return keys, esc


def lowering_reads(idx: Index, cg, lower: FuncInfo, depth: int = 3) -> Tuple[Set[str], bool, int]:
    """Keys read in lower() and in the package functions the equation / its params are handed to."""
    keys: Set[str] = set()
    esc = False
    seen = {id(lower.node): lower}
    frontier = [lower]
    for _ in range(depth + 1):
        nxt = []
        for f in frontier:
            k, e = reads_in_function(f)
            keys |= k
            esc = esc or e
            du = defuse(f.node)
            for nf in f.nested().values():
                if id(nf.node) not in seen:
                    seen[id(nf.node)] = nf
                    nxt.append(nf)
            for cs in cg.callees_of(f):
                g = cs.callee
                if id(g.node) in seen or g.module.rel.endswith(("_post_check_onnx_graph.py",)):
                    continue
                args = list(cs.call.args) + [kw.value for kw in cs.call.keywords]
                if any(_is_paramslike(a, du) or any(isinstance(x, ast.Name) and x.id == "eqn" for x in ast.walk(a)) for a in args):
                    seen[id(g.node)] = g
                    nxt.append(g)
        frontier = nxt
    _LOWER_FUNCS[id(lower.node)] = list(seen.values())
    return keys, esc, len(seen)


_LOWER_FUNCS: Dict[int, List[FuncInfo]] = {}
LOG_CALLS = {"debug", "info", "warning", "print", "log", "_debug", "error"}


def read_usage(funcs: List[FuncInfo], key: str) -> Tuple[int, int, Optional[Tuple[FuncInfo, ast.AST]]]:
    """(read sites of params[key], sites whose value is used, first unused site).  A read is unused when it is an
    expression statement, or is assigned (possibly through int()/bool()/tuple()/cast()) to a local that is never loaded
    again except in logging calls."""
    n_sites = n_used = 0
    first_unused = None
    for fi in funcs:
        du = defuse(fi.node)
        for n in ast.walk(fi.node):
            is_read = False
            if isinstance(n, ast.Subscript) and isinstance(n.slice, ast.Constant) and n.slice.value == key and isinstance(n.ctx, ast.Load) and _is_paramslike(n.value, du):
                is_read = True
            elif isinstance(n, ast.Call) and isinstance(n.func, ast.Attribute) and n.func.attr in ("get", "pop") and n.args and isinstance(n.args[0], ast.Constant) and n.args[0].value == key and _is_paramslike(n.func.value, du):
                is_read = True
            if not is_read:
                continue
            n_sites += 1
            # climb through value-preserving wrappers
            cur: ast.AST = n
            par = getattr(cur, "parent", None)
            while isinstance(par, ast.Call) and (call_name(par) or "").split(".")[-1] in ("int", "bool", "float", "tuple", "list", "cast", "str") and cur in par.args:
                cur, par = par, getattr(par, "parent", None)
            used = True
            if isinstance(par, ast.Expr):
                used = False
            elif isinstance(par, (ast.Assign, ast.AnnAssign)) and getattr(par, "value", None) is cur:
                tgts = par.targets if isinstance(par, ast.Assign) else [par.target]
                names = [t.id for t in tgts if isinstance(t, ast.Name)]
                if names and len(names) == len(tgts):
                    loads = 0
                    for nm in names:
                        for x in ast.walk(fi.node):
                            if isinstance(x, ast.Name) and x.id == nm and isinstance(x.ctx, ast.Load):
                                pp = getattr(x, "parent", None)
                                in_log = False
                                while pp is not None and not isinstance(pp, ast.stmt):
                                    if isinstance(pp, ast.Call) and (call_name(pp) or "").split(".")[-1] in LOG_CALLS:
                                        in_log = True
                                    pp = getattr(pp, "parent", None)
                                if not in_log:
                                    loads += 1
                    used = loads > 0
            if used:
                n_used += 1
            elif first_unused is None:
                first_unused = (fi, n)
    return n_sites, n_used, first_unused


def registered_plugins(idx: Index) -> List[Tuple[ClassInfo, ast.expr]]:
    """(class, jaxpr_primitive expression) for every @register_primitive class."""
    out = []
    for m in idx.product_modules():
        if ".plugins." not in m.name:
            continue
        for c in m.classes.values():
            for d in c.decorators:
                if isinstance(d, ast.Call) and (call_name(d) or "").split(".")[-1] == "register_primitive":
                    for k in d.keywords:
                        if k.arg == "jaxpr_primitive":
                            out.append((c, k.value))
    return out


def run(res: Results, idx: Index, tier: str) -> None:
    res.rule("R-C01a", "every keyword parameter JAX binds on a primitive is read by the plugin's lowering or listed inert/derivable", floor=150)
    res.rule("R-C01b", "every key a substitute passes to <plugin primitive>.bind is read by the plugin's lower() or listed shape-only", floor=100)
    res.rule("R-C01e", "the value of every parameter the lowering reads is used (not read into a dead local)", floor=100)
    res.rule("R-C01c", "lower_equation_with_plugin: inputs asserted bound -> plugin dispatched -> outputs finalised on every path; plugins lower sub-jaxprs through the checked dispatcher", floor=5)
    jp = get_jax_prims()
    res.trusted.append(f"bind() keyword names in the installed jax {jp.version} sources ({len(jp.bind_kw)} primitives, AST scan)")
    res.assumptions += ["numerical correctness of each lowering (operator choice, attribute values, rounding, clamping) is NOT decided",
                        "a parameter counts as read when its name is used as a key on a params-like mapping in lower() or in a package function reachable from it (depth 3); "
                        "whole-mapping escapes (**params, iteration) count as reading everything"]
    cg = get_callgraph(idx)
    plugins = registered_plugins(idx)
    res.analysed["registered_plugins"] = len(plugins)
    if len(plugins) < 200:
        raise AnalysisError(f"only {len(plugins)} @register_primitive classes found (≈600 on the pinned tree)")
    n_jax = 0
    for c, expr in plugins:
        m = c.module
        lower = idx.resolve_method(c, "lower")
        if lower is None:
            continue
        # which jax primitive?
        prim_var = None
        d = dotted(expr)
        if d and d.endswith(".name"):
            base = d[: -len(".name")].split(".")[-1]
            head = d.split(".")[0]
            if base.endswith("_p") and (head in m.imports and m.imports[head].split(".")[0] == "jax"):
                prim_var = base
        else:
            v = fold_const(expr, m.class_env(c))
            if is_const(v) and isinstance(v, str) and v in jp.name_to_var and "." not in v:
                # a plain string naming a jax primitive (only if the plugin does not own a primitive of that name)
                if not any(isinstance(st, (ast.Assign, ast.AnnAssign)) and "_PRIM" in ast.unparse(st).split("=")[0] for st in c.node.body):
                    prim_var = jp.name_to_var[v]
        if prim_var is None:
            continue
        pr = jp.params_of(prim_var)
        if pr is None:
            continue
        n_jax += 1
        lib_keys, whole = pr
        keys, esc, nfun = lowering_reads(idx, cg, lower)
        for k in sorted(lib_keys):
            key = f"{m.rel}::{c.name}::{prim_var}::{k}"
            site = f"{m.rel}:{lower.node.lineno}"
            if k in keys:
                res.ok("R-C01a", site, key, "read by the lowering", lower.qualname)
                ns, nu, bad = read_usage(_LOWER_FUNCS.get(id(lower.node), [lower]), k)
                if ns and nu == 0 and bad is not None:
                    bf, bn = bad
                    res.violation("R-C01e", f"{bf.module.rel}:{bn.lineno}", f"{m.rel}::{c.name}::{prim_var}::{k}::value-used", f"`{src(bn, 40)}` is read but its value is never used (assigned to a local that is not loaded again, or a bare expression): the lowering ignores `{k}` although it looks consumed", bf.qualname)
                elif ns:
                    res.ok("R-C01e", site, f"{m.rel}::{c.name}::{prim_var}::{k}::value-used", f"{nu} of {ns} read sites feed a use", lower.qualname)
            elif esc:
                res.ok("R-C01a", site, key, "the whole params mapping is forwarded / iterated", lower.qualname)
            elif (prim_var, k) in INERT_PRIM_PARAMS or ("*", k) in INERT_PRIM_PARAMS:
                res.ok("R-C01a", site, key, "inert/derivable: " + (INERT_PRIM_PARAMS.get((prim_var, k)) or INERT_PRIM_PARAMS[("*", k)]), lower.qualname)
            else:
                res.violation("R-C01a", site, key, f"jax binds `{k}` on {prim_var} but {c.name}.lower() (and the {nfun} package functions reachable from it) never reads it: "
                              "two programs that differ only in this parameter export to the same model", lower.qualname)
    res.analysed["plugins_for_jax_primitives"] = n_jax

    _rule_b(res, idx, cg)
    _rule_c(res, idx, cg)
    from .c01_roles import run_axis_role_params, run_irfft_length_conservation, run_mixed_dtype_operands, run_pattern_shape_checks, run_promotion_overrides, run_roles
    run_roles(res, idx, plugins)
    run_pattern_shape_checks(res, idx)
    run_mixed_dtype_operands(res, idx, plugins)
    run_promotion_overrides(res, idx)
    run_axis_role_params(res, idx)
    run_irfft_length_conservation(res, idx)
    run_priority_cascades(res, idx)
    run_structured_param_fields(res, idx)
    run_static_start_clamp(res, idx)
    run_producer_op_tests(res, idx)
    run_exact_constant_matches(res, idx)
    from .c01_roles import run_operand_role_separation
    run_operand_role_separation(res, idx)
    from .c01_resize import run_resize_nearest
    run_resize_nearest(res, idx)
    from .c01_windows import run_dynamic_window_starts
    run_dynamic_window_starts(res, idx)
    _rule_i(res, idx, tier)
    if not getattr(res, "_nested_xref", False):
        # dimension arithmetic that enters the graph as values (reshape targets, slice limits) is served from LowerDimExpr's memo
        # tables: a key that forgets the operation returns another operation's node (C04 R-C04h)
        from . import c04
        res.rule("R-C01o", "memoised dimension-expression nodes are keyed by everything the node depends on (C04 R-C04h)", floor=3)
        sub4 = Results("C04", tier)
        setattr(sub4, "_nested_xref", True)
        c04.rule_h(sub4, idx)
        for inst in sub4.instances:
            if inst.rule == "R-C04h":
                res.add("R-C01o", inst.status, inst.site, f"R-C04h::{inst.key}", f"[C04 R-C04h] {inst.detail}", inst.func)


def _rule_i(res: Results, idx: Index, tier: str) -> None:
    """Two @onnx_function call sites may share one function body only when the dedup key separates everything the
    body's values depend on (C07 R-C07a: input signature, every static argument's content, callee identity).  A key
    that merges two different static arguments bakes the first value into both call sites: the model computes another
    function.  The same instances are decided here."""
    if getattr(res, "_nested_xref", False):
        return
    res.rule("R-C01i", "function bodies are shared only between call sites the dedup key proves equal (C07 R-C07a)", floor=8)
    from . import c07
    sub = Results("C07", tier)
    setattr(sub, "_nested_xref", True)
    c07.run(sub, idx, tier)
    for inst in sub.instances:
        if inst.rule == "R-C07a":
            res.add("R-C01i", inst.status, inst.site, f"R-C07a::{inst.key}", f"[C07 R-C07a] {inst.detail}", inst.func)


def _rule_b(res: Results, idx: Index, cg) -> None:
    from ..tables.inert import SHAPE_ONLY_BIND_KEYS
    for m in idx.product_modules():
        if ".plugins." not in m.name or ".plugins.examples" in m.name:
            continue
        for c in m.classes.values():
            lower = c.methods.get("lower") or idx.resolve_method(c, "lower")
            if lower is None:
                continue
            binds: Dict[str, ast.Call] = {}
            for fi in m.funcs.values():
                if fi.cls is not c:
                    continue
                for n in walk_no_nested(fi.node):
                    if isinstance(n, ast.Call) and isinstance(n.func, ast.Attribute) and n.func.attr == "bind":
                        recv = dotted(n.func.value) or ""
                        if recv.endswith("._PRIM") and recv.split(".")[0] in ("cls", "self", c.name):
                            for k in n.keywords:
                                if k.arg is not None:
                                    binds.setdefault(k.arg, n)
            if not binds:
                continue
            keys, esc, nfun = lowering_reads(idx, cg, lower)
            ae = idx.resolve_method(c, "abstract_eval")
            ae_names: Set[str] = set()
            if ae is not None:
                a = ae.node.args  # type: ignore[attr-defined]
                ae_names = {x.arg for x in a.posonlyargs + a.args + a.kwonlyargs}
                # a parameter abstract_eval actually uses
                used = {x.id for x in ast.walk(ae.node) if isinstance(x, ast.Name) and isinstance(x.ctx, ast.Load)}
                ae_names &= used
            for k, call in sorted(binds.items()):
                key = f"{m.rel}::{c.name}::bind::{k}"
                site = f"{m.rel}:{call.lineno}"
                if k in keys or esc:
                    res.ok("R-C01b", site, key, "read by lower()", lower.qualname)
                elif k in SHAPE_ONLY_BIND_KEYS or ("*", k) in INERT_PRIM_PARAMS_STAR():
                    res.ok("R-C01b", site, key, "shape/dtype-only or inert key: " + (SHAPE_ONLY_BIND_KEYS.get(k) or "inert"), lower.qualname)
                elif k in ae_names:
                    res.unresolved("R-C01b", site, key, f"`{k}` is consumed by abstract_eval only; lower() derives its effect from the avals or ignores it (not decidable statically)", lower.qualname)
                else:
                    res.violation("R-C01b", site, key, f"{c.name}: the substitute binds `{k}` but neither lower() nor abstract_eval reads it: the argument is silently dropped", lower.qualname)


def INERT_PRIM_PARAMS_STAR() -> Set[Tuple[str, str]]:
    return {k for k in INERT_PRIM_PARAMS if k[0] == "*"}


def _rule_c(res: Results, idx: Index, cg) -> None:
    f = idx.func(LD, "lower_equation_with_plugin")
    g = cfg_of(f.node)
    stages = ["assert_eqn_inputs_bound", "dispatch_plugin_lowering", "finalize_eqn_lowering_outputs"]
    stage_stmts: Dict[str, List[ast.AST]] = {s: [] for s in stages}
    for n in walk_no_nested(f.node):
        if isinstance(n, ast.Call):
            last = (call_name(n) or "").split(".")[-1]
            if last in stage_stmts:
                st = n
                while st is not None and not isinstance(st, ast.stmt):
                    st = getattr(st, "parent", None)
                stage_stmts[last].append(st)
    for s in stages:
        key = f"{LD}::lower_equation_with_plugin::{s}"
        if not stage_stmts[s]:
            res.violation("R-C01c", f"{LD}:{f.node.lineno}", key, f"lower_equation_with_plugin no longer calls {s}()", f.qualname)
            continue
        via = [n for st in stage_stmts[s] for n in g.nodes_of(st)]
        if g.paths_to_exit_avoiding(via):
            res.violation("R-C01c", f"{LD}:{stage_stmts[s][0].lineno}", key, f"some path through lower_equation_with_plugin returns normally without passing {s}()", f.qualname)
        else:
            res.ok("R-C01c", f"{LD}:{stage_stmts[s][0].lineno}", key, "on every path to a normal return", f.qualname)
    # order
    for a, b in zip(stages, stages[1:]):
        if stage_stmts[a] and stage_stmts[b]:
            key = f"{LD}::lower_equation_with_plugin::{a}<{b}"
            if all(any(g.dominates(sa_, sb_) for sa_ in stage_stmts[a]) for sb_ in stage_stmts[b]):
                res.ok("R-C01c", f"{LD}:{stage_stmts[b][0].lineno}", key, f"{a}() dominates {b}()", f.qualname)
            else:
                res.violation("R-C01c", f"{LD}:{stage_stmts[b][0].lineno}", key, f"{b}() can run without {a}() having run first", f.qualname)
    # the jaxpr walker calls the checked function for every equation
    walker = idx.func(LD, "lower_jaxpr_with_plugins")
    calls = [n for n in walk_no_nested(walker.node) if isinstance(n, ast.Call) and (call_name(n) or "").split(".")[-1] == "lower_equation_with_plugin"]
    key = f"{LD}::lower_jaxpr_with_plugins::per-equation"
    in_loop = [c for c in calls if any(isinstance(p, ast.For) for p in _parents(c))]
    if in_loop:
        res.ok("R-C01c", f"{LD}:{in_loop[0].lineno}", key, "every equation goes through lower_equation_with_plugin", walker.qualname)
    else:
        res.violation("R-C01c", f"{LD}:{walker.node.lineno}", key, "lower_jaxpr_with_plugins does not call lower_equation_with_plugin inside its equation loop", walker.qualname)
    # plugins: no private dispatch  (a loop over `.eqns` whose body calls `<x>.lower(`)
    n_loops = 0
    for m in idx.product_modules():
        if ".plugins." not in m.name or m.rel.endswith("plugin_system.py"):
            continue
        for fi in m.funcs.values():
            for n in walk_no_nested(fi.node):
                if isinstance(n, ast.For) and any(isinstance(x, ast.Attribute) and x.attr == "eqns" for x in ast.walk(n.iter)):
                    n_loops += 1
                    priv = [c for st in n.body for c in ast.walk(st) if isinstance(c, ast.Call) and isinstance(c.func, ast.Attribute) and c.func.attr == "lower" and "plugin" in (dotted(c.func.value) or "").lower()]
                    key = f"{m.rel}::{fi.qualname}::eqn-loop"
                    if priv:
                        res.violation("R-C01c", f"{m.rel}:{priv[0].lineno}", key, "private equation loop calls plugin.lower() directly, bypassing the bound-input / bound-output assertions of lower_equation_with_plugin", fi.qualname)
                    else:
                        res.ok("R-C01c", f"{m.rel}:{n.lineno}", key, "equation loop does not dispatch plugins itself", fi.qualname)
    res.analysed["plugin_equation_loops"] = n_loops


def _parents(n: ast.AST):
    cur = getattr(n, "parent", None)
    while cur is not None:
        yield cur
        cur = getattr(cur, "parent", None)


# ---------------------------------------------------------------------------------------------- R-C01l
# lowering function -> which of several simultaneously true conditions decides (reference: the library's documentation)
PRIORITY_FOLDS = {
    ("jax2onnx/plugins/jax/numpy/select.py", "JnpSelectPlugin.lower"): ("first", "jnp.select: 'the first condition that is true decides'"),
}


def run_priority_cascades(res: Results, idx: Index) -> None:
    """A conditional cascade `acc = Where(c_k, v_k, acc)` built in a loop makes the LAST iterated condition the outermost
    one, and the outermost true condition decides.  For a first-match operation the loop therefore has to run over the
    conditions in reverse (`reversed(...)` / `[::-1]`); a forward loop is the same nodes, shapes and dtypes with
    last-match semantics — wrong exactly where two conditions overlap."""
    res.rule("R-C01l", "conditional cascades folded in a loop iterate in the direction that gives the operation's documented priority among overlapping conditions", floor=1)
    n = 0
    for (rel, qn), (want, why) in PRIORITY_FOLDS.items():
        f = idx.find_func(rel, qn)
        if f is None:
            raise AnalysisError(f"{rel}::{qn} not found (R-C01l table is stale)")
        key = f"{rel}::{qn}::cascade-direction"
        found = False
        for lp in walk_no_nested(f.node):
            if not isinstance(lp, ast.For):
                continue
            for st in ast.walk(lp):
                if not (isinstance(st, ast.Assign) and len(st.targets) == 1 and isinstance(st.targets[0], ast.Name)):
                    continue
                v = st.value
                while isinstance(v, ast.Call) and (call_name(v) or "") in ("cast", "_as_value", "typing.cast") and v.args:
                    v = v.args[-1]
                if not (isinstance(v, ast.Call) and isinstance(v.func, ast.Attribute) and v.func.attr == "Where" and len(v.args) >= 3 and isinstance(v.args[2], ast.Name)):
                    continue
                tgt, acc = st.targets[0].id, v.args[2].id
                # acc is loop-carried from the Where result: acc is tgt, or `acc = tgt` inside the loop
                carried = acc == tgt or any(isinstance(c, ast.Assign) and len(c.targets) == 1 and isinstance(c.targets[0], ast.Name) and c.targets[0].id == acc
                                            and isinstance(c.value, ast.Name) and c.value.id == tgt for c in ast.walk(lp))
                if not carried:
                    continue
                found = True
                n += 1
                it = lp.iter
                rev = (isinstance(it, ast.Call) and (call_name(it) or "") == "reversed") or (
                    isinstance(it, ast.Subscript) and isinstance(it.slice, ast.Slice) and isinstance(it.slice.step, ast.UnaryOp) and isinstance(it.slice.step.op, ast.USub))
                fwd = not rev and not any(isinstance(x, ast.Call) and (call_name(x) or "") == "reversed" for x in ast.walk(it)) and not any(
                    isinstance(x, ast.Slice) and x.step is not None for x in ast.walk(it)) and not (isinstance(it, ast.Call) and (call_name(it) or "") == "range" and len(it.args) == 3)
                if isinstance(it, ast.Name):
                    fwd = rev = False
                got = "first" if rev else ("last" if fwd else None)
                site = f"{rel}:{lp.lineno}"
                if got is None:
                    res.unresolved("R-C01l", site, key, f"iteration order of `{src(it, 60)}` not recognised", f.qualname)
                elif got == want:
                    res.ok("R-C01l", site, key, f"cascade over `{src(it, 50)}`: the {got} true condition decides ({why})", f.qualname)
                else:
                    res.violation("R-C01l", site, key, f"the cascade `{tgt} = Where(c, v, {acc})` is folded over `{src(it, 60)}`, which makes the {got} true condition decide; {why}: wherever two conditions "
                                  f"are true together the exported model returns a different choice than JAX", f.qualname)
        if not found:
            res.unresolved("R-C01l", f"{rel}:{f.node.lineno}", key, "no loop-carried `acc = Where(c, v, acc)` fold found in the lowering", f.qualname)
            n += 1
    res.analysed["priority_cascades"] = n


# ---------------------------------------------------------------------------------------------- R-C01m
# structured primitive parameter -> (attribute of jax.lax holding the namedtuple, modules that lower primitives carrying it)
STRUCT_PARAM_OWNERS = {
    "ScatterDimensionNumbers": ("ScatterDimensionNumbers", ["scatter_utils.py", "scatter.py", "scatter_add.py", "scatter_mul.py", "scatter_min.py", "scatter_max.py", "scatter_sub.py"]),
    "GatherDimensionNumbers": ("GatherDimensionNumbers", ["gather.py", "gather_compile.py", "gather_helpers.py"]),
    "ConvDimensionNumbers": ("ConvDimensionNumbers", ["conv.py"]),
}


def run_structured_param_fields(res: Results, idx: Index) -> None:
    """R-C01a decides that `dimension_numbers` is read; the value is a record whose fields each change what the primitive
    computes.  A lowering that never looks at one of them computes the same model whatever that field says: vmap of
    dynamic_update_slice binds scatter with operand_batching_dims=(0,), the scatter lowering read only the three classic
    fields and wrote every row's window at the first row's offsets.  Every field of the installed JAX's record has to be
    read (attribute or string key) somewhere in the modules that lower the primitives carrying it — to use it or to reject
    it."""
    res.rule("R-C01m", "every field of a structured dimension-numbers parameter is read by the modules that lower its primitives (used or rejected)", floor=10)
    res.trusted.append("field names of jax.lax.{Scatter,Gather,Conv}DimensionNumbers of the installed jax (third-party reference)")
    import jax.lax as _lax
    LAX = "jax2onnx/plugins/jax/lax/"
    n = 0
    for sname, (attr, mods) in STRUCT_PARAM_OWNERS.items():
        rec = getattr(_lax, attr, None)
        fields = getattr(rec, "_fields", None)
        if not fields:
            raise AnalysisError(f"jax.lax.{attr} has no _fields (installed jax changed)")
        read: Dict[str, str] = {}
        for mn in mods:
            m = idx.modules_by_rel.get(LAX + mn) if hasattr(idx, "modules_by_rel") and not callable(getattr(idx, "modules_by_rel")) else None
            if m is None:
                try:
                    m = idx.module(LAX + mn)
                except Exception:
                    m = None
            if m is None:
                raise AnalysisError(f"{LAX + mn} not found (R-C01m owner table is stale)")
            for x in ast.walk(m.tree):
                if isinstance(x, ast.Assign) and len(x.targets) == 1 and isinstance(x.targets[0], ast.Tuple) and len(x.targets[0].elts) == len(fields) and "dimension_numbers" in src(x.value, 60):
                    for f0 in fields:      # positional unpacking of the whole record
                        read.setdefault(f0, f"{m.rel}:{x.lineno}")
                if isinstance(x, ast.Attribute) and x.attr in fields and isinstance(x.ctx, ast.Load):
                    read.setdefault(x.attr, f"{m.rel}:{x.lineno}")
                elif isinstance(x, ast.Constant) and isinstance(x.value, str) and x.value in fields:
                    par = getattr(x, "parent", None)
                    if not isinstance(par, (ast.Expr, ast.JoinedStr)):     # a bare name used as key / in a tuple of keys; not a docstring or message
                        read.setdefault(x.value, f"{m.rel}:{x.lineno}")
        for f_ in fields:
            n += 1
            key = f"{LAX}{mods[0]}::{sname}::{f_}"
            if f_ in read:
                res.ok("R-C01m", read[f_], key, f"{sname}.{f_} is read", "")
            else:
                res.violation("R-C01m", f"{LAX}{mods[0]}:1", key, f"no module that lowers the primitives carrying {sname} ({', '.join(mods)}) ever reads its field `{f_}`: an equation whose {f_} is "
                              "non-trivial (JAX's own batching rules produce them under vmap) is lowered as if the field were empty — a valid model that computes something else", "")
    res.analysed["structured_param_fields"] = n


# ---------------------------------------------------------------------------------------------- R-C01n
def run_static_start_clamp(res: Results, idx: Index) -> None:
    """XLA clamps the start of a gathered / sliced window so that the window fits the operand (clip and promise_in_bounds
    modes); the dynamic lowering does the same with Max / Min nodes.  The constant-start fast path of `lax.gather` turns the
    start into a plain ONNX Slice, which TRUNCATES an out-of-range window instead: the write of the static start has to be
    bounded by the operand extent minus the slice size (a min / max or clip over both) before it is stored."""
    res.rule("R-C01n", "the constant start of a gather window is clamped with operand extent - slice size before it becomes a Slice", floor=1)
    rel = "jax2onnx/plugins/jax/lax/gather_compile.py"
    f = idx.find_func(rel, "lax_gather_to_gir")
    if f is None:
        raise AnalysisError("gather_compile.lax_gather_to_gir not found")
    du = defuse(f.node)
    writes = [st for st in walk_no_nested(f.node) if isinstance(st, ast.Assign) and isinstance(st.targets[0], ast.Subscript) and isinstance(st.targets[0].slice, ast.Constant)
              and st.targets[0].slice.value == "start_offset_value"]
    if not writes:
        res.unresolved("R-C01n", f.site, f"{rel}::lax_gather_to_gir::static-start", "no write of entry['start_offset_value'] found (fast path restructured)", f.qualname)
        return
    for i, st in enumerate(writes):
        key = f"{rel}::lax_gather_to_gir::static-start#{i}"
        clo = du.closure(names_in(st.value)) | names_in(st.value)
        exprs = [st.value] + [d.value for nm in clo for d in du.defs.get(nm, []) if d.value is not None]
        calls = {(call_name(c) or "").split(".")[-1] for e in exprs for c in ast.walk(e) if isinstance(c, ast.Call)}
        bounded = ({"min", "max"} <= calls or "clip" in calls or {"minimum", "maximum"} <= calls) and "operand_shape" in clo and "slice_sizes" in clo
        if bounded:
            res.ok("R-C01n", f"{rel}:{st.lineno}", key, "the stored start derives from min/max over operand_shape and slice_sizes", f.qualname)
        else:
            res.violation("R-C01n", f"{rel}:{st.lineno}", key, f"`{src(st, 70)}` stores the constant start index as it is: for a start beyond operand extent - slice size (mode clip) JAX clamps the window, "
                          "the emitted Slice truncates it — fewer rows than declared and other values", f.qualname)


# ---------------------------------------------------------------------------------------------- R-C01p
from ..guards import path_conditions as _path_conditions


def run_producer_op_tests(res: Results, idx: Index) -> None:
    """A lowering that looks at the PRODUCER of an operand to pick a fused form (`Abs` before a windowed sum -> LpPool) tests an
    IR node's op_type.  The call node of an @onnx_function carries the function's name as op_type in its own domain, and
    users name their blocks freely: a test by name alone treats such a call as the standard operator (same defect class as
    C02 R-C02n in the optimizer).  Every comparison of an IR node's op_type with an operator-name literal inside a plugin's
    lowering must be accompanied by a domain test on the same object."""
    res.rule("R-C01p", "plugin lowerings that branch on a producer's operator name also test its domain", floor=1)
    n = 0
    for m in idx.product_modules():
        if "/plugins/" not in m.rel or ".examples" in m.name or m.rel.endswith("_post_check_onnx_graph.py"):
            continue
        for fi in m.funcs.values():
            if not (fi.name == "lower" or fi.name.startswith("_lower") or fi.name.startswith("lower_")):
                continue
            for c in walk_no_nested(fi.node):
                if not (isinstance(c, ast.Compare) and len(c.ops) == 1 and isinstance(c.ops[0], (ast.Eq, ast.NotEq, ast.In, ast.NotIn))):
                    continue
                left = c.left
                obj = None
                if isinstance(left, ast.Attribute) and left.attr == "op_type":
                    obj = src(left.value, 60)
                elif isinstance(left, ast.Call) and (call_name(left) or "") == "getattr" and len(left.args) >= 2 and isinstance(left.args[1], ast.Constant) and left.args[1].value == "op_type":
                    obj = src(left.args[0], 60)
                neutralised = False
                if obj is None and isinstance(left, ast.Name):
                    # a local that holds the producer's op_type: `producer_op = getattr(producer, "op_type", "")`
                    du_ = defuse(fi.node)
                    for d in du_.defs.get(left.id, []):
                        v_ = d.value
                        while isinstance(v_, ast.Call) and (call_name(v_) or "") in ("str",) and v_.args:
                            v_ = v_.args[0]
                        if isinstance(v_, ast.Attribute) and v_.attr == "op_type":
                            obj = src(v_.value, 60)
                        elif isinstance(v_, ast.Call) and (call_name(v_) or "") == "getattr" and len(v_.args) >= 2 and isinstance(v_.args[1], ast.Constant) and v_.args[1].value == "op_type":
                            obj = src(v_.args[0], 60)
                    if obj is not None:
                        # `if <obj>.domain != "": producer_op = ""` neutralises the name for foreign-domain nodes
                        for st_ in walk_no_nested(fi.node):
                            if isinstance(st_, ast.If) and any(isinstance(x, ast.Constant) and x.value == "domain" or (isinstance(x, ast.Attribute) and x.attr == "domain") for x in ast.walk(st_.test)) \
                                    and obj in src(st_.test, 200) and any(isinstance(b, ast.Assign) and any(isinstance(t, ast.Name) and t.id == left.id for t in b.targets) and isinstance(b.value, ast.Constant) for b in st_.body):
                                neutralised = True
                if obj is None:
                    continue
                lit = [k for k in ast.walk(c.comparators[0]) if isinstance(k, ast.Constant) and isinstance(k.value, str) and k.value[:1].isupper()]
                if not lit:
                    continue
                n += 1
                key = f"{m.rel}::{fi.qualname}::producer-op::{lit[0].value}"
                site = f"{m.rel}:{c.lineno}"
                # a domain test on the same object in the enclosing boolean expression / statement / dominating guards
                st = enclosing_stmt(c)
                scope_nodes = [st] + [e for e, _w in _path_conditions(c)]
                has_dom = any((isinstance(x, ast.Attribute) and x.attr == "domain" and src(x.value, 60) == obj)
                              or (isinstance(x, ast.Call) and (call_name(x) or "") == "getattr" and len(x.args) >= 2 and isinstance(x.args[1], ast.Constant) and x.args[1].value == "domain" and src(x.args[0], 60) == obj)
                              or (isinstance(x, ast.Call) and (call_name(x) or "").endswith("_is_standard_onnx_node"))
                              for sn in scope_nodes for x in ast.walk(sn))
                if neutralised:
                    res.ok("R-C01p", site, key, f"`{src(left, 30)}` is cleared for producers outside the default domain before it is compared", fi.qualname)
                elif has_dom:
                    res.ok("R-C01p", site, key, f"`{src(c, 50)}` is accompanied by a domain test on `{obj}`", fi.qualname)
                else:
                    res.violation("R-C01p", site, key, f"`{src(c, 60)}` selects a lowering by the producer's operator NAME only: the call node of an @onnx_function named `{lit[0].value}` has that op_type in its own domain "
                                  "and is taken for the standard operator", fi.qualname)
    res.analysed["producer_op_tests"] = n


# ---------------------------------------------------------------------------------------------- R-C01q
def run_exact_constant_matches(res: Results, idx: Index) -> None:
    """A lowering that switches to a fused / special form because a constant operand or parameter "is 2" (`x ** 2` summed ->
    ReduceSumSquare, `(a + b) / 2` -> Mean, alpha == 1 -> default attribute, epsilon == 0 -> plain form) computes another
    function for every other constant.  `np.isclose` / `np.allclose` / `math.isclose` accept a neighbourhood of the constant
    (rtol 1e-5: 2.00001 is "2"), so the export of `sum(x ** 2.00001)` is off by 2.3e-4.  Inside plugin lowerings and
    substitutes such matches have to be exact comparisons."""
    res.rule("R-C01q", "lowerings select special forms by exact comparison with a constant, never by isclose / allclose", floor=5)
    n = 0
    for m in idx.product_modules():
        if "/plugins/" not in m.rel or ".examples" in m.name or m.rel.endswith(("_post_check_onnx_graph.py", "test_utils.py")):
            continue
        for fi in m.funcs.values():
            is_lowering = fi.name == "lower" or fi.name.startswith(("_lower", "lower_")) or "patched" in fi.name or fi.name.startswith("_patched")
            for c in walk_no_nested(fi.node):
                if not (isinstance(c, ast.Call) and (call_name(c) or "").split(".")[-1] in ("isclose", "allclose") and len(c.args) >= 2):
                    continue
                if not any(isinstance(a, ast.Constant) and isinstance(a.value, (int, float)) for a in c.args[:2]):
                    continue
                # post-export graph checks of the testcases are not part of the conversion
                if any(isinstance(p_, (ast.FunctionDef,)) and ("check" in p_.name.lower() or "expect" in p_.name.lower() or p_.name.startswith("_assert")) for p_ in [fi.node]):
                    continue
                n += 1
                key = f"{m.rel}::{fi.qualname}::approximate-match::{src(c, 40)}"
                site = f"{m.rel}:{c.lineno}"
                res.violation("R-C01q", site, key, f"`{src(c, 60)}` lets a whole neighbourhood of the constant select this lowering: a value that is only close to it (2.00001) is exported as if it were the constant", fi.qualname)
            # exact comparisons with a numeric literal that gate a lowering: the accepted form (counted so that the rule has instances)
            if is_lowering:
                for c in walk_no_nested(fi.node):
                    if isinstance(c, ast.Compare) and len(c.ops) == 1 and isinstance(c.ops[0], (ast.Eq, ast.NotEq)) and isinstance(c.comparators[0], ast.Constant) and isinstance(c.comparators[0].value, float):
                        n += 1
                        res.ok("R-C01q", f"{m.rel}:{c.lineno}", f"{m.rel}::{fi.qualname}::exact-match::{src(c, 40)}", "exact comparison", fi.qualname)
    res.analysed["constant_match_sites"] = n
