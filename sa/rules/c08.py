"""C08 — static type and shape annotations never contradict run time (structural part).

R-C08a  export post-processing only weakens and skips the interface: in ir_postprocess.py every
        assignment to `.shape` happens only for values whose name is not a graph input/output name, and
        its right-hand side comes from `_unknown_shape_like`, which appends for every dimension either None
        or the normalised *same* dimension (and `_normalize_dim` returns the dimension itself, its int(),
        its SymbolicDim or None — never another constant)
R-C08b  paired metadata writes: an assignment to `value.const_value` of a value not constructed in the
        same function is followed on every path by an assignment to the same value's `.type`
        (double promotion keeps the declared element type in sync with the payload)
Not decided here: whether re-meant nodes are refreshed (R-C08c of the design): the registered propagate
passes re-derive the shapes of most element-wise ops afterwards, so a missing refresh inside one rewrite step
is not statically a wrong final annotation; the observation-guard side is C02 R-C02a.
"""
from __future__ import annotations

import ast
from typing import List, Optional, Set

from ..cfg import cfg_of
from ..flow import defuse, names_in
from ..guards import path_conditions, src
from ..index import AnalysisError, FuncInfo, Index, call_name, dotted, enclosing_stmt, walk_no_nested
from ..report import Results

PP = "jax2onnx/converter/ir_postprocess.py"


def _parents(n: ast.AST):
    cur = getattr(n, "parent", None)
    while cur is not None:
        yield cur
        cur = getattr(cur, "parent", None)


def run(res: Results, idx: Index, tier: str) -> None:
    res.rule("R-C08a", "post-processing never touches interface values and only replaces a dimension by None or by itself", floor=4)
    res.rule("R-C08b", "const_value replacement is followed by the matching type assignment on every path", floor=1)
    res.assumptions += ["truth of the annotations stamped by ~600 plugins and of the optimizer's metadata refresh is not decided"]
    m = idx.module(PP)
    n_shape = 0
    for fi in m.funcs.values():
        du = defuse(fi.node)
        for n in walk_no_nested(fi.node):
            if isinstance(n, ast.Assign) and any(isinstance(t, ast.Attribute) and t.attr == "shape" for t in n.targets):
                n_shape += 1
                tgt = next(t for t in n.targets if isinstance(t, ast.Attribute) and t.attr == "shape")
                key = f"{PP}::{fi.qualname}::shape-write::{src(tgt.value, 30)}"
                site = f"{PP}:{n.lineno}"
                # interface guard: the assignment is never reached, within one loop iteration, from the true edge of a
                # `<name> in <io names>` test (abort-guard in any nesting form)
                guarded = False
                g = cfg_of(fi.node)
                loops = [p for p in _parents(n) if isinstance(p, (ast.For, ast.While))]
                heads = {x for lp in loops[:1] for x in g.nodes_of(lp)}
                for cand in walk_no_nested(fi.node):
                    if not isinstance(cand, ast.If):
                        continue
                    hit = False
                    for c in ast.walk(cand.test):
                        if isinstance(c, ast.Compare) and isinstance(c.ops[0], ast.In) and isinstance(c.comparators[0], ast.Name):
                            coll = c.comparators[0].id
                            if any(isinstance(x, ast.Call) and "io" in (call_name(x) or "").lower() for v in du.values(coll) for x in ast.walk(v)):
                                hit = True
                    if not hit or cand.lineno > n.lineno:
                        continue
                    t_succ = [y for x in g.nodes_of(cand) for y, lab in g.succ[x] if lab == "T"]
                    r = g.reachable(t_succ, removed_nodes=heads)
                    same_iter = not loops or any(p is loops[0] for p in _parents(cand))
                    if same_iter and not any(x in r for x in g.nodes_of(n)):
                        guarded = True
                rhs_ok = any(isinstance(x, ast.Call) and (call_name(x) or "") == "_unknown_shape_like" for nm in (du.closure(names_in(n.value)) | names_in(n.value)) for v in du.values(nm) for x in ast.walk(v)) or (isinstance(n.value, ast.Call) and (call_name(n.value) or "") == "_unknown_shape_like")
                if guarded and rhs_ok:
                    res.ok("R-C08a", site, key, "only for non-interface values, new shape from _unknown_shape_like", fi.qualname)
                else:
                    miss = []
                    if not guarded:
                        miss.append("no dominating `name in io_names -> continue` guard: graph input/output annotations could be rewritten")
                    if not rhs_ok:
                        miss.append(f"new shape `{src(n.value)}` does not come from _unknown_shape_like")
                    res.violation("R-C08a", site, key, "; ".join(miss), fi.qualname)
    if n_shape == 0:
        raise AnalysisError("ir_postprocess.py no longer assigns any .shape (anchor changed)")
    # _unknown_shape_like only weakens
    u = idx.func(PP, "_unknown_shape_like")
    loops = [n for n in walk_no_nested(u.node) if isinstance(n, ast.For)]
    key = f"{PP}::_unknown_shape_like::only-weakens"
    ok = bool(loops)
    detail = ""
    for lp in loops:
        lv = lp.target.id if isinstance(lp.target, ast.Name) else None
        for c in ast.walk(lp):
            if isinstance(c, ast.Call) and isinstance(c.func, ast.Attribute) and c.func.attr == "append" and c.args:
                a = c.args[0]
                same = isinstance(a, ast.Call) and (call_name(a) or "") == "_normalize_dim" and len(a.args) == 1 and isinstance(a.args[0], ast.Name) and a.args[0].id == lv
                same = same or (isinstance(a, ast.Name) and a.id == lv)
                none = isinstance(a, ast.Constant) and a.value is None
                if not (same or none):
                    ok = False
                    detail = f"appends `{src(a)}`"
                if same and not any(isinstance(x, ast.Call) and (call_name(x) or "") == "_dim_is_known" for e, w in path_conditions(c) for x in ast.walk(e) if w):
                    # keeping a dim is always fine; nothing to check
                    pass
    rets = [r for r in walk_no_nested(u.node) if isinstance(r, ast.Return) and r.value is not None and not (isinstance(r.value, ast.Constant) and r.value.value is None)]
    du_u = defuse(u.node)
    for r in rets:
        if not (isinstance(r.value, ast.Call) and (call_name(r.value) or "").endswith("Shape") and du_u.derived_from(r.value, {"new_dims"})):
            ok = False
            detail = f"returns `{src(r.value)}`"
    res.add("R-C08a", "OK" if ok else "VIOLATION", f"{PP}:{u.node.lineno}", key, "every dimension becomes None or stays itself" if ok else f"_unknown_shape_like can introduce a dimension that was not there ({detail})", u.qualname)
    nd = idx.func(PP, "_normalize_dim")
    key = f"{PP}::_normalize_dim::identity-or-none"
    a = nd.node.args  # type: ignore[attr-defined]
    p = a.args[0].arg
    bad = []
    for r in walk_no_nested(nd.node):
        if isinstance(r, ast.Return) and r.value is not None:
            v = r.value
            fine = (isinstance(v, ast.Name) and v.id == p) or (isinstance(v, ast.Constant) and v.value is None) or (
                isinstance(v, ast.Call) and (call_name(v) or "").split(".")[-1] in ("int", "SymbolicDim", "str") and len(v.args) == 1 and names_in(v.args[0]) == {p})
            if not fine:
                bad.append(src(v))
    res.add("R-C08a", "OK" if not bad else "VIOLATION", f"{PP}:{nd.node.lineno}", key, "returns the dimension itself (int / SymbolicDim form) or None" if not bad else f"_normalize_dim returns `{bad[0]}`, not the given dimension", nd.qualname)
    # traversal covers sub-graphs and functions
    pg = idx.func(PP, "_process_graph")
    key = f"{PP}::_process_graph::recurses"
    rec = [c for c in walk_no_nested(pg.node) if isinstance(c, ast.Call) and (call_name(c) or "") == "_process_graph"]
    res.add("R-C08a", "OK" if rec else "UNRESOLVED", f"{PP}:{pg.node.lineno}", key, "control-flow bodies are processed recursively" if rec else "no recursive call found", pg.qualname)

    # ---- R-C08b
    n_cv = 0
    for mod in idx.product_modules():
        if not mod.rel.startswith("jax2onnx/converter/"):
            continue
        for fi in mod.funcs.values():
            du = defuse(fi.node)
            g = None
            for n in walk_no_nested(fi.node):
                if not (isinstance(n, ast.Assign) and any(isinstance(t, ast.Attribute) and t.attr == "const_value" and isinstance(t.value, ast.Name) for t in n.targets)):
                    continue
                obj = next(t.value.id for t in n.targets if isinstance(t, ast.Attribute) and t.attr == "const_value")
                n_cv += 1
                key = f"{mod.rel}::{fi.qualname}::const_value::{obj}"
                site = f"{mod.rel}:{n.lineno}"
                constructed = any(isinstance(v, ast.Call) and (call_name(v) or "") in ("ir.Value", "ir.val") and any(k.arg == "type" for k in v.keywords) for v in du.values(obj))
                if constructed:
                    res.ok("R-C08b", site, key, f"`{obj}` is constructed here with an explicit type", fi.qualname)
                    continue
                g = g or cfg_of(fi.node)
                tys = [a for a in walk_no_nested(fi.node) if isinstance(a, ast.Assign) and any(isinstance(t, ast.Attribute) and t.attr == "type" and isinstance(t.value, ast.Name) and t.value.id == obj for t in a.targets)]
                r = g.reachable(g.nodes_of(n), removed_nodes={x for a in tys for x in g.nodes_of(a)})
                if tys and g.EXIT not in r:
                    res.ok("R-C08b", site, key, f"`{obj}.type` is assigned on every path after the payload is replaced", fi.qualname)
                else:
                    res.violation("R-C08b", site, key, f"`{obj}.const_value` is replaced but `{obj}.type` is not updated on every following path: the declared element type can contradict the constant's payload", fi.qualname)
    res.analysed["const_value_writes"] = n_cv
