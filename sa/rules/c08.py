"""C08 — static type and shape annotations never contradict run time (structural part).

R-C08a  export post-processing only weakens and skips the interface: in ir_postprocess.py every
        assignment to `.shape` happens only for values whose name is not a graph input/output name, and
        its right-hand side comes from `_unknown_shape_like`, which appends for every dimension either None
        or the normalised *same* dimension (and `_normalize_dim` returns the dimension itself, its int(),
        its SymbolicDim or None — never another constant)
R-C08b  paired metadata writes: an assignment to `value.const_value` of a value not constructed in the
        same function is followed on every path by an assignment to the same value's `.type`
        (double promotion keeps the declared element type in sync with the payload)
R-C08c  refresh order: a loop that re-derives node annotations from the nodes' *current inputs*
        (`_refresh_elementwise_output_shape`, `_copy_shape_dtype`, `_copy_shape_only` applied to the loop
        variable) must visit producers before consumers.  The iterated collection is classified by the
        provenance of its elements: GRAPH (list(graph) / the `nodes` sequence, possibly filtered), FORWARD
        (a list appended while following `_consumer_nodes`, or the reversal of a BACKWARD list), BACKWARD
        (appended while following `_producer_node` / `_first_input`), UNORDERED (a set).  BACKWARD and
        UNORDERED are violations: a consumer refreshed first copies its producer's stale annotation.
R-C08d  dtype refresh only for dtype-preserving operators: a call `_copy_shape_dtype(<node output>, <node input>)` in the
        optimizer stamps the input's element type on the output.  The operators that can reach it (the op-name sets
        that gate the callers, restricted / reduced by `op_type in {...}` tests on the path) must all have, in the
        ONNX schema, the same type variable for output 0 and input 0; Cast / CastLike (and any comparison) must take
        the shape-only branch
R-C08e  comparison keys keep dimensions distinguishable: a function whose results are compared for (in)equality to
        decide whether an annotation is already up to date (`_shape_dims_key(a) == _shape_dims_key(b)`,
        `_dim_token(x) != _dim_token(y)`) is evaluated on abstract dimensions (integers, named symbolic dims, an
        anonymous dim): two different symbols, two different integers, and an integer vs a symbol must get
        different keys — otherwise a stale annotation with swapped symbols is "equal" and never overwritten
R-C08f  a refresh that copied ONE operand's shape onto the output of a multi-operand (broadcasting) node is only
        final when the broadcast merge of all operand shapes succeeded: in `_refresh_elementwise_output_shape` every
        path from the operand-shape copy to an exit must assign the output's `.shape` again (merged shape, or the
        previous annotation), be the "already equal" exit, or be the branch where at most one operand has a shape
R-C08h  refresh coverage of chain folds: a fold that steps through `_is_first_input_passthrough` nodes either refreshes the collected
        nodes itself or every admitted operator is in a table whose members are re-derived (refreshing folds / propagate passes)
R-C08g  declared element types of allocated values: `allocate_value_for_var` may replace the aval's float dtype by the
        default float only for floats *wider* than the default (float64 in single-precision mode); a test that also
        catches float16 declares FLOAT for values that are float16 at run time
Not decided here: whether every re-meant node is refreshed at all: the registered propagate passes re-derive
the shapes of most element-wise ops afterwards, so a *missing* refresh inside one rewrite step is not statically
a wrong final annotation; the observation-guard side is C02 R-C02a.
"""
from __future__ import annotations

import ast
from typing import Dict, List, Optional, Set

from ..cfg import cfg_of
from ..flow import defuse, names_in
from ..guards import path_conditions, src
from ..index import AnalysisError, FuncInfo, Index, call_name, dotted, enclosing_stmt, parents, walk_no_nested
from ..report import Results

PP = "jax2onnx/converter/ir_postprocess.py"


def _parents(n: ast.AST):
    cur = getattr(n, "parent", None)
    while cur is not None:
        yield cur
        cur = getattr(cur, "parent", None)


OPT = "jax2onnx/converter/ir_optimizations.py"
REFRESHERS = {"_refresh_elementwise_output_shape", "_copy_shape_dtype", "_copy_shape_only"}
FWD_CALLS = {"_consumer_nodes", "_consumers", "consumers", "uses"}
BWD_CALLS = {"_producer_node", "_first_input", "producer", "_node_inputs"}
FLIP = {"FORWARD": "BACKWARD", "BACKWARD": "FORWARD"}


def _ann_is_set(ann: Optional[ast.AST]) -> bool:
    if ann is None:
        return False
    d = dotted(ann.value if isinstance(ann, ast.Subscript) else ann) or ""
    return d.split(".")[-1] in ("Set", "set", "FrozenSet", "frozenset", "AbstractSet", "MutableSet")


def _ann_tuple_elem(ann: Optional[ast.AST], i: int) -> Optional[ast.AST]:
    """Optional[Tuple[a, b, ...]] / Tuple[a, b, ...] -> element i."""
    cur = ann
    for _ in range(3):
        if isinstance(cur, ast.Subscript):
            d = (dotted(cur.value) or "").split(".")[-1]
            if d == "Optional":
                cur = cur.slice
                continue
            if d in ("Tuple", "tuple") and isinstance(cur.slice, ast.Tuple) and i < len(cur.slice.elts):
                return cur.slice.elts[i]
        break
    return None


def _elem_provenance_calls(fn: ast.AST, du, name: str, init_stmt: Optional[ast.AST] = None) -> Set[str]:
    """Last names of the calls the elements stored into list `name` are computed from (transitively).
    Only definitions inside the loop body that (re)initialises the list are followed: the optimizer's long
    functions reuse cursor names (`cur`, `prev`, `consumers`) across unrelated rewrite steps."""
    scope: ast.AST = fn
    if init_stmt is not None:
        for p in _parents(init_stmt):
            if p is fn:
                break
            if isinstance(p, (ast.For, ast.While)):
                scope = p
                break
    in_scope = {id(x) for x in ast.walk(scope)}
    stored: Set[str] = set()
    for c in walk_no_nested(fn):
        if id(c) not in in_scope:
            continue
        if isinstance(c, ast.Call) and isinstance(c.func, ast.Attribute) and c.func.attr in ("append", "add", "insert", "extend") and isinstance(c.func.value, ast.Name) and c.func.value.id == name and c.args:
            stored |= names_in(c.args[-1])
    calls: Set[str] = set()
    seen: Set[str] = set()
    todo = list(stored)
    while todo:
        nm = todo.pop()
        if nm in seen or nm == name:
            continue
        seen.add(nm)
        for d in du.defs.get(nm, []):
            v = d.value
            if v is None or id(d.stmt) not in in_scope or d.stmt is scope:
                continue
            for x in ast.walk(v):
                if isinstance(x, ast.Call):
                    calls.add((call_name(x) or "").split(".")[-1])
            todo += list(names_in(v))
        # elements pushed into a work list this name is popped from
        for c in walk_no_nested(fn):
            if id(c) not in in_scope:
                continue
            if isinstance(c, ast.Call) and isinstance(c.func, ast.Attribute) and c.func.attr in ("append", "add", "insert", "extend") and isinstance(c.func.value, ast.Name) and c.func.value.id == nm and c.args:
                todo += list(names_in(c.args[-1]))
    return calls


def order_of(idx: Index, fi: FuncInfo, e: ast.AST, depth: int = 0) -> tuple:
    """-> (GRAPH | FORWARD | BACKWARD | UNORDERED | UNKNOWN, why)"""
    if depth > 4:
        return "UNKNOWN", "depth"
    du = defuse(fi.node)
    if isinstance(e, ast.Call):
        cn = (call_name(e) or "").split(".")[-1]
        if cn in ("list", "tuple", "cast") and e.args:
            inner = e.args[-1]
            if isinstance(inner, ast.Name) and inner.id in ("graph", "g", "subgraph"):
                return "GRAPH", "list(graph)"
            return order_of(idx, fi, inner, depth + 1)
        if cn == "reversed" and e.args:
            k, w = order_of(idx, fi, e.args[0], depth + 1)
            return FLIP.get(k, k), f"reversed({w})"
        if cn in ("set", "frozenset"):
            return "UNORDERED", "set(…)"
        if cn == "sorted":
            return "UNKNOWN", "sorted(…) by an unknown key"
        return "UNKNOWN", f"result of {cn}()"
    if isinstance(e, (ast.Set, ast.SetComp)):
        return "UNORDERED", "set display"
    if isinstance(e, ast.Subscript) and isinstance(e.slice, ast.Slice) and e.slice.step is not None and isinstance(e.slice.step, ast.UnaryOp):
        k, w = order_of(idx, fi, e.value, depth + 1)
        return FLIP.get(k, k), f"{w}[::-1]"
    if isinstance(e, ast.ListComp) and len(e.generators) == 1:
        return order_of(idx, fi, e.generators[0].iter, depth + 1)
    if isinstance(e, ast.Name):
        defs = du.defs.get(e.id, [])
        if not defs:
            return "UNKNOWN", f"free name {e.id}"
        kinds = []
        for d in defs:
            ann = d.stmt.annotation if isinstance(d.stmt, ast.AnnAssign) else None
            if d.kind == "param":
                a = fi.node.args  # type: ignore[attr-defined]
                pa = next((x for x in a.posonlyargs + a.args + a.kwonlyargs if x.arg == e.id), None)
                if pa is not None and _ann_is_set(pa.annotation):
                    kinds.append(("UNORDERED", f"parameter {e.id}: Set"))
                elif e.id in ("nodes", "all_nodes", "live_nodes"):
                    kinds.append(("GRAPH", f"parameter {e.id} (graph node sequence)"))
                else:
                    kinds.append(("UNKNOWN", f"parameter {e.id}"))
                continue
            if _ann_is_set(ann):
                kinds.append(("UNORDERED", f"`{e.id}` is declared a Set"))
                continue
            v = d.value
            if d.kind == "unpack" and d.index is not None and v is not None:
                # tuple-unpacked from a helper's result: classify the returned element in the helper
                src_call = v
                if isinstance(v, ast.Name):
                    cands = [x.value for x in du.defs.get(v.id, []) if isinstance(x.value, ast.Call)]
                    src_call = cands[0] if len(cands) == 1 else None
                if isinstance(src_call, ast.Call):
                    callee = idx.resolve_func(fi.module, call_name(src_call) or "", cls=fi.cls, scope=fi)
                    if callee is not None:
                        el = _ann_tuple_elem(callee.node.returns, d.index)  # type: ignore[attr-defined]
                        if _ann_is_set(el):
                            kinds.append(("UNORDERED", f"element {d.index} of {callee.qualname}() is a Set"))
                            continue
                        rets = [r.value for r in walk_no_nested(callee.node) if isinstance(r, ast.Return) and isinstance(r.value, ast.Tuple) and d.index < len(r.value.elts)]
                        sub = {order_of(idx, callee, r.elts[d.index], depth + 1) for r in rets}
                        if len(sub) == 1:
                            k, w = next(iter(sub))
                            kinds.append((k, f"{callee.qualname}() → {w}"))
                            continue
                kinds.append(("UNKNOWN", f"unpacked {e.id}"))
                continue
            if d.kind in ("assign", "walrus") and v is not None:
                if isinstance(v, ast.List) and not v.elts or (isinstance(v, ast.Call) and (call_name(v) or "") == "list" and not v.args):
                    calls = _elem_provenance_calls(fi.node, du, e.id, d.stmt)
                    f, b = calls & FWD_CALLS, calls & (BWD_CALLS - {"_node_inputs"})
                    if f and not b:
                        kinds.append(("FORWARD", f"`{e.id}` is appended while following {sorted(f)[0]}()"))
                    elif b and not f:
                        kinds.append(("BACKWARD", f"`{e.id}` is appended while following {sorted(b)[0]}()"))
                    else:
                        kinds.append(("UNKNOWN", f"`{e.id}`: walk direction not resolved ({sorted(calls)[:4]})"))
                    continue
                kinds.append(order_of(idx, fi, v, depth + 1))
                continue
            if d.kind == "setitem":
                continue
            kinds.append(("UNKNOWN", f"{d.kind} definition of {e.id}"))
        ks = {k for k, _ in kinds}
        if len(ks) == 1:
            return kinds[0]
        for bad in ("UNORDERED", "BACKWARD"):
            if bad in ks and ks <= {bad, "UNKNOWN"}:
                return next(k for k in kinds if k[0] == bad)
        return "UNKNOWN", f"`{e.id}` has definitions of different order kinds {sorted(ks)}"
    return "UNKNOWN", type(e).__name__


def _op_sets(m) -> dict:
    """Module-level set constants whose members are all ONNX operator names."""
    from ..tables.onnx_ops import get_history
    hist = get_history()
    out = {}
    for st in m.tree.body:
        tgt = st.targets[0] if isinstance(st, ast.Assign) and st.targets else getattr(st, "target", None)
        val = getattr(st, "value", None)
        if not isinstance(tgt, ast.Name) or val is None:
            continue
        if isinstance(val, ast.Call) and val.args and (call_name(val) or "") in ("frozenset", "set"):
            val = val.args[0]
        if isinstance(val, (ast.Set, ast.Tuple, ast.List)) and val.elts and all(isinstance(e, ast.Constant) and isinstance(e.value, str) for e in val.elts):
            names = {e.value for e in val.elts}  # type: ignore[union-attr]
            if all(hist.known(n) for n in names):
                out[tgt.id] = names
    return out


def _dtype_preserving(op: str) -> Optional[bool]:
    """Does every schema version of `op` give output 0 the type variable of input 0?"""
    from ..tables.onnx_ops import get_history
    hist = get_history()
    vs = hist.hist.get(op)
    if not vs:
        return None
    for ver, sch in vs.items():
        if ver < 13 and any(v >= 13 for v in vs):
            continue  # only the schema versions the claimed opset range (21..newest) can select
        try:
            if not sch.inputs or not sch.outputs:
                return False
            if sch.outputs[0].type_str != sch.inputs[0].type_str:
                return False
        except AttributeError:
            return None
    return True


def rule_d(res: Results, idx: Index) -> None:
    m = idx.module(OPT)
    sets = _op_sets(m)
    if len(sets) < 3:
        raise AnalysisError(f"only {len(sets)} operator-name sets found in {OPT} (ELEMENTWISE_* / UNARY_DATAFLOW_OPS expected)")
    all_ops = set().union(*sets.values())
    n = 0
    for fi in m.funcs.values():
        copy_sites: List[Tuple[ast.AST, str]] = []
        for c in walk_no_nested(fi.node):
            if isinstance(c, ast.Call) and (call_name(c) or "") == "_copy_shape_dtype" and len(c.args) == 2:
                # node-output <- node-input copies only (outs[0], ins[0] / src)
                du = defuse(fi.node)
                a0 = du.closure(names_in(c.args[0]))
                if {"outs", "out"} & a0 or any("out" in x for x in names_in(c.args[0])):
                    copy_sites.append((c, src(c.args[1], 30)))
            # a name->dtype map in which a node's output inherits the entry of its input: `M.setdefault(out, M[src])` / `M[out] = M[src]`
            elif isinstance(c, ast.Call) and isinstance(c.func, ast.Attribute) and c.func.attr == "setdefault" and isinstance(c.func.value, ast.Name) and "type" in c.func.value.id.lower() and len(c.args) == 2 \
                    and isinstance(c.args[1], ast.Subscript) and isinstance(c.args[1].value, ast.Name) and c.args[1].value.id == c.func.value.id:
                copy_sites.append((c, f"{c.func.value.id}[{src(c.args[1].slice, 20)}]"))
            elif isinstance(c, ast.Assign) and len(c.targets) == 1 and isinstance(c.targets[0], ast.Subscript) and isinstance(c.targets[0].value, ast.Name) and "type" in c.targets[0].value.id.lower() \
                    and isinstance(c.value, ast.Subscript) and isinstance(c.value.value, ast.Name) and c.value.value.id == c.targets[0].value.id:
                copy_sites.append((c, f"{c.targets[0].value.id}[{src(c.value.slice, 20)}]"))
        for c, copy_label in copy_sites:
            universe = None
            excluded: Set[str] = set()

            def _ops_of(e: ast.AST) -> Optional[Set[str]]:
                if isinstance(e, ast.Name) and e.id in sets:
                    return set(sets[e.id])
                if isinstance(e, (ast.Set, ast.Tuple, ast.List)) and all(isinstance(x, ast.Constant) and isinstance(x.value, str) for x in e.elts):
                    return {x.value for x in e.elts}  # type: ignore[union-attr]
                return None
            conds = list(path_conditions(c))
            # an earlier `if op == "X": ...; return` in the same function
            for e, want in conds:
                for cmp in [x for x in ast.walk(e) if isinstance(x, ast.Compare) and len(x.ops) == 1]:
                    subj = dotted(cmp.left) or ""
                    if not (subj.endswith("op_type") or subj in ("op", "op_type")):
                        continue
                    if isinstance(cmp.ops[0], (ast.In, ast.NotIn)):
                        ops = _ops_of(cmp.comparators[0])
                        if ops is None:
                            continue
                        positive = isinstance(cmp.ops[0], ast.In) == want
                        if cmp is e or (isinstance(e, ast.UnaryOp) and e.operand is cmp):
                            if positive:
                                universe = ops if universe is None else (universe & ops)
                            else:
                                excluded |= ops
                    elif isinstance(cmp.ops[0], (ast.Eq, ast.NotEq)) and isinstance(cmp.comparators[0], ast.Constant):
                        positive = isinstance(cmp.ops[0], ast.Eq) == want
                        if cmp is e:
                            if positive:
                                universe = {cmp.comparators[0].value}
                            else:
                                excluded.add(cmp.comparators[0].value)
            # the helper idiom `_is_standard_onnx_node(node, "Op")` is a name test as well
            for e, want in conds:
                inner, pos = e, want
                while isinstance(inner, ast.UnaryOp) and isinstance(inner.op, ast.Not):
                    inner, pos = inner.operand, not pos
                if isinstance(inner, ast.Call) and (call_name(inner) or "").split(".")[-1] == "_is_standard_onnx_node" and len(inner.args) == 2 and isinstance(inner.args[1], ast.Constant):
                    if pos:
                        universe = {inner.args[1].value} if universe is None else (universe & {inner.args[1].value})
                    else:
                        excluded.add(inner.args[1].value)
            reach = (universe if universe is not None else all_ops) - excluded
            n += 1
            bad = sorted(o for o in reach if _dtype_preserving(o) is False)
            unk = sorted(o for o in reach if _dtype_preserving(o) is None)
            key = f"{OPT}::{fi.qualname}::dtype-copy::{copy_label}"
            site = f"{OPT}:{c.lineno}"
            if bad:
                res.violation("R-C08d", site, key, f"`{src(c, 50)}` stamps the input's element type on the output of {bad}: in the ONNX schema their output type differs from their first input's, so the refreshed annotation contradicts run time (only {sorted(excluded) or 'no operators'} take the shape-only branch)", fi.qualname)
            elif unk:
                res.unresolved("R-C08d", site, key, f"no schema for {unk}", fi.qualname)
            else:
                res.ok("R-C08d", site, key, f"{len(reach)} operators reach this copy, all with output type = input type; shape-only for {sorted(excluded)}", fi.qualname)
    res.analysed["dtype_copy_sites"] = n
    res.control("R-C08d", "schema oracle: Relu / Add / Clip keep the input type, Cast / CastLike / Less / IsNaN do not", all(_dtype_preserving(o) is True for o in ("Relu", "Add", "Clip", "Not")) and all(_dtype_preserving(o) is False for o in ("Cast", "CastLike", "Less", "IsNaN")), "")


def rule_f(res: Results, idx: Index) -> None:
    f = idx.find_func(OPT, "_refresh_elementwise_output_shape")
    if f is None:
        raise AnalysisError("_refresh_elementwise_output_shape not found")
    g = cfg_of(f.node)
    du = defuse(f.node)
    copies = [c for c in walk_no_nested(f.node) if isinstance(c, ast.Call) and (call_name(c) or "") in ("_copy_shape_dtype", "_copy_shape_only") and len(c.args) == 2]
    # copies whose source is chosen among several operands (not the CastLike data input special case)
    multi = [c for c in copies if isinstance(c.args[1], ast.Name) and any(isinstance(v, ast.Call) and (call_name(v) or "").endswith("shape_source") for v in du.values(c.args[1].id))]
    if not multi:
        raise AnalysisError("_refresh_elementwise_output_shape: no operand-shape copy chosen by _elementwise_shape_source found")
    shape_writes = [st for st in walk_no_nested(f.node) if isinstance(st, ast.Assign) and any(isinstance(t, ast.Attribute) and t.attr == "shape" for t in st.targets)]
    removed = {n for st in shape_writes for n in g.nodes_of(st)}
    # exits that are fine without a further write
    safe_edges = []
    for st in walk_no_nested(f.node):
        if isinstance(st, ast.If):
            t = st.test
            # `if key(out.shape) == key(merged): return`  -> already equal
            if isinstance(t, ast.Compare) and len(t.ops) == 1 and isinstance(t.ops[0], ast.Eq) and isinstance(t.left, ast.Call) and isinstance(t.comparators[0], ast.Call) and call_name(t.left) == call_name(t.comparators[0]):
                safe_edges += [(n, "T") for n in g.nodes_of(st)]
            # `if len(candidate_shapes) > 1:`  -> the F edge means a single shaped operand
            if isinstance(t, ast.Compare) and len(t.ops) == 1 and isinstance(t.left, ast.Call) and (call_name(t.left) or "") == "len" and isinstance(t.comparators[0], ast.Constant):
                k = t.comparators[0].value
                if (isinstance(t.ops[0], ast.Gt) and k == 1) or (isinstance(t.ops[0], ast.GtE) and k == 2):
                    safe_edges += [(n, "F") for n in g.nodes_of(st)]
                if (isinstance(t.ops[0], ast.LtE) and k == 1) or (isinstance(t.ops[0], ast.Lt) and k == 2):
                    safe_edges += [(n, "T") for n in g.nodes_of(st)]
    for i, c in enumerate(multi):
        key = f"{OPT}::_refresh_elementwise_output_shape::partial-refresh#{i}"
        site = f"{OPT}:{c.lineno}"
        r = g.reachable(g.nodes_of(enclosing_stmt(c)), removed_nodes=removed, removed_edges=safe_edges)
        if g.EXIT in r:
            res.violation("R-C08f", site, key, f"after `{src(c, 50)}` the function can return without deriving the broadcast shape (merge failed) and without restoring the previous annotation: a node with several shaped operands keeps ONE operand's shape, which is not its result shape", f.qualname)
        else:
            res.ok("R-C08f", site, key, "every exit after the operand-shape copy re-assigns the output shape, is the already-equal exit, or has at most one shaped operand", f.qualname)


def rule_g(res: Results, idx: Index) -> None:
    CTX = "jax2onnx/converter/ir_context.py"
    f = idx.find_func(CTX, "IRContext.allocate_value_for_var")
    if f is None:
        raise AnalysisError("IRContext.allocate_value_for_var not found")
    writes = [st for st in walk_no_nested(f.node) if isinstance(st, ast.Assign) and any(isinstance(t, ast.Name) and "dtype" in t.id for t in st.targets)
              and any(isinstance(x, ast.Attribute) and x.attr == "_default_float_dtype" for x in ast.walk(st.value))]
    key = f"{CTX}::IRContext.allocate_value_for_var::float-narrowing"
    if not writes:
        res.ok("R-C08g", f"{CTX}:{f.node.lineno}", key, "the aval dtype is never replaced by the default float", f.qualname)
        return
    for st in writes:
        conds = path_conditions(st)
        wider = False
        for e, want in conds:
            for cmp in [x for x in ast.walk(e) if isinstance(x, ast.Compare) and len(x.ops) == 1]:
                txt = src(cmp, 200)
                if "itemsize" in txt and isinstance(cmp.ops[0], (ast.Gt, ast.GtE)) and want:
                    wider = True
                if isinstance(cmp.ops[0], ast.Eq) and want and "float64" in txt:
                    wider = True
                if isinstance(cmp.ops[0], ast.In) and want and "float64" in txt and "float16" not in txt:
                    wider = True
        if wider:
            res.ok("R-C08g", f"{CTX}:{st.lineno}", key, "only floats wider than the default float are narrowed", f.qualname)
        else:
            res.violation("R-C08g", f"{CTX}:{st.lineno}", key, "every float aval different from the default float is declared as the default float, including float16: the operators still produce float16 at run time, so the declared element type contradicts it (ONNX Runtime refuses the model)", f.qualname)


def rule_e(res: Results, idx: Index) -> None:
    from ..symeval import EvalRaise, Evaluator, Obj, Unsupported, library_dtypes
    m = idx.module(OPT)
    # key functions: both sides of an (in)equality are calls to the same one-parameter module function
    keyfuncs = {}
    for fi in m.funcs.values():
        du = defuse(fi.node)

        def _callee_of(e: ast.AST) -> Optional[str]:
            if isinstance(e, ast.IfExp):
                return _callee_of(e.body)
            if isinstance(e, ast.Call):
                return call_name(e)
            if isinstance(e, ast.Name):
                cs = {_callee_of(v) for v in du.values(e.id) if v is not None}
                cs.discard(None)
                return next(iter(cs)) if len(cs) == 1 else None
            return None
        for c in walk_no_nested(fi.node):
            if isinstance(c, ast.Compare) and len(c.ops) == 1 and isinstance(c.ops[0], (ast.Eq, ast.NotEq)):
                a, b = _callee_of(c.left), _callee_of(c.comparators[0])
                if a and a == b:
                    g = idx.resolve_func(m, a, scope=fi)
                    if g is not None and g.module is m:
                        ar = g.node.args  # type: ignore[attr-defined]
                        if len(ar.posonlyargs + ar.args) == 1 and any(t in g.name for t in ("shape", "dim", "key", "token")):
                            keyfuncs[g.qualname] = g
    if not keyfuncs:
        raise AnalysisError("no dimension / shape comparison-key function found in the optimizer (anchor changed)")
    H, W, ANON = Obj("SymbolicDim", value="H"), Obj("SymbolicDim", value="W"), Obj("SymbolicDim", value=None)
    pairs = [("H", H, "W", W), ("3", 3, "5", 5), ("3", 3, "H", H)]
    ev = Evaluator(idx, library_dtypes())
    for qn, g in sorted(keyfuncs.items()):
        pname = (g.node.args.posonlyargs + g.node.args.args)[0].arg  # type: ignore[attr-defined]
        shape_level = "shape" in pname or "dims" in pname or "shape" in g.name
        key = f"{OPT}::{qn}::distinguishes-dimensions"
        site = f"{OPT}:{g.node.lineno}"

        def wrap(d):
            return [[d, 7], Obj("Shape", dims=[d, 7])] if shape_level else [d]
        try:
            bad = None
            for la, a, lb, b in pairs:
                for xa, xb in zip(wrap(a), wrap(b)):
                    ka, kb = ev.call(g, [xa]), ev.call(g, [xb])
                    if ka == kb:
                        bad = (la, lb, ka)
            if bad:
                res.violation("R-C08e", site, key, f"{g.name}() gives the dimensions {bad[0]} and {bad[1]} the same key {bad[2]!r}: a stale annotation that differs only there compares as up to date and is never refreshed", qn)
            else:
                res.ok("R-C08e", site, key, "different symbols, different integers and integer vs symbol get different keys", qn)
        except Unsupported as e:
            res.unresolved("R-C08e", site, key, f"outside the evaluator's subset: {e}", qn)
        except EvalRaise as e:
            res.unresolved("R-C08e", site, key, f"raises {e.name} on an abstract dimension", qn)
    res.analysed["comparison_key_functions"] = sorted(keyfuncs)


def rule_c(res: Results, idx: Index) -> None:
    n = 0
    for rel in (OPT, PP):
        m = idx.module(rel)
        for fi in m.funcs.values():
            for c in walk_no_nested(fi.node):
                if not (isinstance(c, ast.Call) and (call_name(c) or "") in REFRESHERS and c.args):
                    continue
                # the innermost enclosing for-loop whose variable the refreshed node derives from
                arg_names = names_in(c.args[0])
                du = defuse(fi.node)
                loop = None
                for p in _parents(c):
                    if p is fi.node:
                        break
                    if isinstance(p, ast.For):
                        tn = names_in(p.target)
                        if tn & du.closure(arg_names):
                            loop = p
                            break
                if loop is None:
                    continue
                if (call_name(c) or "") != "_refresh_elementwise_output_shape":
                    # a copy from the node's own input to its own output
                    if len(c.args) < 2 or not (names_in(c.args[1]) & du.closure(names_in(c.args[1])) and (du.closure(names_in(c.args[1])) & names_in(loop.target))):
                        continue
                n += 1
                kind, why = order_of(idx, fi, loop.iter)
                key = f"{rel}::{fi.qualname}::refresh-order::{src(loop.iter, 40)}"
                site = f"{rel}:{c.lineno}"
                if kind in ("GRAPH", "FORWARD"):
                    res.ok("R-C08c", site, key, f"{kind}: {why}", fi.qualname)
                elif kind in ("BACKWARD", "UNORDERED"):
                    res.violation("R-C08c", site, key, f"annotations are re-derived from current inputs while iterating `{src(loop.iter, 40)}` in {kind} order ({why}): a consumer visited before its producer copies the producer's stale shape, so the exported annotation contradicts run time", fi.qualname)
                else:
                    res.unresolved("R-C08c", site, key, f"iteration order not resolved: {why}", fi.qualname)
    res.analysed["refresh_loops"] = n
    import textwrap
    from ..index import Module as Mod
    cm = Mod("<control>", "<control>", "control_c08c", textwrap.dedent("""
        from typing import Set, List
        def fold(graph, nodes, start):
            chain: List[object] = []
            v = _first_input(start)
            while v is not None:
                p = _producer_node(nodes, v)
                chain.append(p)
                v = _first_input(p)
            group: Set[object] = set(chain)
            fwd = list(reversed(chain))
            for node in chain:
                _refresh_elementwise_output_shape(node)
            for node in group:
                _refresh_elementwise_output_shape(node)
            for node in fwd:
                _refresh_elementwise_output_shape(node)
            for node in nodes:
                if node in group:
                    _refresh_elementwise_output_shape(node)
    """))
    f = cm.funcs["fold"]
    got = [order_of(idx, f, l.iter)[0] for l in ast.walk(f.node) if isinstance(l, ast.For)]
    res.control("R-C08c", "backward list, set, reversed list, graph sequence are classified BACKWARD, UNORDERED, FORWARD, GRAPH", got == ["BACKWARD", "UNORDERED", "FORWARD", "GRAPH"], str(got))


def _paired_at_call_sites(idx: Index, fi, obj: str, n: ast.Assign, du) -> bool:
    """The helper idiom: `def f(v, declared): v.const_value = <payload converted to a dtype derived from declared>` is paired when every
    caller did `<v arg>.type = …<declared arg>…` before calling f (payload follows the type the caller has just declared)."""
    a = fi.node.args  # type: ignore[attr-defined]
    params = [x.arg for x in a.posonlyargs + a.args]
    if params and params[0] in ("self", "cls"):
        params = params[1:]
    if obj not in params:
        return False
    deps = (du.closure(names_in(n.value)) | names_in(n.value)) & (set(params) - {obj})
    if not deps:
        return False
    sites = []
    for m in idx.product_modules():
        if not m.rel.startswith("jax2onnx/converter/"):
            continue
        for g in m.funcs.values():
            for c in walk_no_nested(g.node):
                if isinstance(c, ast.Call) and (call_name(c) or "").split(".")[-1] == fi.name and c is not n.value:
                    sites.append((g, c))
    if not sites:
        return False
    for g, c in sites:
        if len(c.args) < len(params) or not isinstance(c.args[params.index(obj)], ast.Name):
            return False
        vname = c.args[params.index(obj)].id
        ok = False
        for t in deps:
            targ = src(c.args[params.index(t)], 60)
            for st in walk_no_nested(g.node):
                if isinstance(st, ast.Assign) and st.lineno < c.lineno and any(isinstance(x, ast.Attribute) and x.attr == "type" and isinstance(x.value, ast.Name) and x.value.id == vname for x in st.targets) and targ in src(st.value, 200):
                    ok = True
        if not ok:
            return False
    return True


def run(res: Results, idx: Index, tier: str) -> None:
    res.rule("R-C08a", "post-processing never touches interface values and only replaces a dimension by None or by itself", floor=4)
    res.rule("R-C08b", "const_value replacement is followed by the matching type assignment on every path", floor=1)
    res.assumptions += ["truth of the annotations stamped by ~600 plugins and of the optimizer's metadata refresh is not decided"]
    m = idx.module(PP)
    n_shape = 0
    for fi in m.funcs.values():
        du = defuse(fi.node)
        for n in walk_no_nested(fi.node):
            if isinstance(n, ast.Assign) and any(isinstance(t, ast.Attribute) and t.attr == "shape" for t in n.targets):
                n_shape += 1
                tgt = next(t for t in n.targets if isinstance(t, ast.Attribute) and t.attr == "shape")
                key = f"{PP}::{fi.qualname}::shape-write::{src(tgt.value, 30)}"
                site = f"{PP}:{n.lineno}"
                # interface guard: the assignment is never reached, within one loop iteration, from the true edge of a
                # `<name> in <io names>` test (abort-guard in any nesting form)
                guarded = False
                g = cfg_of(fi.node)
                loops = [p for p in _parents(n) if isinstance(p, (ast.For, ast.While))]
                heads = {x for lp in loops[:1] for x in g.nodes_of(lp)}
                for cand in walk_no_nested(fi.node):
                    if not isinstance(cand, ast.If):
                        continue
                    hit = False
                    for c in ast.walk(cand.test):
                        if isinstance(c, ast.Compare) and isinstance(c.ops[0], ast.In) and isinstance(c.comparators[0], ast.Name):
                            coll = c.comparators[0].id
                            if any(isinstance(x, ast.Call) and "io" in (call_name(x) or "").lower() for v in du.values(coll) for x in ast.walk(v)):
                                hit = True
                    if not hit or cand.lineno > n.lineno:
                        continue
                    t_succ = [y for x in g.nodes_of(cand) for y, lab in g.succ[x] if lab == "T"]
                    r = g.reachable(t_succ, removed_nodes=heads)
                    same_iter = not loops or any(p is loops[0] for p in _parents(cand))
                    if same_iter and not any(x in r for x in g.nodes_of(n)):
                        guarded = True
                rhs_ok = any(isinstance(x, ast.Call) and (call_name(x) or "") == "_unknown_shape_like" for nm in (du.closure(names_in(n.value)) | names_in(n.value)) for v in du.values(nm) for x in ast.walk(v)) or (isinstance(n.value, ast.Call) and (call_name(n.value) or "") == "_unknown_shape_like")
                if guarded and rhs_ok:
                    res.ok("R-C08a", site, key, "only for non-interface values, new shape from _unknown_shape_like", fi.qualname)
                else:
                    miss = []
                    if not guarded:
                        miss.append("no dominating `name in io_names -> continue` guard: graph input/output annotations could be rewritten")
                    if not rhs_ok:
                        miss.append(f"new shape `{src(n.value)}` does not come from _unknown_shape_like")
                    res.violation("R-C08a", site, key, "; ".join(miss), fi.qualname)
    if n_shape == 0:
        raise AnalysisError("ir_postprocess.py no longer assigns any .shape (anchor changed)")
    # _unknown_shape_like only weakens
    u = idx.func(PP, "_unknown_shape_like")
    loops = [n for n in walk_no_nested(u.node) if isinstance(n, ast.For)]
    key = f"{PP}::_unknown_shape_like::only-weakens"
    ok = bool(loops)
    detail = ""
    for lp in loops:
        lv = lp.target.id if isinstance(lp.target, ast.Name) else None
        for c in ast.walk(lp):
            if isinstance(c, ast.Call) and isinstance(c.func, ast.Attribute) and c.func.attr == "append" and c.args:
                a = c.args[0]
                same = isinstance(a, ast.Call) and (call_name(a) or "") == "_normalize_dim" and len(a.args) == 1 and isinstance(a.args[0], ast.Name) and a.args[0].id == lv
                same = same or (isinstance(a, ast.Name) and a.id == lv)
                none = isinstance(a, ast.Constant) and a.value is None
                if not (same or none):
                    ok = False
                    detail = f"appends `{src(a)}`"
                if same and not any(isinstance(x, ast.Call) and (call_name(x) or "") == "_dim_is_known" for e, w in path_conditions(c) for x in ast.walk(e) if w):
                    # keeping a dim is always fine; nothing to check
                    pass
    rets = [r for r in walk_no_nested(u.node) if isinstance(r, ast.Return) and r.value is not None and not (isinstance(r.value, ast.Constant) and r.value.value is None)]
    du_u = defuse(u.node)
    for r in rets:
        if not (isinstance(r.value, ast.Call) and (call_name(r.value) or "").endswith("Shape") and du_u.derived_from(r.value, {"new_dims"})):
            ok = False
            detail = f"returns `{src(r.value)}`"
    res.add("R-C08a", "OK" if ok else "VIOLATION", f"{PP}:{u.node.lineno}", key, "every dimension becomes None or stays itself" if ok else f"_unknown_shape_like can introduce a dimension that was not there ({detail})", u.qualname)
    nd = idx.func(PP, "_normalize_dim")
    key = f"{PP}::_normalize_dim::identity-or-none"
    a = nd.node.args  # type: ignore[attr-defined]
    p = a.args[0].arg
    bad = []
    for r in walk_no_nested(nd.node):
        if isinstance(r, ast.Return) and r.value is not None:
            v = r.value
            fine = (isinstance(v, ast.Name) and v.id == p) or (isinstance(v, ast.Constant) and v.value is None) or (
                isinstance(v, ast.Call) and (call_name(v) or "").split(".")[-1] in ("int", "SymbolicDim", "str") and len(v.args) == 1 and names_in(v.args[0]) == {p})
            if not fine:
                bad.append(src(v))
    res.add("R-C08a", "OK" if not bad else "VIOLATION", f"{PP}:{nd.node.lineno}", key, "returns the dimension itself (int / SymbolicDim form) or None" if not bad else f"_normalize_dim returns `{bad[0]}`, not the given dimension", nd.qualname)
    # traversal covers sub-graphs and functions
    pg = idx.func(PP, "_process_graph")
    key = f"{PP}::_process_graph::recurses"
    rec = [c for c in walk_no_nested(pg.node) if isinstance(c, ast.Call) and (call_name(c) or "") == "_process_graph"]
    res.add("R-C08a", "OK" if rec else "UNRESOLVED", f"{PP}:{pg.node.lineno}", key, "control-flow bodies are processed recursively" if rec else "no recursive call found", pg.qualname)

    res.rule("R-C08c", "annotation refresh loops visit producers before consumers", floor=5)
    rule_c(res, idx)
    res.rule("R-C08d", "element types are copied input->output only for operators whose schema output type equals their input type", floor=2)
    rule_d(res, idx)
    res.rule("R-C08e", "shape / dimension comparison keys keep different symbols and extents distinguishable", floor=1)
    rule_e(res, idx)
    res.rule("R-C08f", "an operand-shape copy on a broadcasting node is followed by the merged shape, the previous annotation, or a single-operand exit", floor=1)
    rule_f(res, idx)
    res.rule("R-C08g", "value allocation narrows only floats wider than the default float", floor=1)
    rule_g(res, idx)
    res.rule("R-C08h", "chain folds refresh the nodes they re-route, or admit only operators whose shape is re-derived elsewhere", floor=2)
    rule_h(res, idx)
    res.rule("R-C08k", "size-1 constants are left out of the refresh's broadcast merge only when their rank cannot lift the result's rank", floor=1)
    rule_i(res, idx)
    rule_k(res, idx)
    rule_l(res, idx)
    rule_m(res, idx)
    res.rule("R-C08j", "the shape stamped on a plugin-emitted Transpose output is the operand's shape gathered through the permutation", floor=8)
    rule_j(res, idx)

    # ---- R-C08b
    n_cv = 0
    for mod in idx.product_modules():
        if not mod.rel.startswith("jax2onnx/converter/"):
            continue
        for fi in mod.funcs.values():
            du = defuse(fi.node)
            g = None
            for n in walk_no_nested(fi.node):
                if not (isinstance(n, ast.Assign) and any(isinstance(t, ast.Attribute) and t.attr == "const_value" and isinstance(t.value, ast.Name) for t in n.targets)):
                    continue
                obj = next(t.value.id for t in n.targets if isinstance(t, ast.Attribute) and t.attr == "const_value")
                n_cv += 1
                key = f"{mod.rel}::{fi.qualname}::const_value::{obj}"
                site = f"{mod.rel}:{n.lineno}"
                constructed = any(isinstance(v, ast.Call) and (call_name(v) or "") in ("ir.Value", "ir.val") and any(k.arg == "type" for k in v.keywords) for v in du.values(obj))
                if constructed:
                    res.ok("R-C08b", site, key, f"`{obj}` is constructed here with an explicit type", fi.qualname)
                    continue
                g = g or cfg_of(fi.node)
                tys = [a for a in walk_no_nested(fi.node) if isinstance(a, ast.Assign) and any(isinstance(t, ast.Attribute) and t.attr == "type" and isinstance(t.value, ast.Name) and t.value.id == obj for t in a.targets)]
                r = g.reachable(g.nodes_of(n), removed_nodes={x for a in tys for x in g.nodes_of(a)})
                if tys and g.EXIT not in r:
                    res.ok("R-C08b", site, key, f"`{obj}.type` is assigned on every path after the payload is replaced", fi.qualname)
                elif _paired_at_call_sites(idx, fi, obj, n, du):
                    res.ok("R-C08b", site, key, f"`{obj}` is a parameter; the payload's dtype derives from another parameter, and every call site assigns `{obj}.type` from that same argument before the call", fi.qualname)
                else:
                    res.violation("R-C08b", site, key, f"`{obj}.const_value` is replaced but `{obj}.type` is not updated on every following path: the declared element type can contradict the constant's payload", fi.qualname)
    res.analysed["const_value_writes"] = n_cv


# ---------------------------------------------------------------------------------------------- R-C08h
def rule_h(res: Results, idx: Index) -> None:
    """A chain fold that re-routes the first input of the nodes it stepped through changes the layout / shape of their
    outputs.  Either the fold refreshes those nodes itself, or every operator its acceptance predicate admits must be one
    whose annotation is re-derived elsewhere: by the refreshing folds that claim the same pattern first
    (`_is_elementwise_node` tables) or by the late propagate passes (`UNARY_DATAFLOW_OPS`, binary element-wise table)."""
    m = idx.module(OPT)
    sets = _op_sets(m)
    pred = idx.find_func(OPT, "_is_first_input_passthrough")
    if pred is None:
        raise AnalysisError("_is_first_input_passthrough not found")
    accepted: Set[str] = set()
    for x in ast.walk(pred.node):
        if isinstance(x, ast.Compare) and len(x.ops) == 1 and isinstance(x.ops[0], ast.NotIn) and isinstance(x.comparators[0], ast.Name) and x.comparators[0].id in sets:
            accepted |= sets[x.comparators[0].id]
    if not accepted:
        raise AnalysisError("_is_first_input_passthrough: acceptance table not found")
    refreshed: Set[str] = set()
    why = []
    for fn, label in (("_is_elementwise_node", "refreshing folds"), ("propagate_unary_shapes_ir", "propagate_unary_shapes_ir"), ("propagate_elementwise_shapes_ir", "propagate_elementwise_shapes_ir")):
        f = idx.find_func(OPT, fn)
        if f is None:
            continue
        for x in ast.walk(f.node):
            if isinstance(x, ast.Name) and x.id in sets:
                refreshed |= sets[x.id]
                why.append(f"{x.id} ({label})")
    n = 0
    for fi in m.funcs.values():
        calls = [c for c in walk_no_nested(fi.node) if isinstance(c, ast.Call) and (call_name(c) or "") == "_is_first_input_passthrough"]
        if not calls or fi is pred:
            continue
        du = defuse(fi.node)
        for c in calls:
            # the list the accepted node is appended to
            arg = c.args[0] if c.args else None
            if not isinstance(arg, ast.Name):
                continue
            lists = set()
            p_if = None
            for p_ in _parents(c):
                if isinstance(p_, ast.If):
                    p_if = p_
                    break
            if p_if is None:
                continue
            for st in p_if.body:
                for a in ast.walk(st):
                    if isinstance(a, ast.Call) and isinstance(a.func, ast.Attribute) and a.func.attr == "append" and isinstance(a.func.value, ast.Name) and a.args and isinstance(a.args[0], ast.Name) and a.args[0].id == arg.id:
                        lists.add(a.func.value.id)
            if not lists:
                continue
            n += 1
            derived = set(lists) | du.forward(lists)
            refreshes = [lp for lp in walk_no_nested(fi.node) if isinstance(lp, ast.For) and (names_in(lp.iter) & derived)
                         and any(isinstance(x, ast.Call) and (call_name(x) or "") == "_refresh_elementwise_output_shape" for st in lp.body for x in ast.walk(st))]
            key = f"{OPT}::{fi.qualname}::chain-refresh::{sorted(lists)[0]}"
            site = f"{OPT}:{c.lineno}"
            if refreshes:
                res.ok("R-C08h", site, key, f"the fold refreshes the nodes collected in {sorted(lists)} itself", fi.qualname)
                continue
            uncovered = sorted(accepted - refreshed)
            if uncovered:
                res.violation("R-C08h", site, key, f"the chain fold steps through every operator of the passthrough table but does not refresh the collected nodes ({sorted(lists)}); {uncovered} are in none of the tables whose members get their shape re-derived ({', '.join(sorted(set(why)))}): their output keeps the pre-fold (transposed) shape", fi.qualname)
            else:
                res.ok("R-C08h", site, key, f"no refresh in the fold, but all {len(accepted)} admitted operators are re-derived by {', '.join(sorted(set(why)))}", fi.qualname)
    res.analysed["passthrough_chain_folds"] = n


# ---------------------------------------------------------------------------------------------- R-C08i
# override sites for which an input is known where the declared extent differs from run time (triage/witnesses/c08_axis0_override_family.py)
CONFIRMED_OVERRIDE_SITES = {
    "jax2onnx/plugins/jax/lax/scan.py::_restamp_axis0::axis-overwrite::dims[0]",
    "jax2onnx/plugins/jax/lax/broadcast_in_dim.py::BroadcastInDimPlugin.lower::axis-overwrite::target_shape_dims[0]",
}


def rule_i(res: Results, idx: Index, rid: str = "R-C08i") -> None:
    """The static shape JAX assigns to an equation's result is its output aval's shape.  A stamping helper that starts from
    `_aval_shape_tuple(out_var)` and then replaces one of its dimensions by a quantity that does not come from the aval (a
    loop-context "axis-0 override") declares a concrete extent JAX never computed: whenever the override is unrelated to
    this equation the annotation (and the Expand inserted to match it) contradicts run time."""
    res.rule(rid, "shape-stamping helpers do not replace a dimension of the output aval's shape by a non-aval quantity", floor=1)
    n = 0
    for m in idx.product_modules():
        if "/plugins/" not in m.rel or ".examples" in m.name:
            continue
        for fi in m.funcs.values():
            du = defuse(fi.node)
            avals = [d for nm, ds in du.defs.items() for d in ds if d.value is not None and isinstance(d.value, ast.Call) and (call_name(d.value) or "").split(".")[-1] in ("_aval_shape_tuple",)]
            if not avals:
                continue
            stamps = [c for c in walk_no_nested(fi.node) if isinstance(c, ast.Call) and (call_name(c) or "").split(".")[-1] == "_stamp_type_and_shape" and len(c.args) >= 2]
            if not stamps:
                continue
            a = fi.node.args  # type: ignore[attr-defined]
            params = {x.arg for x in a.posonlyargs + a.args + a.kwonlyargs}
            for d0 in avals:
                name = d0.name
                n += 1
                key = f"{m.rel}::{fi.qualname}::aval-shape::{name}"
                site = f"{m.rel}:{d0.stmt.lineno}"
                redefs = [d for d in du.defs.get(name, []) if d is not d0 and d.value is not None and isinstance(d.value, ast.BinOp) and name in names_in(d.value)]
                foreign = [d for d in redefs if (names_in(d.value) - {name}) & params]
                flows = any(name in (du.closure(names_in(c.args[1])) | names_in(c.args[1])) for c in stamps)
                if foreign and flows:
                    f0 = foreign[0]
                    res.violation(rid, f"{m.rel}:{f0.stmt.lineno}", key, f"`{name}` starts as the output aval's shape and is then rebuilt as `{src(f0.value, 50)}` from the parameter {sorted((names_in(f0.value) - {name}) & params)}: the stamped shape is no longer the shape JAX computed for this equation (an axis-0 extent taken from loop context is declared on results it has nothing to do with)", fi.qualname)
                else:
                    res.ok(rid, site, key, "the stamped shape is the output aval's shape", fi.qualname)
    # second form of the same defect: one element of a shape list that reaches a stamp is overwritten by a loop-context
    # "override" (`get_axis0_override(...)`, `_static_loop_extent_axis0`, a parameter called override)
    n2 = 0
    for m in idx.product_modules():
        if "/plugins/" not in m.rel or ".examples" in m.name:
            continue
        for fi in m.funcs.values():
            stamps = [c for c in walk_no_nested(fi.node) if isinstance(c, ast.Call) and (call_name(c) or "").split(".")[-1] == "_stamp_type_and_shape" and len(c.args) >= 2]
            if not stamps:
                continue
            du = defuse(fi.node)
            for nm, ds in du.defs.items():
                for d in ds:
                    if d.kind != "setitem" or d.value is None:
                        continue
                    tgt = d.stmt.targets[0] if isinstance(d.stmt, ast.Assign) else None
                    if not (isinstance(tgt, ast.Subscript) and isinstance(tgt.slice, (ast.Constant, ast.Name, ast.BinOp, ast.UnaryOp))):
                        continue
                    if isinstance(tgt.slice, ast.Constant) and not isinstance(tgt.slice.value, int):
                        continue      # dict entries (conv_kwargs['pads'] = ...)
                    if not any(nm in (du.closure(names_in(c.args[1])) | names_in(c.args[1])) for c in stamps):
                        continue
                    n2 += 1
                    key = f"{m.rel}::{fi.qualname}::axis-overwrite::{nm}[{src(tgt.slice, 12)}]"
                    site = f"{m.rel}:{d.stmt.lineno}"
                    # the assigned value itself is the override (a name / int(name) that says so); derived quantities such as
                    # pad amounts are not extents taken from loop context
                    v0 = d.value
                    while isinstance(v0, ast.Call) and (call_name(v0) or "") in ("int", "cast") and v0.args:
                        v0 = v0.args[-1]
                    via = v0.id if isinstance(v0, ast.Name) and "override" in v0.id.lower() else None
                    if via and key not in CONFIRMED_OVERRIDE_SITES:
                        res.unresolved(rid, site, key, f"`{src(d.stmt, 50)}` declares an extent taken from loop context (`{via}`) instead of the equation's avals; no input is known for which it differs from the "
                                       "extent JAX computed (the confirmed sites of this family are listed in CONFIRMED_OVERRIDE_SITES)", fi.qualname)
                    elif via:
                        res.violation(rid, site, key, f"`{src(d.stmt, 50)}` overwrites one extent of a shape that is then stamped with a loop-context override (`{via}`): the declared extent is not the one JAX "
                                      "computed for this equation (stacked scan outputs are declared with the per-step extent, a broadcast to a symbolic batch is fixed to the override)", fi.qualname)
                    else:
                        res.ok(rid, site, key, "the overwritten extent derives from the equation's own parameters / avals", fi.qualname)
    res.analysed["aval_shape_stamping_helpers"] = n
    res.analysed["stamped_shape_element_overwrites"] = n2


# ---------------------------------------------------------------------------------------------- R-C08j
def rule_j(res: Results, idx: Index) -> None:
    """The shape a plugin stamps on the output of a Transpose it emits must be the operand's shape GATHERED through the
    permutation (`out[i] = in[perm[i]]`).  For every `X = <builder>.Transpose(v, perm=P)` in the plugins whose result is
    stamped with a shape S in the same function, S's definition is classified: the gather comprehension
    `tuple(shape[i] for i in P)`; a helper `h(shape, perm)`, which is evaluated on a 3-cycle (a swap cannot tell gather from
    scatter); a shape taken from the equation's output aval; anything else is UNRESOLVED."""
    from ..symeval import EvalRaise, Evaluator, Unsupported
    n = 0
    for m in idx.product_modules():
        if "/plugins/" not in m.rel or ".Transpose(" not in m.src:
            continue
        for fi in m.funcs.values():
            du = defuse(fi.node)
            for st in walk_no_nested(fi.node):
                if not (isinstance(st, ast.Assign) and len(st.targets) == 1 and isinstance(st.targets[0], ast.Name)):
                    continue
                calls = [c for c in ast.walk(st.value) if isinstance(c, ast.Call) and isinstance(c.func, ast.Attribute) and c.func.attr == "Transpose"]
                if not calls:
                    continue
                tc = calls[0]
                perm_e = next((k.value for k in tc.keywords if k.arg == "perm"), None)
                if perm_e is None:
                    continue
                perm_names = names_in(perm_e) | du.closure(names_in(perm_e))
                out = st.targets[0].id
                stamps = [c for c in walk_no_nested(fi.node) if isinstance(c, ast.Call) and (call_name(c) or "").split(".")[-1] == "_stamp_type_and_shape" and len(c.args) >= 2
                          and isinstance(c.args[0], ast.Name) and c.args[0].id == out and c.lineno >= st.lineno]
                for sc in stamps[:1]:
                    n += 1
                    key = f"{m.rel}::{fi.qualname}::transpose-stamp::{out}"
                    site = f"{m.rel}:{sc.lineno}"
                    s_e = sc.args[1]
                    cands = [s_e] + ([d.value for d in du.defs.get(s_e.id, []) if d.value is not None and (d.stmt is None or d.stmt.lineno <= sc.lineno)] if isinstance(s_e, ast.Name) else [])
                    verdict = None
                    for v in cands:
                        core = v.args[0] if isinstance(v, ast.Call) and (call_name(v) or "") in ("tuple", "list") and v.args else v
                        if isinstance(core, (ast.GeneratorExp, ast.ListComp)) and len(core.generators) == 1:
                            g = core.generators[0]
                            it_names = names_in(g.iter)
                            idxv = g.target.id if isinstance(g.target, ast.Name) else None
                            if isinstance(core.elt, ast.Subscript) and isinstance(core.elt.slice, ast.Name) and core.elt.slice.id == idxv and (it_names & perm_names or it_names == names_in(perm_e)):
                                verdict = ("OK", f"`{src(v, 60)}` gathers the operand's dims through the permutation")
                                break
                        if isinstance(v, ast.Call) and len(v.args) == 2:
                            h = idx.resolve_func(m, call_name(v) or "", cls=fi.cls, scope=fi)
                            if h is not None and names_in(v.args[1]) & (perm_names | names_in(perm_e)):
                                try:
                                    got = Evaluator(idx, {}).call(h, [("a", "b", "c"), [1, 2, 0]])
                                except (Unsupported, EvalRaise) as e:
                                    verdict = ("UNRESOLVED", f"helper {h.name}() not evaluable: {e}")
                                    break
                                if tuple(got) == ("b", "c", "a"):
                                    verdict = ("OK", f"{h.name}(shape, perm) gathers: ('a','b','c'), [1,2,0] -> {tuple(got)}")
                                else:
                                    verdict = ("VIOLATION", f"{h.name}(('a','b','c'), [1,2,0]) = {tuple(got) if isinstance(got, (list, tuple)) else got!r}, but Transpose(perm=[1,2,0]) yields ('b','c','a'): the helper applies the inverse "
                                                            "permutation, so for every permutation that is not its own inverse the declared shape of the transposed value contradicts run time")
                                break
                        if "aval" in src(v, 200) or "out_shape" in src(v, 80):
                            verdict = ("OK", "shape taken from the equation's output aval")
                            break
                    if verdict is None:
                        # any other closed expression over the permutation and ONE shape: evaluate it on a 3-cycle
                        for v in cands:
                            allowed = {"tuple", "list", "sorted", "zip", "enumerate", "range", "len", "int", "reversed"}
                            def _ok_call(c_: ast.Call) -> bool:
                                if (call_name(c_) or "?") in allowed:
                                    return True
                                # list / tuple methods on the shape or the permutation itself: `perm.index(axis)`
                                return isinstance(c_.func, ast.Attribute) and c_.func.attr in ("index", "count") and isinstance(c_.func.value, ast.Name)
                            if any(isinstance(c_, ast.Call) and not _ok_call(c_) for c_ in ast.walk(v)):
                                continue      # calls into helpers are classified above (or stay unresolved)
                            free = names_in(v) - allowed
                            bound = {n_.id for c_ in ast.walk(v) if isinstance(c_, ast.comprehension) for n_ in ast.walk(c_.target) if isinstance(n_, ast.Name)}
                            free -= bound
                            pn = free & (perm_names | names_in(perm_e))
                            sn = free - pn
                            if len(pn) == 1 and len(sn) == 1:
                                env = {next(iter(pn)): [1, 2, 0], next(iter(sn)): ("a", "b", "c")}
                                try:
                                    got = Evaluator(idx, {}).eval(v, env, fi, 0)
                                    got = tuple(got)
                                except Exception:
                                    continue
                                if got == ("b", "c", "a"):
                                    verdict = ("OK", f"`{src(v, 60)}` evaluates to the gather on a 3-cycle: {got}")
                                elif len(got) == 3:
                                    verdict = ("VIOLATION", f"`{src(v, 70)}` with shape ('a','b','c') and perm [1,2,0] gives {got}, but Transpose(perm=[1,2,0]) yields ('b','c','a'): the stamped shape is the INVERSE "
                                                            "permutation of the operand's shape — right for swaps, wrong for every rotation (a trailing batch axis moved to the front)")
                                break
                    if verdict is None:
                        verdict = ("UNRESOLVED", f"shape expression `{src(s_e, 60)}` not classified")
                    res.add("R-C08j", verdict[0], site, key, verdict[1], fi.qualname)
    res.analysed["transpose_stamps"] = n


# ---------------------------------------------------------------------------------------------- R-C08k
def rule_k(res: Results, idx: Index) -> None:
    """In `_refresh_elementwise_output_shape` the output shape is the broadcast of the operand shapes.  An operand may be
    left out of that merge only when it cannot influence the result: `_is_scalar_const_value` is true for ANY size-1
    constant, also one of higher rank than the other operands ((3,) with a (1,1) constant broadcasts to (1,3)), so a skip
    guarded by that predicate must also require rank 0 (`len(dims) == 0`, `not dims`): a (1,) constant next to a rank-0 operand gives (1,)."""
    f = idx.find_func(OPT, "_refresh_elementwise_output_shape")
    if f is None:
        raise AnalysisError("_refresh_elementwise_output_shape not found")
    key = f"{OPT}::_refresh_elementwise_output_shape::size-one-constant-skip"
    loops = [lp for lp in walk_no_nested(f.node) if isinstance(lp, ast.For) and any(isinstance(c, ast.Call) and isinstance(c.func, ast.Attribute) and c.func.attr == "append" and "shapes" in src(c.func.value, 40) for c in ast.walk(lp))]
    if not loops:
        res.unresolved("R-C08k", f.site, key, "the loop that collects the operand shapes for the broadcast merge was not found", f.qualname)
        return
    lp = loops[0]
    skips = [st for st in ast.walk(lp) if isinstance(st, ast.If) and any(isinstance(x, ast.Continue) for x in st.body)
             and any(isinstance(c, ast.Call) and (call_name(c) or "").split(".")[-1] == "_is_scalar_const_value" for c in ast.walk(st.test))]
    if not skips:
        res.ok("R-C08k", f"{OPT}:{lp.lineno}", key, "no operand with a known shape is left out of the broadcast merge", f.qualname)
        return
    for st in skips:
        def _rank0(c: ast.AST) -> bool:
            # len(dims) == 0 / len(dims) < 1 / len(dims) <= 0 / not dims : the constant has rank 0
            if isinstance(c, ast.Compare) and len(c.ops) == 1 and any(isinstance(x, ast.Call) and (call_name(x) or "") == "len" for x in ast.walk(c.left)) and isinstance(c.comparators[0], ast.Constant):
                k, o = c.comparators[0].value, c.ops[0]
                return (isinstance(o, ast.Eq) and k == 0) or (isinstance(o, ast.Lt) and k == 1) or (isinstance(o, ast.LtE) and k == 0)
            if isinstance(c, ast.Compare) and len(c.ops) == 1 and isinstance(c.left, ast.Attribute) and c.left.attr in ("ndim", "rank") and isinstance(c.comparators[0], ast.Constant):
                k, o = c.comparators[0].value, c.ops[0]
                return (isinstance(o, ast.Eq) and k == 0) or (isinstance(o, ast.Lt) and k == 1) or (isinstance(o, ast.LtE) and k == 0)
            return isinstance(c, ast.UnaryOp) and isinstance(c.op, ast.Not) and isinstance(c.operand, ast.Name) and "dim" in c.operand.id
        rank_bound = any(_rank0(c) for c in ast.walk(st.test))
        if rank_bound:
            res.ok("R-C08k", f"{OPT}:{st.lineno}", key, f"`{src(st.test, 60)}`: only rank-0 constants are left out of the merge", f.qualname)
        else:
            res.violation("R-C08k", f"{OPT}:{st.lineno}", key, f"`{src(st.test, 60)}` leaves size-1 constants of rank >= 1 out of the broadcast merge: for `maximum(x[3], c[1,1])` the output is declared "
                          "`[3]` although the operator returns (1,3), for `sum(x) + c[1]` it is declared rank 0 although the operator returns (1,) — also when that value is a graph output", f.qualname)


# ---------------------------------------------------------------------------------------------- R-C08l
_ROLE_OF_PREFIX = {"lhs": 0, "rhs": 1, "out": 2}


def rule_l(res: Results, idx: Index) -> None:
    """Convolution lowerings move operands and result between the user's layouts (`dimension_numbers` = lhs, rhs, out
    specification) and the canonical ONNX layout.  A shape declared as `tuple(S[i] for i in P)` is right only when the
    permutation P starts from the layout of the SAME tensor the shape S belongs to: the data operand's shape with the
    data layout, the result's shape with the OUTPUT layout.  With equal lhs and out specifications both choices coincide
    (every layer and test), with mixed specifications the declared shape of the raw Conv result is a different
    permutation of the true one.  Roles: position in `lhs_spec, rhs_spec, out_spec = dimension_numbers` and in
    `eqn.invars[:2]` / `eqn.outvars[0]`; for helper functions that take the layouts as parameters, the parameter-name
    prefix."""
    res.rule("R-C08l", "a shape declared as a permutation of tensor X's shape uses a permutation that starts from X's own layout specification (lhs / rhs / out)", floor=3)
    from ..flow import defuse, names_in
    n = 0
    for m in idx.product_modules():
        if "/plugins/" not in m.rel or "_perm(" not in m.src:
            continue
        for fi in m.funcs.values():
            du = defuse(fi.node)
            spec_role: Dict[str, int] = {}
            var_role: Dict[str, int] = {}
            for nm, ds in du.defs.items():
                for d in ds:
                    if d.kind == "unpack" and d.index is not None and d.value is not None:
                        t = src(d.value, 60)
                        if "dimension_numbers" in t:
                            spec_role[nm] = d.index
                        elif "invars" in t:
                            var_role[nm] = d.index
                    elif d.kind == "assign" and d.value is not None and "outvars" in src(d.value, 60) and isinstance(d.value, ast.Subscript):
                        var_role[nm] = 2
                    elif d.kind == "param":
                        pre = nm.split("_")[0]
                        if pre in _ROLE_OF_PREFIX and nm.endswith(("_layout", "_spec")):
                            spec_role[nm] = _ROLE_OF_PREFIX[pre]
                        if pre in _ROLE_OF_PREFIX and nm.endswith(("_shape", "_var", "_dims")):
                            var_role[nm] = _ROLE_OF_PREFIX[pre]
            if not spec_role or not var_role:
                continue

            def roles(expr: ast.AST, table: Dict[str, int]) -> Set[int]:
                names = set(names_in(expr))
                # stop the walk at role carriers: `out_spec` is re-bound later to the output VALUE in some lowerings
                out: Set[int] = set()
                seen: Set[str] = set()
                todo = list(names)
                while todo:
                    x = todo.pop()
                    if x in seen:
                        continue
                    seen.add(x)
                    if x in table:
                        out.add(table[x])
                        continue
                    for d in du.defs.get(x, []):
                        if d.value is not None:
                            todo.extend(names_in(d.value))
                return out

            def perm_sources(p: ast.AST) -> List[ast.Call]:
                out: List[ast.Call] = []
                seen: Set[str] = set()

                def visit(e: ast.AST):
                    for x in ast.walk(e):
                        if isinstance(x, ast.Call) and (call_name(x) or "").split(".")[-1] == "_perm" and len(x.args) == 2:
                            out.append(x)
                        elif isinstance(x, ast.Name) and x.id not in seen:
                            seen.add(x.id)
                            ds = [d for d in du.defs.get(x.id, []) if d.value is not None and d.kind in ("assign", "walrus")]
                            before = [d for d in ds if getattr(d.stmt, "lineno", 0) <= getattr(x, "lineno", 0)]
                            if before:      # the textually nearest preceding binding (names such as `perm` are re-bound per operand)
                                last = max(getattr(d.stmt, "lineno", 0) for d in before)
                                ds = [d for d in before if getattr(d.stmt, "lineno", 0) == last]
                            for d in ds:
                                visit(d.value)
                visit(p)
                return out
            for comp in walk_no_nested(fi.node):
                if not isinstance(comp, (ast.GeneratorExp, ast.ListComp)) or len(comp.generators) != 1:
                    continue
                g = comp.generators[0]
                if not (isinstance(comp.elt, ast.Subscript) and isinstance(g.target, ast.Name) and isinstance(comp.elt.slice, ast.Name) and comp.elt.slice.id == g.target.id):
                    continue
                perms = perm_sources(g.iter)
                if not perms:
                    continue
                n += 1
                key = f"{m.rel}::{fi.qualname}::permuted-shape::{src(comp.elt.value, 30)}<-{src(g.iter, 30)}"
                site = f"{m.rel}:{comp.lineno}"
                xr = roles(comp.elt.value, var_role)
                if len(xr) != 1:
                    res.unresolved("R-C08l", site, key, f"tensor role of `{src(comp.elt.value, 30)}` not unique: {sorted(xr)}", fi.qualname)
                    continue
                bad = None
                for pc in perms:
                    pr = roles(pc.args[0], spec_role)
                    if len(pr) == 1 and pr != xr:
                        bad = (pc, pr)
                names_ = {0: "lhs (data operand)", 1: "rhs (kernel)", 2: "out (result)"}
                if bad is not None:
                    res.violation("R-C08l", site, key, f"`{src(comp, 60)}` declares a permutation of the {names_[next(iter(xr))]} shape, but `{src(bad[0], 50)}` starts from the {names_[next(iter(bad[1]))]} layout: with "
                                  f"dimension_numbers whose lhs and out specifications differ the declared shape is not the shape the operator returns", fi.qualname)
                else:
                    res.ok("R-C08l", site, key, f"permutation starts from the {names_[next(iter(xr))]} layout", fi.qualname)
    res.analysed["permuted_shape_declarations"] = n


# ---------------------------------------------------------------------------------------------- R-C08m
def rule_m(res: Results, idx: Index) -> None:
    """A fold that removes a Transpose / Reshape pair around a chain of pass-through nodes leaves those nodes in the graph,
    now fed with the un-transposed / un-reshaped value: their outputs have another shape than the annotation they carry.
    Every such fold therefore re-derives the annotations of the nodes it keeps (`_refresh_elementwise_output_shape` over the
    kept list) — the sibling folds of the same pass do; one that does not leaves a stale shape that a later pass trusts
    (an "identity" Reshape is deleted, the graph output changes shape and element order)."""
    res.rule("R-C08m", "a fold that keeps pass-through nodes between the removed pair refreshes the annotations of the kept nodes", floor=2)
    from ..flow import defuse, names_in
    m = idx.module(OPT)
    n = 0
    for fi in m.funcs.values():
        kept: Dict[str, List[ast.Call]] = {}
        for c in walk_no_nested(fi.node):
            if isinstance(c, ast.Call) and isinstance(c.func, ast.Attribute) and c.func.attr == "append" and isinstance(c.func.value, ast.Name):
                conds = [p_ for p_ in parents(c) if isinstance(p_, ast.If)]
                if any(any(isinstance(x, ast.Call) and (call_name(x) or "") in ("_is_first_input_passthrough", "_is_elementwise_node") for x in ast.walk(p_.test)) for p_ in conds):
                    kept.setdefault(c.func.value.id, []).append(c)
        if not kept:
            continue
        du = defuse(fi.node)
        for L, apps in sorted(kept.items()):
            all_apps = [c for c in walk_no_nested(fi.node) if isinstance(c, ast.Call) and isinstance(c.func, ast.Attribute) and c.func.attr == "append" and isinstance(c.func.value, ast.Name) and c.func.value.id == L]
            if len(all_apps) != len(apps):
                continue    # the list also collects other nodes (the removed pair itself): a trace list, not the kept chain
            inits = [st for st in walk_no_nested(fi.node) if isinstance(st, (ast.Assign, ast.AnnAssign)) and any(isinstance(t, ast.Name) and t.id == L for t in (st.targets if isinstance(st, ast.Assign) else [st.target]))
                     and st.lineno < apps[0].lineno]
            if not inits:
                continue
            init = max(inits, key=lambda st: st.lineno)
            block = getattr(init, "parent", None)
            if block is None:
                continue
            sub = [x for x in ast.walk(block) if getattr(x, "lineno", 0) >= init.lineno]
            removes = [c for c in sub if isinstance(c, ast.Call) and (call_name(c) or "").endswith("graph.remove")]
            if not removes:
                continue
            # is L what the fold keeps?  (a list that is itself removed — `graph.remove(chain_nodes)` — is not)
            if any(any(isinstance(a, ast.Name) and a.id == L for a in c.args) for c in removes):
                continue
            n += 1
            key = f"{OPT}::{fi.qualname}::kept-nodes::{L}"
            site = f"{OPT}:{removes[0].lineno}"
            ok = None
            for lp in sub:
                if not isinstance(lp, ast.For):
                    continue
                dep = du.closure(names_in(lp.iter)) | names_in(lp.iter)
                if L in dep and any(isinstance(c, ast.Call) and (call_name(c) or "") == "_refresh_elementwise_output_shape" for c in ast.walk(lp)):
                    ok = lp
                    break
            if ok is not None:
                res.ok("R-C08m", site, key, f"the kept nodes `{L}` are refreshed at line {ok.lineno}", fi.qualname)
            else:
                res.violation("R-C08m", site, key, f"the fold removes the surrounding pair (line {removes[0].lineno}) and keeps the pass-through nodes collected in `{L}`, but never calls "
                              "_refresh_elementwise_output_shape on them: their outputs keep the pre-fold (transposed / reshaped) annotation, which later passes trust", fi.qualname)
    res.analysed["folds_with_kept_nodes"] = n
