"""C09 — the precision flag is honoured end to end (structural part).

R-C09a  x64 flag: every jax.config.update("jax_enable_x64", …) outside a `finally` is covered by a
        restoring `finally` (shared with C13 R-C13d) and the value it restores was read from the config
        before the first update
R-C09b  no default-float64 numpy constant reaches a non-downcasting constant sink (ir.tensor(…),
        const_value=…, tensor_attr(…), bind_const_for_var(…)): numpy_dtype_to_ir_with_float_policy keeps
        float64 as DOUBLE, so such a constant puts a DOUBLE tensor into a single-precision export
R-C09c  in every function that scopes the flag with `with _temporary_x64(…)` / `with _force_jax_x64(…)`,
        no x64-sensitive JAX call (jax.dtypes.canonicalize_dtype, any jnp.* / jax.random.* call,
        jax.eval_shape, jax.make_jaxpr, jax.device_put) is executed outside that block — neither in
        the function's own statements nor in the package helpers those statements call: such a call
        resolves dtypes under the *process* flag, not the requested one
"""
from __future__ import annotations

import ast
from typing import List, Optional, Set, Tuple

from ..callgraph import get_callgraph
from ..cfg import cfg_of
from ..flow import defuse, names_in
from ..guards import src
from ..index import AnalysisError, FuncInfo, Index, Module, call_name, dotted, enclosing_stmt, walk_no_nested
from ..report import Results

NP_FLOAT_DEFAULT_CTORS = {"zeros", "ones", "empty", "eye", "identity", "linspace", "logspace", "rand", "randn", "random"}
NP_DATA_CTORS = {"asarray", "array", "full", "asanyarray", "ascontiguousarray"}
NP_INT_CTORS = {"arange"}
NP_LIKE = {"zeros_like", "ones_like", "full_like", "empty_like"}
EXPLICIT_SCALARS = {"float32", "float64", "float16", "int64", "int32", "int16", "int8", "uint8", "uint16", "uint32", "uint64", "bool_", "complex64", "complex128", "bfloat16"}
SINK_CALLS = {"tensor": 0, "tensor_attr": 1, "bind_const_for_var": 1}


def _is_np(m: Module, e: ast.AST) -> bool:
    d = dotted(e) or ""
    head = d.split(".")[0]
    return m.imports.get(head, "").split(".")[0] in ("numpy",) or head in ("np", "numpy")


def _literal_kind(e: ast.AST) -> Optional[str]:
    """'float' / 'int' / 'bool' / None for literal data."""
    if isinstance(e, ast.Constant):
        if isinstance(e.value, bool):
            return "bool"
        if isinstance(e.value, float):
            return "float"
        if isinstance(e.value, int):
            return "int"
        return None
    if isinstance(e, ast.UnaryOp) and isinstance(e.op, (ast.USub, ast.UAdd)):
        return _literal_kind(e.operand)
    if isinstance(e, (ast.List, ast.Tuple)):
        kinds = [_literal_kind(x) for x in e.elts]
        if not kinds or any(k is None for k in kinds):
            return None
        return "float" if "float" in kinds else ("int" if "int" in kinds else "bool")
    if isinstance(e, ast.BinOp):
        l, r = _literal_kind(e.left), _literal_kind(e.right)
        if l and r:
            return "float" if "float" in (l, r) or isinstance(e.op, ast.Div) else "int"
        return None
    if isinstance(e, ast.Call) and (call_name(e) or "") == "float":
        return "float"
    if isinstance(e, ast.Attribute) and (dotted(e) or "") in ("math.pi", "math.e", "np.pi", "np.e", "math.inf", "np.inf", "np.nan", "math.nan"):
        return "float"
    return None


def classify(m: Module, fi: Optional[FuncInfo], e: ast.AST, depth: int = 0, _seen: Optional[Set[str]] = None) -> Tuple[str, str]:
    """-> (EXPLICIT | INT | OPERAND | PARAM | DEFAULT64 | UNKNOWN, detail)"""
    _seen = _seen or set()
    if depth > 5:
        return "UNKNOWN", "depth"
    lk = _literal_kind(e)
    if lk == "float":
        return "DEFAULT64", f"python float literal `{src(e, 30)}`"
    if lk in ("int", "bool"):
        return "INT", "integer / bool literal"
    if isinstance(e, ast.Call):
        cn = call_name(e) or ""
        last = cn.split(".")[-1]
        if isinstance(e.func, ast.Attribute) and e.func.attr == "astype":
            return "EXPLICIT", ".astype(…)"
        if any(k.arg == "dtype" and not (isinstance(k.value, ast.Constant) and k.value.value is None) for k in e.keywords):
            return "EXPLICIT", "dtype= given"
        if isinstance(e.func, ast.Attribute) and _is_np(m, e.func.value):
            if last in EXPLICIT_SCALARS:
                return "EXPLICIT", f"np.{last}(…)"
            if last in NP_LIKE:
                return "OPERAND", f"np.{last}(operand)"
            if last in NP_FLOAT_DEFAULT_CTORS:
                if len(e.args) >= 2 and last in ("zeros", "ones", "empty", "eye", "identity"):
                    return "EXPLICIT", "positional dtype"
                return "DEFAULT64", f"np.{last}(…) without dtype yields float64"
            if last in NP_DATA_CTORS:
                if len(e.args) >= 2 and last in ("asarray", "array", "asanyarray"):
                    return "EXPLICIT", "positional dtype"
                if last == "full" and len(e.args) >= 3:
                    return "EXPLICIT", "positional dtype"
                data = e.args[1] if last == "full" and len(e.args) >= 2 else (e.args[0] if e.args else None)
                if data is None:
                    return "UNKNOWN", "no data"
                k, d = classify(m, fi, data, depth + 1, _seen)
                if k == "DEFAULT64":
                    return "DEFAULT64", f"np.{last}({d}) without dtype yields float64"
                return k, d
            if last in NP_INT_CTORS:
                ks = [_literal_kind(a) for a in e.args]
                return ("DEFAULT64", "np.arange with float bounds") if "float" in ks else ("INT", "np.arange of integers")
            return "UNKNOWN", f"np.{last}(…)"
        if last in ("tensor",) and e.args:
            return classify(m, fi, e.args[0], depth + 1, _seen)
        return "UNKNOWN", f"result of {cn or '?'}()"
    if isinstance(e, ast.Name):
        if e.id in _seen or fi is None:
            return "UNKNOWN", f"name {e.id}"
        _seen = _seen | {e.id}
        cur = fi
        while cur is not None:
            du = defuse(cur.node)
            if e.id in du.defs:
                kinds = []
                for d in du.defs[e.id]:
                    if d.kind == "param":
                        kinds.append(("PARAM", f"parameter {e.id}"))
                    elif d.value is not None and d.kind in ("assign", "walrus"):
                        kinds.append(classify(m, cur, d.value, depth + 1, _seen))
                    else:
                        kinds.append(("UNKNOWN", f"{d.kind} definition of {e.id}"))
                d64 = [k for k in kinds if k[0] == "DEFAULT64"]
                if d64 and len(d64) == len(kinds):
                    return d64[0]
                if d64:
                    # flow-insensitive: only some definitions are float64 — the path may be infeasible
                    return "UNKNOWN", f"`{e.id}` is float64 on some definitions only ({d64[0][1]})"
                for k in kinds:
                    if k[0] == "UNKNOWN":
                        return k
                return kinds[0] if kinds else ("UNKNOWN", e.id)
            cur = cur.parent_func
        return "UNKNOWN", f"free name {e.id}"
    if isinstance(e, ast.IfExp):
        a, b = classify(m, fi, e.body, depth + 1, _seen), classify(m, fi, e.orelse, depth + 1, _seen)
        for k in (a, b):
            if k[0] == "DEFAULT64":
                return k
        return a if a[0] == "UNKNOWN" else b
    if isinstance(e, ast.Attribute):
        return "OPERAND", f"attribute {src(e, 30)}"
    if isinstance(e, (ast.BinOp, ast.Subscript)):
        return "UNKNOWN", "computed"
    return "UNKNOWN", type(e).__name__


def run(res: Results, idx: Index, tier: str) -> None:
    res.rule("R-C09a", "the x64 flag is switched through JAX's scoped context manager; a manual update is covered by a restoring finally, restores a value read before the first update, and does not mix context-local reads with process-wide writes", floor=2)
    res.rule("R-C09b", "no default-float64 numpy constant reaches ir.tensor / const_value= / tensor_attr / bind_const_for_var", floor=150)
    res.assumptions += ["double-precision accuracy and hidden float32 casts inside individual lowerings are NOT decided (882 textual np.float32 uses; no sound rule in reach)",
                        "add_initializer_from_scalar / add_initializer_from_array downcast floats in single-precision mode and are therefore not sinks"]
    # ---------------- R-C09a
    n_upd = 0
    for m in idx.product_modules():
        if ".sandbox" in m.name:
            continue
        for fi in m.funcs.values():
            ups = [n for n in walk_no_nested(fi.node) if isinstance(n, ast.Call) and (call_name(n) or "").endswith("config.update") and n.args and isinstance(n.args[0], ast.Constant) and n.args[0].value == "jax_enable_x64"]
            if not ups:
                continue
            g = cfg_of(fi.node)
            du = defuse(fi.node)
            tries = [t for t in walk_no_nested(fi.node) if isinstance(t, ast.Try) and t.finalbody]
            restores = [u for u in ups if any(_inside(u, t.finalbody) for t in tries)]
            forwards = [u for u in ups if u not in restores]
            n_upd += len(ups)
            for i, r in enumerate(restores):
                key = f"{m.rel}::{fi.qualname}::restore#{i}"
                site = f"{m.rel}:{r.lineno}"
                val = r.args[1] if len(r.args) > 1 else None
                if val is None or not isinstance(val, ast.Name):
                    res.violation("R-C09a", site, key, f"restore writes `{src(val) if val is not None else '?'}`, not a value saved from the configuration", fi.qualname)
                    continue
                saved_defs = [d for d in du.defs.get(val.id, []) if d.value is not None]
                reads_cfg = [d for d in saved_defs if any((isinstance(x, ast.Attribute) and x.attr == "jax_enable_x64") or (isinstance(x, ast.Constant) and x.value == "jax_enable_x64") for x in ast.walk(d.value))]
                if not reads_cfg:
                    res.violation("R-C09a", site, key, f"`{val.id}` restored into jax_enable_x64 is not read from jax.config", fi.qualname)
                    continue
                def_nodes = [nd for d in reads_cfg for nd in g.nodes_of(d.stmt)]
                ok = all(g.must_pass_nodes(g.nodes_of(enclosing_stmt(u)), def_nodes) for u in forwards) if forwards else True
                if ok:
                    res.ok("R-C09a", site, key, f"`{val.id}` is read from jax.config before every update and restored in finally", fi.qualname)
                else:
                    res.violation("R-C09a", site, key, f"`{val.id}` is read from jax.config only after the flag may already have been changed", fi.qualname)
            for i, u in enumerate(forwards):
                key = f"{m.rel}::{fi.qualname}::update#{i}"
                site = f"{m.rel}:{u.lineno}"
                covered = any(_inside(u, t.body) for t in tries if any(x in restores for x in _calls(t.finalbody))) or _next_stmt_is_restoring_try(u, tries, restores)
                if covered:
                    res.ok("R-C09a", site, key, "covered by a try whose finally restores the flag", fi.qualname)
                else:
                    res.violation("R-C09a", site, key, "jax_enable_x64 is changed and no finally restores it", fi.qualname)
    res.analysed["x64_update_sites"] = n_upd
    # the scoped idiom and the mismatch it avoids
    from .c13 import _is_x64_scope_call
    n_scope = 0
    for m in idx.product_modules():
        if ".sandbox" in m.name:
            continue
        for fi in m.funcs.values():
            for w in walk_no_nested(fi.node):
                if isinstance(w, ast.With) and any(isinstance(it.context_expr, ast.Call) and _is_x64_scope_call(idx, m, fi, it.context_expr) for it in w.items):
                    n_scope += 1
                    res.ok("R-C09a", f"{m.rel}:{w.lineno}", f"{m.rel}::{fi.qualname}::x64-scope", "the requested precision is set through JAX's scoped x64 context manager (context-local, restored on exit)", fi.qualname)
            for u in walk_no_nested(fi.node):
                if isinstance(u, ast.Call) and (call_name(u) or "").endswith("config.update") and u.args and isinstance(u.args[0], ast.Constant) and u.args[0].value == "jax_enable_x64":
                    reads_ctx = any((isinstance(x, ast.Attribute) and x.attr == "jax_enable_x64") or (isinstance(x, ast.Call) and (call_name(x) or "").endswith("config.read")) for x in walk_no_nested(fi.node))
                    if reads_ctx:
                        res.violation("R-C09a", f"{m.rel}:{u.lineno}", f"{m.rel}::{fi.qualname}::global-write-context-read", "the flag is read through jax.config.jax_enable_x64 / config.read (context-local inside a user's `with jax.enable_x64(...)`) but written with jax.config.update (process-wide): the 'restore' then writes the context's value into the global flag, and tracing follows the context instead of enable_double_precision", fi.qualname)
    res.analysed["x64_scopes_with"] = n_scope

    res.rule("R-C09c", "no x64-sensitive JAX call runs outside the scoped x64 flag in functions that scope it", floor=20)
    rule_c(res, idx)

    rule_e(res, idx)
    rule_f(res, idx)
    rule_g(res, idx)
    rule_h(res, idx)
    from .c03 import inherited_settings
    res.rule("R-C09d", "nested Loop / If / function scopes inherit enable_double_precision from an attribute that exists", floor=1)
    for site, key, status, detail, func, setting in inherited_settings(idx):
        if "double" in setting or "float32" in setting:
            res.add("R-C09d", status, site, key, detail, func)

    # ---------------- R-C09b
    n_sinks = 0
    for m in idx.product_modules():
        if m.rel.endswith("_post_check_onnx_graph.py") or ".plugins.examples" in m.name or ".sandbox" in m.name:
            continue
        for n in ast.walk(m.tree):
            if not isinstance(n, ast.Call):
                continue
            cn = call_name(n) or ""
            last = cn.split(".")[-1]
            args: List[Tuple[str, ast.AST]] = []
            if last in SINK_CALLS and (cn.startswith("ir.") or last != "tensor"):
                i = SINK_CALLS[last]
                if i < len(n.args):
                    args.append((last, n.args[i]))
                for k in n.keywords:
                    if k.arg in ("np_array", "value", "tensor") and last == "bind_const_for_var":
                        args.append((last, k.value))
            for k in n.keywords:
                if k.arg == "const_value":
                    args.append(("const_value=", k.value))
            fi = m.func_containing(n)
            for what, a in args:
                n_sinks += 1
                kind, detail = classify(m, fi, a)
                fn = fi.qualname if fi else "<module>"
                key = f"{m.rel}::{fn}::{what}::{src(a, 40)}"
                site = f"{m.rel}:{n.lineno}"
                if kind == "DEFAULT64":
                    res.violation("R-C09b", site, key, f"{what} receives a default-float64 constant ({detail}): with enable_double_precision=False the model then contains a DOUBLE tensor", fn)
                elif kind == "UNKNOWN":
                    res.unresolved("R-C09b", site, key, f"dtype provenance not resolved ({detail})", fn)
                else:
                    res.ok("R-C09b", site, key, f"{kind}: {detail}", fn)
    res.analysed["constant_sinks"] = n_sinks
    # positive control
    import textwrap
    from ..index import Module as Mod
    cm = Mod("<control>", "<control>", "control_c09", textwrap.dedent('''
        import numpy as np
        def lower(ctx):
            half = np.asarray(0.5)
            a = ctx.bind_const_for_var(object(), half)
            b = ctx.bind_const_for_var(object(), np.asarray(0.5, dtype=np.float32))
    '''))
    f = cm.funcs["lower"]
    kinds = []
    for n in ast.walk(cm.tree):
        if isinstance(n, ast.Call) and (call_name(n) or "").endswith("bind_const_for_var"):
            kinds.append(classify(cm, f, n.args[1])[0])
    res.control("R-C09b", "np.asarray(0.5) is DEFAULT64, np.asarray(0.5, dtype=np.float32) is EXPLICIT", kinds == ["DEFAULT64", "EXPLICIT"], str(kinds))


X64_SCOPES = {"_temporary_x64", "_force_jax_x64"}
X64_SENSITIVE_LAST = {"canonicalize_dtype", "canonicalize_value", "eval_shape", "make_jaxpr", "device_put", "result_type", "promote_types"}


def _x64_sensitive(m: Module, c: ast.Call) -> Optional[str]:
    cn = call_name(c) or ""
    if not cn:
        return None
    parts = cn.split(".")
    head = m.imports.get(parts[0], parts[0])
    full = ".".join([head] + parts[1:])
    if full.startswith("jax.numpy.") or full.startswith("jax.random."):
        return full
    if full.startswith("jax.") and parts[-1] in X64_SENSITIVE_LAST:
        return full
    return None


def rule_c(res: Results, idx: Index) -> None:
    cg = get_callgraph(idx)
    n_scopes = 0
    n_calls = 0
    for m in idx.product_modules():
        if ".sandbox" in m.name:
            continue
        for fi in list(m.funcs.values()):
            withs = [w for w in walk_no_nested(fi.node) if isinstance(w, ast.With) and any(isinstance(it.context_expr, ast.Call) and (call_name(it.context_expr) or "").split(".")[-1] in X64_SCOPES for it in w.items)]
            if not withs:
                continue
            n_scopes += len(withs)
            inside: Set[int] = set()
            for w in withs:
                for st in w.body:
                    for x in ast.walk(st):
                        inside.add(id(x))
            # the function's own calls outside the scope (nested defs are only *defined* here: they are judged where called)
            outside_calls = [c for c in walk_no_nested(fi.node) if isinstance(c, ast.Call) and id(c) not in inside]
            seen_funcs = {}
            for c in outside_calls:
                n_calls += 1
                why = _x64_sensitive(m, c)
                key = f"{m.rel}::{fi.qualname}::outside-x64-scope::{call_name(c)}"
                if why:
                    res.violation("R-C09c", f"{m.rel}:{c.lineno}", key, f"`{src(c, 60)}` runs before/after `with {sorted(X64_SCOPES)[0]}…` and resolves dtypes under the process-wide x64 flag instead of enable_double_precision", fi.qualname)
                    continue
                callee = idx.resolve_func(m, call_name(c) or "", cls=fi.cls, scope=fi)
                if callee is None:
                    continue
                for g in cg.reachable_from(callee, depth=3):
                    if id(g.node) in seen_funcs or g.node is fi.node:
                        continue
                    seen_funcs[id(g.node)] = g
                    gm = g.module
                    bad = None
                    for x in walk_no_nested(g.node):
                        if isinstance(x, ast.Call):
                            n_calls += 1
                            why = _x64_sensitive(gm, x)
                            if why:
                                bad = (x, why)
                                break
                    k2 = f"{m.rel}::{fi.qualname}::outside-x64-scope::{call_name(c)}->{g.qualname}"
                    if bad:
                        res.violation("R-C09c", f"{gm.rel}:{bad[0].lineno}", k2, f"`{src(bad[0], 60)}` ({bad[1]}) is reached from `{src(c, 40)}` at {m.rel}:{c.lineno}, outside the scoped x64 flag of {fi.qualname}: its dtype follows the process flag, not enable_double_precision", g.qualname)
                    else:
                        res.ok("R-C09c", f"{gm.rel}:{g.node.lineno}", k2, "no x64-sensitive JAX call", g.qualname)
    res.analysed["x64_scopes"] = n_scopes
    res.analysed["calls_outside_x64_scope"] = n_calls
    import textwrap
    from ..index import Module as Mod
    cm = Mod("<control>", "<control>", "control_c09c", textwrap.dedent("""
        import jax
        import jax.numpy as jnp
        def f(x):
            a = jax.dtypes.canonicalize_dtype(x.dtype)
            b = jnp.asarray(x)
            c = jax.ShapeDtypeStruct((1,), x.dtype)
    """))
    got = [bool(_x64_sensitive(cm, c)) for c in ast.walk(cm.tree) if isinstance(c, ast.Call)]
    res.control("R-C09c", "canonicalize_dtype and jnp.asarray are x64-sensitive, jax.ShapeDtypeStruct is not", got == [True, True, False], str(got))


def _inside(n: ast.AST, block: List[ast.stmt]) -> bool:
    ids = {id(s) for s in block}
    cur: Optional[ast.AST] = n
    while cur is not None:
        if id(cur) in ids:
            return True
        cur = getattr(cur, "parent", None)
    return False


def _calls(block: List[ast.stmt]) -> List[ast.AST]:
    return [x for st in block for x in ast.walk(st) if isinstance(x, ast.Call)]


def _next_stmt_is_restoring_try(u: ast.AST, tries, restores) -> bool:
    st = enclosing_stmt(u)
    holder = st
    p = getattr(st, "parent", None)
    if isinstance(p, ast.If) and p.body == [st] and not p.orelse:
        holder = p
        p = getattr(p, "parent", None)
    for fld in ("body", "orelse", "finalbody"):
        blk = getattr(p, fld, None)
        if isinstance(blk, list) and holder in blk:
            i = blk.index(holder)
            if i + 1 < len(blk) and blk[i + 1] in tries and any(x in restores for x in _calls(blk[i + 1].finalbody)):
                return True
    return False


# ---------------------------------------------------------------------------------------------- R-C09e
def rule_e(res: Results, idx: Index) -> None:
    """jax.numpy-level plugins receive operands of different dtypes.  NumPy's promotion lattice sends (int32, float32)
    to float64 where JAX's sends it to float32; a lowering / abstract_eval that promotes the operand dtypes with
    `np.promote_types` / `np.result_type` and does not clamp the result therefore casts to DOUBLE inside a single-precision
    export (numpy_dtype_to_ir_with_float_policy keeps float64 as DOUBLE)."""
    res.rule("R-C09e", "jax.numpy-level plugins do not promote operand dtypes with NumPy's lattice without clamping float64 in single precision", floor=5)
    n = 0
    for m in idx.product_modules():
        if "/plugins/jax/numpy/" not in m.rel:
            continue
        for fi in m.funcs.values():
            du = defuse(fi.node)
            for c in walk_no_nested(fi.node):
                if not (isinstance(c, ast.Call) and (call_name(c) or "") in ("np.promote_types", "np.result_type", "numpy.promote_types", "numpy.result_type") and len(c.args) >= 2):
                    continue
                a0, a1 = names_in(c.args[0]), names_in(c.args[1])
                if not a0 or not a1 or a0 == a1:
                    continue
                n += 1
                stem = m.rel.rsplit("/", 1)[-1][:-3]
                key = f"{m.rel}::{fi.qualname}::numpy-promotion::{src(c, 40)}"
                site = f"{m.rel}:{c.lineno}"
                # a clamp: the function compares a dtype with float64 and falls back to float32 / the default float
                clamp = any(isinstance(x, ast.Compare) and "float64" in src(x, 200) for x in walk_no_nested(fi.node)) and any(
                    ("float32" in src(x, 200) or "_default_float" in src(x, 200) or "enable_double" in src(x, 200)) for x in walk_no_nested(fi.node) if isinstance(x, (ast.Assign, ast.IfExp, ast.Return)))
                if clamp:
                    res.ok("R-C09e", site, key, "the function clamps a float64 promotion back to single precision", fi.qualname)
                elif fi.name == "abstract_eval":
                    res.unresolved("R-C09e", site, key, "NumPy promotion inside abstract_eval: whether the float64 survives depends on how the aval is constructed and on the lowering (confirmed harmless for add / maximum / minimum / where)", fi.qualname)
                else:
                    res.violation("R-C09e", site, key, f"jnp.{stem}: `{src(c, 50)}` follows NumPy's lattice (int32 with float32 -> float64, JAX: float32) and nothing clamps it: with enable_double_precision=False the export contains DOUBLE casts / tensors for an int array combined with a float32 array", fi.qualname)
    res.analysed["numpy_promotion_sites"] = n


# ---------------------------------------------------------------------------------------------- R-C09f
def rule_f(res: Results, idx: Index) -> None:
    """Sibling agreement of the precision policies.  The type policy (numpy_dtype_to_ir_with_float_policy) widens float32
    only: float16 values keep their element type in a double-precision export.  Every function that widens constant
    ARRAYS to float64 under the precision flag therefore has to restrict itself to float32 as well; a guard of the form
    `issubdtype(dtype, floating) and dtype != float64` also widens float16 constants, which then meet float16 operands
    (Mul(float16, double): the model does not type-check)."""
    res.rule("R-C09f", "constant arrays are widened to float64 for float32 only, like the type policy", floor=3)
    n = 0
    for m in idx.product_modules():
        if not (m.rel.startswith("jax2onnx/converter/") or m.rel == "jax2onnx/ir_utils.py"):
            continue
        for fi in m.funcs.values():
            for c in walk_no_nested(fi.node):
                if not (isinstance(c, ast.Call) and isinstance(c.func, ast.Attribute) and c.func.attr == "astype" and c.args and "float64" in src(c.args[0], 40)):
                    continue
                n += 1
                key = f"{m.rel}::{fi.qualname}::widen::{src(c.func.value, 30)}"
                site = f"{m.rel}:{c.lineno}"
                from ..guards import path_conditions
                conds = path_conditions(c)
                only_f32 = False
                broad = False
                for e, want in conds:
                    for cmp in [x for x in ast.walk(e) if isinstance(x, ast.Compare) and len(x.ops) == 1]:
                        t = src(cmp, 120)
                        if "float32" in t and ((isinstance(cmp.ops[0], ast.Eq) and want) or (isinstance(cmp.ops[0], ast.NotEq) and not want)):
                            only_f32 = True
                    for call in [x for x in ast.walk(e) if isinstance(x, ast.Call)]:
                        if (call_name(call) or "").endswith("issubdtype") and "floating" in src(call, 80) and want:
                            broad = True
                if only_f32:
                    res.ok("R-C09f", site, key, "widens float32 arrays only", fi.qualname)
                elif broad:
                    res.violation("R-C09f", site, key, f"`{src(c, 50)}` widens every floating array that is not float64 - including float16 constants, whose operands keep the FLOAT16 element type under the type policy: float16 * <python scalar> with enable_double_precision=True exports Mul(float16, double)", fi.qualname)
                else:
                    res.unresolved("R-C09f", site, key, "guard of the widening not recognised", fi.qualname)
    res.analysed["float64_widening_sites"] = n


# ---------------------------------------------------------------------------------------------- R-C09g
_PAYLOAD_ATTRS = {"const_value", "numpy", "tolist", "item"}
_FLOAT_ATTR_CTORS = {"AttrFloat32", "AttrFloat32s"}


def _is_payload_reader_name(cn: str) -> bool:
    # imported helpers that hand out a tensor's payload: const_value_to_numpy, tensor_to_numpy, get_const_value, …
    return ("to_numpy" in cn or "const_value" in cn or cn in ("get_const_value",)) and not cn.startswith("np.")


def _payload_functions(m) -> set:
    """Functions of module m whose return value may derive from a tensor's constant payload (fixpoint over local calls)."""
    out: set = set()
    changed = True
    while changed:
        changed = False
        for fi in m.funcs.values():
            if fi.qualname in out:
                continue
            du = defuse(fi.node)
            for r in walk_no_nested(fi.node):
                if not isinstance(r, ast.Return) or r.value is None:
                    continue
                exprs = [r.value] + [d.value for nm in du.closure(names_in(r.value)) for d in du.defs.get(nm, []) if d.value is not None]
                hit = False
                for e in exprs:
                    for x in ast.walk(e):
                        if isinstance(x, ast.Attribute) and x.attr in _PAYLOAD_ATTRS:
                            hit = True
                        if isinstance(x, ast.Call):
                            cn = (call_name(x) or "").split(".")[-1]
                            if cn in {q.split(".")[-1] for q in out} or _is_payload_reader_name(cn):
                                hit = True
                if hit:
                    out.add(fi.qualname)
                    changed = True
                    break
    return out


def rule_g(res: Results, idx: Index) -> None:
    """ONNX float attributes are float32.  A graph rewrite that replaces a constant TENSOR operand by a float attribute
    (Mul by a scalar folded into `alpha=`, a bias folded into `beta=`) rounds a float64 payload through float32: in a
    double-precision export the result is then only single-precision accurate although every tensor is DOUBLE.  Every node
    a converter pass constructs is an instance; a float attribute whose value derives from a tensor payload is allowed
    only under a guard that names float32 (payload dtype is float32, or the value is float32-representable)."""
    res.rule("R-C09g", "graph rewrites do not move a tensor constant's payload into a (float32) float attribute without a float32 guard", floor=3)
    from ..guards import path_conditions
    n = 0
    for m in idx.product_modules():
        if not m.rel.startswith("jax2onnx/converter/"):
            continue
        if "ir.Node(" not in m.src and "ir.node(" not in m.src:
            continue
        pay = _payload_functions(m)
        pay_last = {q.split(".")[-1] for q in pay}
        for fi in m.funcs.values():
            du = None
            for c in walk_no_nested(fi.node):
                if not (isinstance(c, ast.Call) and (call_name(c) or "") in ("ir.Node", "ir.node")):
                    continue
                n += 1
                optype = next((a.value for a in c.args if isinstance(a, ast.Constant) and isinstance(a.value, str) and a.value), "?")
                key = f"{m.rel}::{fi.qualname}::node::{optype}#{sum(1 for x in walk_no_nested(fi.node) if isinstance(x, ast.Call) and (call_name(x) or '') in ('ir.Node', 'ir.node') and x.lineno < c.lineno)}"
                site = f"{m.rel}:{c.lineno}"
                attrs = next((k.value for k in c.keywords if k.arg == "attributes"), None)
                if attrs is None:
                    res.ok("R-C09g", site, key, "node built without attributes", fi.qualname)
                    continue
                du = du or defuse(fi.node)
                exprs = [attrs] + [d.value for nm in du.closure(names_in(attrs)) for d in du.defs.get(nm, []) if d.value is not None]
                bad = None
                for e in exprs:
                    for x in ast.walk(e):
                        if not isinstance(x, ast.Call):
                            continue
                        cn = (call_name(x) or "").split(".")[-1]
                        is_float_attr = cn in _FLOAT_ATTR_CTORS or (cn == "Attr" and "FLOAT" in src(x, 200))
                        if not is_float_attr or len(x.args) < 2:
                            continue
                        v = x.args[-1]
                        vex = [v] + [d.value for nm in du.closure(names_in(v)) for d in du.defs.get(nm, []) if d.value is not None]
                        tainted = None
                        for ve in vex:
                            for y in ast.walk(ve):
                                if isinstance(y, ast.Attribute) and y.attr in _PAYLOAD_ATTRS:
                                    tainted = tainted or f"`.{y.attr}`"
                                if isinstance(y, ast.Call) and ((call_name(y) or "").split(".")[-1] in pay_last or _is_payload_reader_name((call_name(y) or "").split(".")[-1])):
                                    tainted = tainted or f"{(call_name(y) or '').split('.')[-1]}()"
                        if tainted:
                            guards = " ".join(src(e2, 200) for e2, _w in path_conditions(c)) + " ".join(src(e2, 200) for e2, _w in path_conditions(x))
                            if "float32" in guards:
                                continue
                            bad = (x, tainted)
                if bad is not None:
                    res.violation("R-C09g", f"{m.rel}:{bad[0].lineno}", key, f"`{src(bad[0], 60)}` stores a value read from a tensor payload ({bad[1]}) in a float attribute: float attributes are float32, so a float64 constant "
                                  f"(enable_double_precision=True) is rounded to single precision by the rewrite; no guard on the path names float32", fi.qualname)
                else:
                    res.ok("R-C09g", site, key, "no float attribute of the constructed node derives from a tensor payload", fi.qualname)
    res.analysed["pass_constructed_nodes"] = n


# ---------------------------------------------------------------------------------------------- R-C09h
# operator-mandated float32 operands and values that take no part in the data path's arithmetic — one line of reason each
FLOAT32_CONSTANT_EXEMPT = {
    ("jax2onnx/plugins/equinox/eqx/nn/dropout.py", "rate"): "Dropout `ratio` operand: inert in inference mode, never combined with the data tensor",
    ("jax2onnx/plugins/flax/nnx/dropout.py", "rate"): "Dropout `ratio` operand: inert in inference mode, never combined with the data tensor",
    ("jax2onnx/plugins/flax/nnx/dot_product_attention.py", "dropout_rate"): "Dropout `ratio` operand: inert in inference mode, never combined with the data tensor",
    ("jax2onnx/plugins/jax/image/resize.py", "scales_list"): "Upsample / Resize `scales` is tensor(float) by the operator's signature",
    ("jax2onnx/plugins/jax/random/random_bits.py", "value"): "scale of a random draw (a power of two); the result is an integer sample, not a float64 computation",
}


# confirmed with a witness (triage/witnesses/c09_float32_rounded_constants.py): the value is combined with a tensor that is DOUBLE in a double-precision export
FLOAT32_CONSTANT_CONFIRMED = {
    ("jax2onnx/plugins/jax/numpy/windows.py", "scale_val"), ("jax2onnx/plugins/jax/numpy/windows.py", "bias_val"),
    ("jax2onnx/plugins/equinox/eqx/nn/multihead_attention.py", "1.0 / math.sqrt(float(qk_size))"),
}


def rule_h(res: Results, idx: Index) -> None:
    """A lowering that computes a constant in Python (1 / sqrt(d), 0.46 / (21 / 46)) holds it in double precision; writing it
    down as `np.asarray(<expr>, dtype=np.float32)` rounds it to 24 bits before the converter's type policy widens it again, so a
    double-precision export carries a single-precision value (a hidden float32 round trip of a constant).  Inside plugin functions
    that take the lowering context, a computed (non-literal) value may be made float32 only when the dtype is chosen from the
    tensor it is combined with — not by the literal `np.float32` — or the site is listed with its reason."""
    res.rule("R-C09h", "lowerings do not round a Python-computed constant to float32 by a literal dtype (the constant's precision follows the tensor it is combined with)", floor=4)
    n = 0
    for m in idx.product_modules():
        if "/plugins/" not in m.rel or "/examples/" in m.rel:
            continue
        for fi in m.funcs.values():
            a_ = fi.node.args  # type: ignore[attr-defined]
            if "ctx" not in [x.arg for x in a_.posonlyargs + a_.args + a_.kwonlyargs]:
                continue
            for c in walk_no_nested(fi.node):
                if not isinstance(c, ast.Call) or not c.args:
                    continue
                f = src(c.func, 40)
                lit32 = lambda e: src(e, 30) in ("np.float32", "numpy.float32", "jnp.float32")
                is32 = (f in ("np.asarray", "np.array", "np.full", "numpy.asarray", "numpy.array") and any(kw.arg == "dtype" and lit32(kw.value) for kw in c.keywords)) or f in ("np.float32", "numpy.float32")
                if not is32:
                    continue
                a = c.args[1] if f == "np.full" and len(c.args) > 1 else c.args[0]
                if isinstance(a, (ast.Constant, ast.List, ast.Tuple)) or (isinstance(a, ast.UnaryOp) and isinstance(a.operand, ast.Constant)):
                    continue  # a literal written in the source: what it rounds to is what the author wrote
                n += 1
                key = f"{m.rel}::{fi.qualname}::float32-literal-dtype::{src(a, 40)}"
                site = f"{m.rel}:{c.lineno}"
                reason = FLOAT32_CONSTANT_EXEMPT.get((m.rel, src(a, 40)))
                if reason:
                    res.ok("R-C09h", site, key, f"listed: {reason}", fi.qualname)
                elif (m.rel, src(a, 40)) not in FLOAT32_CONSTANT_CONFIRMED:
                    res.unresolved("R-C09h", site, key, f"`{src(c, 70)}`: a computed value made float32 by a literal dtype; not triaged (neither listed as operator-mandated nor confirmed to reach arithmetic with a double tensor)", fi.qualname)
                else:
                    res.violation("R-C09h", site, key, f"`{src(c, 70)}` rounds a value computed in Python to float32 whatever the export's precision: in a double-precision export the constant is widened back "
                                  "with 24 significant bits (hidden single-precision round trip)", fi.qualname)
    res.analysed["float32_literal_dtype_constants"] = n
