"""C18 — the bundled validation helper is a sound oracle (structural part).

R-C18a  _run_allclose: every path to a `return True, …` passes the output-count comparison; every
        iteration of the output loop passes a shape comparison and a value comparison
        (np.allclose / np.array_equal); each failing branch returns a tuple starting with False
R-C18b  no narrowing before comparison: an operand of a value comparison is never the other operand's
        dtype cast (`x.astype(y.dtype)`) unless both are tested to be of the same kind on that path
R-C18c  allclose runs the comparison under `with _temporary_x64(...)` (pairing itself: C13 R-C13d)
R-C18d  _build_ort_inputs: every session input gets a feed entry or the function raises; left-over
        positional values raise
R-C18f  dtype classes: every iteration of the output loop passes a comparison of the dtype classes (bool / integer /
        floating) of reference and model output whose failure returns (False, …) — otherwise a model that answers
        with floats where fn returns integers is compared with a relative tolerance (1000.9 passes for 1000)
R-C18e  the model under test is loaded on every call: each `InferenceSession(…)` reachable from
        allclose / allclose_onnxruntime_web is constructed from the caller's path parameter, in a function
        that is not memoised (functools.lru_cache / cache / a cache decorator) and whose session is not
        stored in module-level state; the receiver of every `session.run(…)` derives from such a
        construction in the same call.  A session cached by path (or path+size) answers for a *stale*
        file after the model at that path has been re-exported
"""
from __future__ import annotations

import ast
from typing import List, Optional, Set

from ..callgraph import get_callgraph
from ..cfg import CFG, cfg_of
from ..flow import defuse, names_in
from ..guards import path_conditions, src
from ..index import AnalysisError, FuncInfo, Index, call_name, dotted, enclosing_stmt, parents, walk_no_nested
from ..report import Results

UI = "jax2onnx/user_interface.py"
VALUE_CMPS = {"allclose", "array_equal", "assert_allclose", "array_equiv", "isclose"}


def _returns_false_tuple(body: List[ast.stmt]) -> bool:
    for st in body:
        for r in ast.walk(st):
            if isinstance(r, ast.Return) and isinstance(r.value, ast.Tuple) and r.value.elts and isinstance(r.value.elts[0], ast.Constant) and r.value.elts[0].value is False:
                return True
    return False


def _is_true_return(r: ast.Return) -> bool:
    v = r.value
    if isinstance(v, ast.Tuple) and v.elts and isinstance(v.elts[0], ast.Constant) and v.elts[0].value is True:
        return True
    return isinstance(v, ast.Constant) and v.value is True


CACHE_DECOS = {"lru_cache", "cache", "cached", "memoize", "memoized", "cached_property", "cachedmethod"}


def _cache_deco(fn: ast.AST) -> Optional[str]:
    for d in getattr(fn, "decorator_list", []):
        t = d.func if isinstance(d, ast.Call) else d
        nm = (dotted(t) or "").split(".")[-1]
        if nm in CACHE_DECOS:
            return nm
    return None


def rule_e(res: Results, idx: Index) -> None:
    m = idx.module(UI)
    cg = get_callgraph(idx)
    roots = [idx.func(UI, "allclose"), idx.func(UI, "allclose_onnxruntime_web")]
    reach = {}
    for r in roots:
        for g in cg.reachable_from(r, depth=5):
            reach[id(g.node)] = g
    module_names = {t.id for st in m.tree.body if isinstance(st, (ast.Assign, ast.AnnAssign)) for t in (st.targets if isinstance(st, ast.Assign) else [st.target]) if isinstance(t, ast.Name)}
    n_sess = 0
    builders: Set[int] = set()
    for g in reach.values():
        du = defuse(g.node)
        for c in walk_no_nested(g.node):
            if not (isinstance(c, ast.Call) and (call_name(c) or "").split(".")[-1] == "InferenceSession"):
                continue
            n_sess += 1
            builders.add(id(g.node))
            key = f"{g.module.rel}::{g.qualname}::InferenceSession"
            site = f"{g.module.rel}:{c.lineno}"
            deco = _cache_deco(g.node)
            if deco:
                res.violation("R-C18e", site, key, f"the validation session is built inside `{g.qualname}`, which is memoised with @{deco}: a later call for the same key reuses a session of the file's earlier contents, so a re-exported model is never loaded", g.qualname)
                continue
            a = g.node.args  # type: ignore[attr-defined]
            pnames = {x.arg for x in a.posonlyargs + a.args + a.kwonlyargs}
            path_arg = c.args[0] if c.args else next((k.value for k in c.keywords if k.arg in ("path_or_bytes", "path")), None)
            if path_arg is None or not (du.closure(names_in(path_arg)) & pnames):
                res.violation("R-C18e", site, key, f"the session is not constructed from the function's model-path parameter (`{src(path_arg) if path_arg is not None else '?'}`)", g.qualname)
                continue
            st = enclosing_stmt(c)
            stored_global = False
            globs = {n for x in walk_no_nested(g.node) if isinstance(x, ast.Global) for n in x.names}
            if isinstance(st, ast.Assign):
                for t in st.targets:
                    if isinstance(t, ast.Name) and t.id in globs:
                        stored_global = True
                    if isinstance(t, ast.Subscript) and isinstance(t.value, ast.Name) and t.value.id in (module_names | globs) and not any(d.kind != 'setitem' for d in du.defs.get(t.value.id, [])):
                        stored_global = True
            # the session (or anything computed from it) is put into / taken from a module-level container anywhere in the builder
            sess_names = {t.id for t in (st.targets if isinstance(st, ast.Assign) else []) if isinstance(t, ast.Name)}
            for x in walk_no_nested(g.node):
                if isinstance(x, ast.Assign) and any(isinstance(t, ast.Subscript) and isinstance(t.value, ast.Name) and t.value.id in (module_names | globs) for t in x.targets) \
                        and (names_in(x.value) | du.closure(names_in(x.value))) & sess_names:
                    stored_global = True
                if isinstance(x, ast.Call) and isinstance(x.func, ast.Attribute) and x.func.attr in ("setdefault", "append", "update", "add", "__setitem__") and isinstance(x.func.value, ast.Name) \
                        and x.func.value.id in (module_names | globs) and any((names_in(a_) | du.closure(names_in(a_))) & sess_names for a_ in list(x.args) + [k.value for k in x.keywords]):
                    stored_global = True
                if isinstance(x, ast.Return) and x.value is not None:
                    for nm in names_in(x.value) | du.closure(names_in(x.value)):
                        for v in du.values(nm):
                            for y in ast.walk(v):
                                if (isinstance(y, ast.Call) and isinstance(y.func, ast.Attribute) and y.func.attr in ("get", "pop", "setdefault") and isinstance(y.func.value, ast.Name) and y.func.value.id in (module_names | globs)) \
                                        or (isinstance(y, ast.Subscript) and isinstance(y.value, ast.Name) and y.value.id in (module_names | globs) and isinstance(y.ctx, ast.Load)):
                                    stored_global = True
            if stored_global:
                res.violation("R-C18e", site, key, "the session is stored in module-level state and can be reused for a later call", g.qualname)
            else:
                res.ok("R-C18e", site, key, "fresh session from the path parameter, not memoised, not stored globally", g.qualname)
    res.analysed["inference_session_sites"] = n_sess
    # memoised functions on the way from the entry points (file reads behind a cache are as stale as sessions)
    for g in reach.values():
        deco = _cache_deco(g.node)
        if deco and id(g.node) not in builders:
            sub = cg.reachable_from(g, depth=4)
            reads = [x for h in sub for x in walk_no_nested(h.node) if isinstance(x, ast.Call) and (call_name(x) or "").split(".")[-1] in ("InferenceSession", "load", "load_model", "open", "read_bytes")]
            key = f"{g.module.rel}::{g.qualname}::memoised"
            if reads:
                res.violation("R-C18e", f"{g.module.rel}:{g.node.lineno}", key, f"`{g.qualname}` is memoised with @{deco} and (transitively) reads the model file: the oracle can answer for stale contents", g.qualname)
    # receivers of session.run
    for fn_name in ("_run_allclose", "allclose_onnxruntime_web"):
        f = idx.func(UI, fn_name)
        du = defuse(f.node)
        for c in walk_no_nested(f.node):
            if not (isinstance(c, ast.Call) and isinstance(c.func, ast.Attribute) and c.func.attr == "run" and isinstance(c.func.value, ast.Name)):
                continue
            recv = c.func.value.id
            if recv in ("subprocess",):
                continue
            key = f"{UI}::{fn_name}::run-receiver::{recv}"
            site = f"{UI}:{c.lineno}"
            vals = [v for v in du.values(recv) if v is not None]
            ok_direct = [v for v in vals if isinstance(v, ast.Call) and (call_name(v) or "").split(".")[-1] == "InferenceSession"]
            via = []
            for v in vals:
                if isinstance(v, ast.Call) and v not in ok_direct:
                    callee = idx.resolve_func(m, call_name(v) or "", cls=None, scope=f)
                    via.append((v, callee))
            if vals and len(ok_direct) == len(vals):
                res.ok("R-C18e", site, key, "the session that runs is the one constructed in this call", fn_name)
            elif via and all(cal is not None and id(cal.node) in builders and not _cache_deco(cal.node) for _, cal in via) and len(via) + len(ok_direct) == len(vals):
                res.ok("R-C18e", site, key, f"the session comes from `{via[0][1].qualname}`, a non-memoised builder", fn_name)
            elif via and any(cal is not None and _cache_deco(cal.node) for _, cal in via):
                cal = next(cal for _, cal in via if cal is not None and _cache_deco(cal.node))
                res.violation("R-C18e", site, key, f"`{recv}.run` uses a session returned by the memoised `{cal.qualname}`: it may have been built from an earlier version of the file", fn_name)
            else:
                def _module_lookup(v: ast.AST) -> bool:
                    for x in ast.walk(v):
                        base = x.value if isinstance(x, ast.Subscript) else (x.func.value if isinstance(x, ast.Call) and isinstance(x.func, ast.Attribute) and x.func.attr in ("get", "setdefault", "pop") else None)
                        if isinstance(base, ast.Name) and base.id in module_names and not any(d.kind != 'setitem' for d in du.defs.get(base.id, [])):
                            return True
                    return False
                if any(_module_lookup(v) for v in vals):
                    res.violation("R-C18e", site, key, f"`{recv}` is looked up in module-level state ({'; '.join(src(v, 40) for v in vals)}): the oracle may run a session kept from an earlier call", fn_name)
                else:
                    res.unresolved("R-C18e", site, key, f"provenance of `{recv}` not resolved ({'; '.join(src(v, 40) for v in vals) or 'parameter / no local definition'})", fn_name)


def run(res: Results, idx: Index, tier: str) -> None:
    res.rule("R-C18e", "every validation session is built afresh from the model path of the current call", floor=4)
    rule_e(res, idx)
    res.rule("R-C18a", "count, shape and value comparisons are on every path to a match verdict, each with a False-returning failure branch", floor=4)
    res.rule("R-C18b", "no operand of a value comparison is cast to the other operand's dtype without a same-kind test", floor=1)
    res.rule("R-C18c", "allclose compares under _temporary_x64", floor=1)
    res.rule("R-C18d", "every ORT session input is fed or the helper raises; surplus positional inputs raise", floor=2)
    res.assumptions += ["ONNX Runtime execution and the tolerance arithmetic of numpy.allclose are not decided"]
    f = idx.func(UI, "_run_allclose")
    g = cfg_of(f.node)
    du = defuse(f.node)

    true_returns = [n for n in walk_no_nested(f.node) if isinstance(n, ast.Return) and n.value is not None and _is_true_return(n)]
    if not true_returns:
        raise AnalysisError("_run_allclose has no `return True, …` (anchor changed)")
    tr_nodes = [n for r in true_returns for n in g.nodes_of(r)]

    # ---- count comparison
    count_ifs = []
    for n in walk_no_nested(f.node):
        if isinstance(n, ast.If) and isinstance(n.test, ast.Compare) and len(n.test.ops) == 1 and isinstance(n.test.ops[0], (ast.NotEq, ast.Eq)):
            l, r = n.test.left, n.test.comparators[0]
            if all(isinstance(x, ast.Call) and (call_name(x) or "") == "len" for x in (l, r)):
                count_ifs.append(n)
    key = f"{UI}::_run_allclose::count-comparison"
    ok = False
    for ci in count_ifs:
        fail_body = ci.body if isinstance(ci.test.ops[0], ast.NotEq) else ci.orelse
        edge = "F" if isinstance(ci.test.ops[0], ast.NotEq) else "T"
        if _returns_false_tuple(fail_body) and g.must_pass_edges(tr_nodes, [(n, edge) for n in g.nodes_of(ci)]):
            ok = True
            res.ok("R-C18a", f"{UI}:{ci.lineno}", key, f"`{src(ci.test)}` fails with (False, …) and is passed on every path to the match verdict", f.qualname)
    if not ok:
        res.violation("R-C18a", f"{UI}:{true_returns[0].lineno}", key, "a match verdict can be returned without comparing the number of JAX and ORT outputs (or the failing branch does not return False)", f.qualname)

    # ---- per-output loop
    loops = [n for n in walk_no_nested(f.node) if isinstance(n, ast.For) and any(isinstance(c, ast.Call) and (call_name(c) or "") == "zip" for c in ast.walk(n.iter))]
    if not loops:
        res.violation("R-C18a", f"{UI}:{f.node.lineno}", f"{UI}::_run_allclose::output-loop", "no loop over zip(JAX outputs, ORT outputs)", f.qualname)
        return
    loop = loops[0]
    # the loop must dominate the verdict
    key = f"{UI}::_run_allclose::output-loop"
    if g.must_pass_nodes(tr_nodes, g.nodes_of(loop)):
        res.ok("R-C18a", f"{UI}:{loop.lineno}", key, "the output loop is on every path to the match verdict", f.qualname)
    else:
        res.violation("R-C18a", f"{UI}:{loop.lineno}", key, "a match verdict can be returned without entering the per-output comparison loop", f.qualname)

    body_ifs = [n for st in loop.body for n in ast.walk(st) if isinstance(n, ast.If)]
    shape_ifs = [n for n in body_ifs if isinstance(n.test, ast.Compare) and all(isinstance(x, ast.Attribute) and x.attr == "shape" for x in [n.test.left, n.test.comparators[0]])
                 and isinstance(n.test.ops[0], ast.NotEq) and _returns_false_tuple(n.body)]
    cmp_ifs = []
    for n in body_ifs:
        calls = [c for c in ast.walk(n.test) if isinstance(c, ast.Call) and (call_name(c) or "").split(".")[-1] in VALUE_CMPS]
        if calls and isinstance(n.test, ast.UnaryOp) and isinstance(n.test.op, ast.Not) and _returns_false_tuple(n.body):
            cmp_ifs.append((n, calls[0]))
    loop_heads = g.nodes_of(loop)
    body_first = [n for st in loop.body[:1] for n in g.nodes_of(st)]

    def iteration_must_pass(via_edges) -> bool:
        """every path from the start of the body back to the loop head (next iteration / loop exit) takes one of via_edges"""
        r = g.reachable(body_first, removed_edges=set(via_edges))
        return not any(h in r for h in loop_heads)

    key = f"{UI}::_run_allclose::shape-comparison"
    if shape_ifs and iteration_must_pass([(n, "F") for s in shape_ifs for n in g.nodes_of(s)]):
        res.ok("R-C18a", f"{UI}:{shape_ifs[0].lineno}", key, "every iteration compares the shapes and fails with (False, …) on mismatch", f.qualname)
    else:
        res.violation("R-C18a", f"{UI}:{loop.lineno}", key, "an output can be accepted without its shape being compared (numpy broadcasting would hide a shape deviation)", f.qualname)
    # ---- R-C18f dtype classes
    res.rule("R-C18f", "the dtype classes of reference and model output are compared, with a False-returning failure branch, in every iteration", floor=1)
    key = f"{UI}::_run_allclose::dtype-class-comparison"
    class_ifs = []
    for n in body_ifs:
        if not _returns_false_tuple(n.body) or not isinstance(n.test, ast.Compare) or not isinstance(n.test.ops[0], ast.NotEq):
            continue
        sides = [n.test.left, n.test.comparators[0]]
        exprs = []
        for sd in sides:
            exprs.append([sd] + [v for nm in du.closure(names_in(sd)) for v in du.values(nm)])

        def _is_class(es) -> bool:
            for e in es:
                for x in ast.walk(e):
                    if isinstance(x, ast.Attribute) and x.attr == "kind":
                        return True
                    if isinstance(x, ast.Call) and any(t in (call_name(x) or "").lower() for t in ("dtype_class", "dtype_kind", "issubdtype", "_is_floating_dtype", "is_integer")):
                        return True
            return False
        tn0 = names_in(loop.target)
        if all(_is_class(es) for es in exprs) and all(du.derived_from(sd, tn0) for sd in sides):
            class_ifs.append(n)
    if class_ifs and iteration_must_pass([(n_, "F") for s_ in class_ifs for n_ in g.nodes_of(s_)]):
        res.ok("R-C18f", f"{UI}:{class_ifs[0].lineno}", key, "every iteration compares the dtype classes and fails with (False, …) when they differ", f.qualname)
    else:
        res.violation("R-C18f", f"{UI}:{loop.lineno}", key, "the dtype classes of reference and model output are never compared: an integer reference against a floating model output goes through the tolerance comparison, so 1000.9 is accepted for 1000 (and True for 1)", f.qualname)

    key = f"{UI}::_run_allclose::value-comparison"
    # hand-written tolerance tests: `if not (diff <= bound).all(): return False` rejects NaN (sound, if strict);
    # `if (diff > bound).any(): return False` accepts it (every ordered comparison with NaN is False)
    tnames0 = names_in(loop.target)
    hand_ok, hand_blind = [], []
    for n in body_ifs:
        if not _returns_false_tuple(n.body) or n in shape_ifs or any(n is s_ for s_, _ in cmp_ifs):
            continue
        exprs = [n.test] + [v for nm in du.closure(names_in(n.test)) for v in du.values(nm)]
        cmps = [x for e in exprs for x in ast.walk(e) if isinstance(x, ast.Compare) and len(x.ops) == 1 and isinstance(x.ops[0], (ast.Gt, ast.GtE, ast.Lt, ast.LtE))
                and du.derived_from(x.left, tnames0)]
        if not cmps:
            continue
        reducers = {(c.func.attr if isinstance(c.func, ast.Attribute) else (call_name(c) or "")).split(".")[-1] for e in exprs for c in ast.walk(e) if isinstance(c, ast.Call)}
        negated = isinstance(n.test, ast.UnaryOp) and isinstance(n.test.op, ast.Not)
        upper = isinstance(cmps[0].ops[0], (ast.Gt, ast.GtE))
        if upper and "any" in reducers and not negated:
            hand_blind.append((n, cmps[0]))
        elif not upper and "all" in reducers and negated:
            hand_ok.append((n, cmps[0]))
    all_cmp_ifs = [s_ for s_, _ in cmp_ifs] + [n for n, _ in hand_ok]
    if all_cmp_ifs and iteration_must_pass([(n, "F") for s_ in all_cmp_ifs for n in g.nodes_of(s_)]):
        res.ok("R-C18a", f"{UI}:{all_cmp_ifs[0].lineno}", key, f"every iteration passes one of {len(all_cmp_ifs)} value comparisons whose failure returns (False, …)", f.qualname)
    elif hand_blind:
        n, cm = hand_blind[0]
        res.violation("R-C18a", f"{UI}:{n.lineno}", key, f"the float outputs are compared by `{src(cm, 60)}` reduced with any(): every ordered comparison with NaN is False (and inf > inf is False), so a model output that is NaN / Inf where the reference is finite is reported as a match", f.qualname)
    elif not all_cmp_ifs and any(_returns_false_tuple(n.body) and n not in shape_ifs and du.derived_from(n.test, tnames0) for n in body_ifs if not (isinstance(n.test, ast.Compare) and any(isinstance(x, ast.Attribute) and x.attr in ("shape", "dtype") for x in ast.walk(n.test)))):
        res.unresolved("R-C18a", f"{UI}:{loop.lineno}", key, "outputs are compared by a construct the checker does not recognise (neither np.allclose / array_equal nor a reducible ordered comparison)", f.qualname)
    else:
        res.violation("R-C18a", f"{UI}:{loop.lineno}", key, "an output can be accepted without np.allclose / np.array_equal having been evaluated on it", f.qualname)
    # operands of each comparison are the loop's expected / got values
    tnames = names_in(loop.target)
    for i, (n, c) in enumerate(cmp_ifs):
        key = f"{UI}::_run_allclose::operands#{i}"
        a = [x for x in c.args[:2]]
        derived = [du.derived_from(x, tnames) for x in a]
        distinct = len(a) == 2 and ast.dump(a[0]) != ast.dump(a[1])
        if len(a) == 2 and all(derived) and distinct:
            res.ok("R-C18a", f"{UI}:{c.lineno}", key, f"`{src(c, 70)}` compares the JAX output with the ORT output", f.qualname)
        else:
            res.violation("R-C18a", f"{UI}:{c.lineno}", key, f"`{src(c, 70)}` does not compare the reference output with the model output", f.qualname)

    # ---- R-C18b
    nb = 0
    for n in walk_no_nested(f.node):
        if not (isinstance(n, ast.Call) and (call_name(n) or "").split(".")[-1] in VALUE_CMPS and len(n.args) >= 2):
            continue
        for i in (0, 1):
            other = n.args[1 - i]
            for cast_call in _astype_chain(n.args[i], du):
                nb += 1
                tgt = cast_call.args[0] if cast_call.args else None
                key = f"{UI}::_run_allclose::cast#{nb}"
                site = f"{UI}:{cast_call.lineno}"
                if tgt is None:
                    continue
                other_names = names_in(other)
                casts_to_other = isinstance(tgt, ast.Attribute) and tgt.attr == "dtype" and bool(names_in(tgt) & du.closure(other_names))
                if not casts_to_other:
                    # a common dtype computed from BOTH operands (promote_types / result_type) only widens
                    tnames = names_in(tgt) | du.closure(names_in(tgt))
                    common = any(isinstance(c_, ast.Call) and (call_name(c_) or "").split(".")[-1] in ("promote_types", "result_type") for nm_ in (names_in(tgt) or set()) for v_ in du.values(nm_) for c_ in ast.walk(v_)) \
                        or (isinstance(tgt, ast.Call) and (call_name(tgt) or "").split(".")[-1] in ("promote_types", "result_type"))
                    if common and (names_in(cast_call.func.value) & tnames) and (du.closure(other_names) | other_names) & tnames:  # type: ignore[attr-defined]
                        res.ok("R-C18b", site, key, f"`{src(cast_call, 60)}` widens to the common dtype of both operands", f.qualname)
                    else:
                        res.ok("R-C18b", site, key, f"`{src(cast_call, 60)}` is not a cast to the other operand's dtype", f.qualname)
                    continue
                # same-kind test on both operands on the path
                recv = cast_call.func.value  # type: ignore[attr-defined]
                conds = path_conditions(cast_call) + path_conditions(n)
                kinds: Set[str] = set()
                for e, want in conds:
                    if isinstance(e, ast.Call) and want and ("floating" in (call_name(e) or "").lower() or "issubdtype" in (call_name(e) or "")):
                        kinds |= names_in(e)
                both = bool(names_in(recv) & kinds) and bool(names_in(tgt) & kinds)
                if both:
                    res.violation("R-C18b", site, key, f"`{src(cast_call, 60)}` casts one comparison operand to the OTHER operand's width: when that is the narrower one a finite float64 model output overflows to inf "
                                  "(or is rounded onto the reference) before it is compared — compare in the common (wider) dtype instead", f.qualname)
                else:
                    res.violation("R-C18b", site, key, f"`{src(cast_call, 60)}` casts one comparison operand to the other's dtype without a same-kind test: a floating output compared with an integer/bool reference is truncated first, "
                                  "so a deviating model is reported as a match", f.qualname)
    if nb == 0:
        res.ok("R-C18b", f"{UI}:{f.node.lineno}", f"{UI}::_run_allclose::no-cast", "comparison operands are not cast", f.qualname)
        res.ok("R-C18b", f"{UI}:{f.node.lineno}", f"{UI}::_run_allclose::no-cast-2", "comparison operands are not cast", f.qualname)

    # ---- R-C18c
    a = idx.func(UI, "allclose")
    withs = [w for w in walk_no_nested(a.node) if isinstance(w, ast.With) and any(isinstance(it.context_expr, ast.Call) and (call_name(it.context_expr) or "") == "_temporary_x64" for it in w.items)]
    calls = [c for c in walk_no_nested(a.node) if isinstance(c, ast.Call) and (call_name(c) or "") == "_run_allclose"]
    key = f"{UI}::allclose::temporary-x64"
    if calls and all(any(p in withs for p in parents(c)) for c in calls):
        res.ok("R-C18c", f"{UI}:{calls[0].lineno}", key, "_run_allclose runs inside `with _temporary_x64(...)`", a.qualname)
    elif not calls:
        res.unresolved("R-C18c", f"{UI}:{a.node.lineno}", key, "allclose does not call _run_allclose directly", a.qualname)
    else:
        res.violation("R-C18c", f"{UI}:{calls[0].lineno}", key, "_run_allclose is called outside the scoped x64 context: the precision flag is either not set or not restored", a.qualname)

    # ---- R-C18d
    b = idx.func(UI, "_build_ort_inputs")
    gb = cfg_of(b.node)
    loops = [n for n in walk_no_nested(b.node) if isinstance(n, ast.For) and any(isinstance(c, ast.Call) and (call_name(c) or "").endswith("get_inputs") for c in ast.walk(n.iter))]
    key = f"{UI}::_build_ort_inputs::feed-every-input"
    if not loops:
        res.violation("R-C18d", f"{UI}:{b.node.lineno}", key, "no loop over session.get_inputs()", b.qualname)
    else:
        lp = loops[0]
        stores = [st for st in ast.walk(lp) if isinstance(st, ast.Assign) and any(isinstance(t, ast.Subscript) and isinstance(t.value, ast.Name) for t in st.targets)]
        first = [n for st in lp.body[:1] for n in gb.nodes_of(st)]
        heads = gb.nodes_of(lp)
        r = gb.reachable(first, removed_nodes={n for st in stores for n in gb.nodes_of(st)})
        if stores and not any(h in r for h in heads):
            res.ok("R-C18d", f"{UI}:{lp.lineno}", key, "every iteration stores a feed entry or raises", b.qualname)
        else:
            res.violation("R-C18d", f"{UI}:{lp.lineno}", key, "an ORT input can be skipped without a feed entry and without an error", b.qualname)
    key = f"{UI}::_build_ort_inputs::surplus-positional"
    raises = [n for n in walk_no_nested(b.node) if isinstance(n, ast.Raise)]
    after = [r for r in raises if loops and r.lineno > loops[0].end_lineno]
    if after:
        res.ok("R-C18d", f"{UI}:{after[0].lineno}", key, "left-over positional values raise", b.qualname)
    else:
        res.violation("R-C18d", f"{UI}:{b.node.lineno}", key, "surplus positional inputs are silently ignored", b.qualname)


def _astype_chain(e: ast.AST, du) -> List[ast.Call]:
    """`.astype(…)` calls in the expression or in the local definitions it is computed from (one level)."""
    out = [c for c in ast.walk(e) if isinstance(c, ast.Call) and isinstance(c.func, ast.Attribute) and c.func.attr == "astype"]
    if isinstance(e, ast.Name):
        for v in du.values(e.id):
            out += [c for c in ast.walk(v) if isinstance(c, ast.Call) and isinstance(c.func, ast.Attribute) and c.func.attr == "astype"]
    return out
