"""C15 — all return and file modes deliver the same model (structural part).

R-C15a  in user_interface.to_onnx no call that receives the IR model (`result`) and may mutate it is
        control-dependent on the return / export mode: the mode dispatch comes after the last mutation
        (typestate "finalised"); only conversion calls (ir.to_proto, the save helper) may follow it
R-C15b  _save_model_proto: the web branch saves with save_as_external_data=False and removes a
        pre-existing sidecar before returning; the standard branch spills to a sidecar whose location is
        derived from the destination's basename, in one file
R-C15c  standard-mode sidecar removal: an `os.remove(<sidecar>)` outside the web branch deletes the
        file the just-saved model may reference.  It must be (i) control-dependent on a test that reads the
        *saved* proto's `.external_data` — evaluated after onnx.save_model, which is what decides the
        spill — (ii) placed after the save, and (iii) restricted to an empty file unless the external_data test
        also visits nested (Loop / If body) graphs: onnx.save_model spills body-graph initializers too, so a test of
        the top-level initializers alone does not show that a non-empty sidecar is unreferenced.  A spill decision
        re-computed by the exporter itself (raw_data length vs. threshold) can disagree with onnx's and
        then deletes a referenced sidecar or keeps a stale one
"""
from __future__ import annotations

import ast
from typing import List, Optional, Set

from ..flow import defuse, names_in
from ..guards import path_conditions, src
from ..index import AnalysisError, FuncInfo, Index, call_name, dotted, enclosing_stmt, walk_no_nested
from ..report import Results

UI = "jax2onnx/user_interface.py"
MODE_NAMES = {"normalized_mode", "return_mode", "normalized_export_mode", "export_mode", "mode"}
CONVERSIONS = {"to_proto", "serialize_model", "_save_model_proto", "save_model", "SerializeToString"}


def run(res: Results, idx: Index, tier: str) -> None:
    res.rule("R-C15a", "every call that receives the IR model before delivery is independent of the return / export mode", floor=3)
    res.rule("R-C15b", "web export is one self-contained file and drops a stale sidecar; standard export names its sidecar after the destination", floor=4)
    res.assumptions += ["equality of the protective clone (return_mode='ir') with the original, bit-exact reload of spilled tensors and ORT outputs are not decided"]
    f = idx.func(UI, "to_onnx")
    du = defuse(f.node)
    # the IR model variable: assigned from to_onnx_impl(...)
    model_vars: Set[str] = set()
    for name, ds in du.defs.items():
        for d in ds:
            if d.value is not None and isinstance(d.value, ast.Call) and (call_name(d.value) or "").split(".")[-1] in ("to_onnx_impl",):
                model_vars.add(name)
    if not model_vars:
        raise AnalysisError("to_onnx: the result of to_onnx_impl is no longer bound to a local")
    n = 0
    for c in walk_no_nested(f.node):
        if not isinstance(c, ast.Call):
            continue
        argn: Set[str] = set()
        for a in list(c.args) + [k.value for k in c.keywords]:
            if isinstance(a, ast.Name):
                argn.add(a.id)
        if not (argn & model_vars):
            continue
        last = (call_name(c) or "").split(".")[-1]
        n += 1
        key = f"{UI}::to_onnx::{last}"
        site = f"{UI}:{c.lineno}"
        if last in CONVERSIONS:
            res.ok("R-C15a", site, key, "conversion / delivery call (does not feed back into the IR model)", f.qualname)
            continue
        modal = [(e, w) for e, w in path_conditions(c) if names_in(e) & MODE_NAMES]
        if modal:
            e, w = modal[0]
            res.violation("R-C15a", site, key, f"`{src(c, 50)}` receives the IR model but only runs when `{src(e)}` is {w}: the delivered models differ between return / export modes", f.qualname)
        else:
            res.ok("R-C15a", site, key, "runs for every return / export mode", f.qualname)
    res.analysed["calls_receiving_ir_model"] = n
    # mode-dependent *arguments* of the producer other than the protective clone
    for c in walk_no_nested(f.node):
        if isinstance(c, ast.Call) and (call_name(c) or "").split(".")[-1] == "to_onnx_impl":
            for k in c.keywords:
                if k.arg and (names_in(k.value) & MODE_NAMES):
                    key = f"{UI}::to_onnx::to_onnx_impl::{k.arg}"
                    if k.arg == "protective_clone":
                        res.ok("R-C15a", f"{UI}:{k.value.lineno}", key, "only the protective clone depends on the mode (a copy of the same graph)", f.qualname)
                    else:
                        res.violation("R-C15a", f"{UI}:{k.value.lineno}", key, f"conversion argument `{k.arg}` depends on the return mode (`{src(k.value)}`)", f.qualname)

    # ---------------- R-C15b
    s = idx.find_func(UI, "to_onnx.<locals>._save_model_proto") or idx.find_func(UI, "_save_model_proto")
    if s is None:
        raise AnalysisError("_save_model_proto not found")
    saves = [c for c in walk_no_nested(s.node) if isinstance(c, ast.Call) and (call_name(c) or "").split(".")[-1] == "save_model"]
    web = [c for c in saves if any(_mentions_web(e) and w for e, w in path_conditions(c))]
    std = [c for c in saves if c not in web]
    key = f"{UI}::_save_model_proto::web-single-file"
    if web and all(_kw_const(c, "save_as_external_data") is False for c in web):
        res.ok("R-C15b", f"{UI}:{web[0].lineno}", key, "web branch saves with save_as_external_data=False", s.qualname)
    else:
        res.violation("R-C15b", f"{UI}:{(web or saves or [s.node])[0].lineno}", key, "the web export branch does not force a single self-contained file (save_as_external_data=False)", s.qualname)
    key = f"{UI}::_save_model_proto::web-stale-sidecar"
    events = _removal_events(idx, s)
    removes = [c for c in events if any(_mentions_web(e) and w for e, w in c.conds)]
    du_s = defuse(s.node)
    good = [c for c in removes if c.args and du_s.derived_from(c.args[0], {"dest"}) and not any(isinstance(e, ast.Compare) and any(isinstance(x, ast.Call) and (call_name(x) or "").endswith("getsize") for x in ast.walk(e)) for e, w in c.conds)]
    if good:
        res.ok("R-C15b", f"{UI}:{good[0].lineno}", key, "a pre-existing <dest>.data sidecar is removed in web mode", s.qualname)
    else:
        res.violation("R-C15b", f"{UI}:{s.node.lineno}", key, "web mode does not remove a sidecar left by an earlier standard export to the same path", s.qualname)
    key = f"{UI}::_save_model_proto::standard-sidecar-location"
    ok = False
    for c in std:
        loc = next((k.value for k in c.keywords if k.arg == "location"), None)
        if loc is not None and du_s.derived_from(loc, {"dest"}) and any(isinstance(x, ast.Call) and (call_name(x) or "").endswith("basename") for nm in du_s.closure(names_in(loc)) for v in du_s.values(nm) for x in ast.walk(v)):
            ok = _kw_const(c, "all_tensors_to_one_file") is True and _kw_const(c, "save_as_external_data") is True
    if ok:
        res.ok("R-C15b", f"{UI}:{std[0].lineno}", key, "sidecar location = basename(dest) + suffix, one file", s.qualname)
    else:
        res.violation("R-C15b", f"{UI}:{(std or [s.node])[0].lineno}", key, "the standard export does not name a single sidecar after the destination's basename: exports to different paths in one directory would share or miss their data file", s.qualname)
    # ---------------- R-C15c
    res.rule("R-C15c", "the standard export deletes a sidecar only after the save and only when the saved model references no external data", floor=1)
    std_removes = [c for c in events if c not in removes]
    if not std and std_removes:
        raise AnalysisError("_save_model_proto: no standard save_model call found")
    for i, c in enumerate(std_removes):
        key = f"{UI}::_save_model_proto::standard-sidecar-removal#{i}"
        site = f"{UI}:{c.lineno}"
        conds = c.conds
        save_line = max(x.lineno for x in std)

        def _reads_saved_external(e: ast.AST, seen=None) -> bool:
            seen = seen or set()
            for x in ast.walk(e):
                if isinstance(x, ast.Attribute) and x.attr == "external_data" and x.lineno > save_line:
                    return True
                if isinstance(x, ast.Name) and x.id not in seen:
                    seen.add(x.id)
                    for d in du_s.defs.get(x.id, []):
                        if d.value is not None and d.stmt.lineno > save_line and _reads_saved_external(d.value, seen):
                            return True
            return False
        ext = [(e, w) for e, w in conds if _reads_saved_external(e)]
        empty = [(e, w) for e, w in conds if w and isinstance(e, ast.Compare) and any(isinstance(x, ast.Call) and (call_name(x) or "").endswith("getsize") for x in ast.walk(e)) and any(isinstance(x, ast.Constant) and x.value == 0 for x in ast.walk(e)) and all(isinstance(o, ast.Eq) for o in e.ops)]
        after = c.lineno > save_line
        # the external_data test usually looks at the top-level initializers only, while onnx.save_model also spills
        # initializers of Loop / If body graphs: unless the test visits nested graphs, only an EMPTY file is known
        # to be unreferenced
        def _visits_nested(e: ast.AST) -> bool:
            for x in ast.walk(e):
                if isinstance(x, ast.Attribute) and x.attr in ("attribute", "graphs", "g"):
                    return True
                if isinstance(x, ast.Call):
                    callee = idx.resolve_func(idx.module(UI), call_name(x) or "", scope=s)
                    if callee is not None and any(isinstance(y, ast.Attribute) and y.attr in ("attribute", "graphs", "g") for y in ast.walk(callee.node)):
                        return True
                if isinstance(x, ast.Name):
                    for d in du_s.defs.get(x.id, []):
                        if d.value is not None and d.value is not e and any(isinstance(y, ast.Attribute) and y.attr in ("attribute", "graphs", "g") for y in ast.walk(d.value)):
                            return True
            return False
        nested = any(_visits_nested(e) for e, _w in ext)
        if c.lineno < min(x.lineno for x in std):
            res.ok("R-C15c", site, key, "removal happens before the save: whatever is at the sidecar path then is stale, and the save writes what the model references", s.qualname)
        elif ext and after and (empty or nested):
            res.ok("R-C15c", site, key, "removal happens after the save, only when no initializer of the saved proto has external_data, and " + ("only for an empty file" if empty else "the test visits nested graphs"), s.qualname)
        else:
            miss = []
            if not after:
                miss.append("it runs before the save")
            if not ext:
                miss.append("it does not depend on the saved proto's external_data (the exporter's own spill estimate can disagree with onnx.save_model)")
            elif not (empty or nested):
                miss.append("the external_data test covers top-level initializers only while onnx.save_model also spills initializers of Loop/If bodies, and the removal is not restricted to an empty file: a sidecar referenced from a body graph is deleted")
            res.violation("R-C15c", site, key, "the standard export deletes the sidecar although the saved model may reference it: " + "; ".join(miss), s.qualname)
    if not std_removes:
        res.ok("R-C15c", f"{UI}:{s.node.lineno}", f"{UI}::_save_model_proto::standard-sidecar-removal", "the standard branch never deletes a sidecar", s.qualname)
    # ---------------- R-C15e
    res.rule("R-C15e", "the standard export removes an existing file at the sidecar path before saving (onnx appends to an existing external-data file)", floor=1)
    res.trusted.append("onnx.external_data_helper.save_external_data opens an existing external-data file in r+b mode and appends at its end")
    for i, sv in enumerate(std):
        key = f"{UI}::_save_model_proto::clean-sidecar-before-save#{i}"
        pre = [c for c in std_removes if c.lineno < sv.lineno and any(isinstance(a, ast.Name) and ("data" in a.id) for a in c.args)]
        if pre:
            res.ok("R-C15e", f"{UI}:{sv.lineno}", key, f"`{src(pre[0].node, 40)}` (line {pre[0].lineno}) clears the sidecar path before the save", s.qualname)
        else:
            res.violation("R-C15e", f"{UI}:{sv.lineno}", key, "nothing removes an existing sidecar before `onnx.save_model(..., save_as_external_data=True)`: onnx appends the tensors to the file a previous export to the same path "
                          "left behind, so the sidecar grows with every export and the .onnx bytes (offsets) of the same request differ from run to run", s.qualname)
    rule_d(res, idx)
    # every branch returns the destination
    key = f"{UI}::_save_model_proto::returns-dest"
    rets = [r for r in walk_no_nested(s.node) if isinstance(r, ast.Return)]
    if rets and all(isinstance(r.value, ast.Name) and r.value.id == "dest" for r in rets):
        res.ok("R-C15b", f"{UI}:{rets[0].lineno}", key, "", s.qualname)
    else:
        res.unresolved("R-C15b", f"{UI}:{s.node.lineno}", key, "return value is not the destination path", s.qualname)



class _Removal:
    """One point of _save_model_proto where a file is deleted: a direct os.remove / os.unlink call, or a call of a local helper
    whose body deletes (then the helper's own guards count as well)."""
    def __init__(self, node: ast.Call, args, conds, via: str = ""):
        self.node, self.args, self.conds, self.via = node, list(args), list(conds), via
        self.lineno = node.lineno


_REMOVERS = ("os.remove", "os.unlink", "shutil.rmtree", "os.rmdir")


def _removal_events(idx: Index, s: FuncInfo) -> List["_Removal"]:
    out: List[_Removal] = []
    for c in walk_no_nested(s.node):
        if not isinstance(c, ast.Call):
            continue
        cn = call_name(c) or ""
        if cn in _REMOVERS:
            out.append(_Removal(c, c.args, path_conditions(c)))
            continue
        g = s.nested().get(cn) if hasattr(s, "nested") and cn else None
        if g is None and cn:
            g = idx.resolve_func(idx.module(UI), cn, scope=s)
        if g is None or g is s:
            continue
        for ic in walk_no_nested(g.node):
            if isinstance(ic, ast.Call) and (call_name(ic) or "") in _REMOVERS:
                out.append(_Removal(c, ic.args, path_conditions(c) + path_conditions(ic), via=g.name))
    return out

def _mentions_web(e: ast.AST) -> bool:
    return any(isinstance(x, ast.Constant) and x.value == "web" for x in ast.walk(e))


def _kw_const(c: ast.Call, name: str):
    for k in c.keywords:
        if k.arg == name and isinstance(k.value, ast.Constant):
            return k.value.value
    return None


def rule_d(res: Results, idx: Index) -> None:
    """Mode normalisers: the dispatch sites compare the normalised mode with the literal members of the valid set
    (`mode == "web"`).  A normaliser therefore has to RETURN the very expression it tested for membership: testing
    `mode.lower()` but returning `mode` accepts "WEB" and then takes the other branch of every dispatch."""
    res.rule("R-C15d", "mode normalisers return the expression they validated against the set of valid modes", floor=2)
    m = idx.module(UI)
    n = 0
    for fi in m.funcs.values():
        if not (fi.name.startswith("_normalize_") and fi.name.endswith("_mode")):
            continue
        tests = [c for c in walk_no_nested(fi.node) if isinstance(c, ast.Compare) and len(c.ops) == 1 and isinstance(c.ops[0], (ast.NotIn, ast.In)) and isinstance(c.comparators[0], ast.Name) and c.comparators[0].id.startswith("_VALID")]
        rets = [r for r in walk_no_nested(fi.node) if isinstance(r, ast.Return) and r.value is not None]
        if not tests or not rets:
            continue
        n += 1
        key = f"{UI}::{fi.qualname}::returns-validated-value"
        tested = ast.dump(tests[0].left)
        bad = None
        for r in rets:
            v = r.value
            while isinstance(v, ast.Call) and (call_name(v) or "") in ("cast", "str") and v.args:
                v = v.args[-1]
            if ast.dump(v) != tested:
                bad = (r, v)
        if bad:
            res.violation("R-C15d", f"{UI}:{bad[0].lineno}", key, f"`{fi.name}` validates `{src(tests[0].left, 30)}` against {tests[0].comparators[0].id} but returns `{src(bad[1], 30)}`: a spelling that only passes after normalisation ('WEB') is returned as given, and the dispatch `mode == 'web'` then takes the standard branch (sidecar file, stale sidecar kept)", fi.qualname)
        else:
            res.ok("R-C15d", f"{UI}:{rets[0].lineno}", key, "returns the validated (normalised) value", fi.qualname)
    res.analysed["mode_normalisers"] = n
