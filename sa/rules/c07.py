"""C07 — ONNX function boundaries are transparent; bodies shared only when equal (structural part).

R-C07a  dedup-key completeness in FunctionPlugin._lower_and_call:
          (i)   the loop over eqn.invars appends, on every path, an entry that depends on aval.shape AND aval.dtype
          (ii)  the loop over params.items() appends to the capture list on every path through its body
          (iii) every capture payload of a *static* parameter depends on the parameter's value, not only on its type
          (iv)  FunctionKey(...) is built from the qualified name, the input signature and the capture signature
          (v)   the non-unique capture signature contains the callee identity, the unique one the captures and
                (for classes) a fingerprint of the instance state that covers every leaf / attribute value
R-C07b  function bodies keep their signature and own no initializers: C02 R-C02e (cross reference)
R-C07c  the re-entrancy flag is set / reset in a try/finally pair: C13 R-C13d (cross reference)
"""
from __future__ import annotations

import ast
from typing import Dict, List, Optional, Set

from ..cfg import cfg_of
from ..flow import defuse, names_in
from ..guards import src
from ..index import AnalysisError, FuncInfo, Index, call_name, dotted, enclosing_stmt, parents, walk_no_nested
from ..report import Results

PS = "jax2onnx/plugins/plugin_system.py"


def _loop_must_pass(g, loop: ast.For, via_stmts: List[ast.AST]) -> bool:
    """every path from the start of the loop body back to the loop head passes one of via_stmts"""
    heads = g.nodes_of(loop)
    first = [n for st in loop.body[:1] for n in g.nodes_of(st)]
    via = {n for st in via_stmts for n in g.nodes_of(st)}
    r = g.reachable(first, removed_nodes=via)
    return not any(h in r for h in heads)


def _mentions_outside_type(e: ast.AST, names: Set[str]) -> bool:
    """Does the expression use one of `names` other than as the argument of type(…)?"""
    for n in ast.walk(e):
        if isinstance(n, ast.Name) and n.id in names:
            p = getattr(n, "parent", None)
            if isinstance(p, ast.Call) and (call_name(p) or "") == "type":
                continue
            return True
    return False


def run(res: Results, idx: Index, tier: str) -> None:
    res.rule("R-C07a", "the function dedup key depends on every distinguishing field (input shapes+dtypes, every parameter's value, callee / instance state)", floor=8)
    res.assumptions += ["equality with the undecorated export, hash collisions and call-node arity are not decided"]
    f = idx.func(PS, "FunctionPlugin._lower_and_call")
    g = cfg_of(f.node)
    du = defuse(f.node)

    # ---- (i) input signature
    key = f"{PS}::FunctionPlugin._lower_and_call::input-signature"
    loops = [n for n in walk_no_nested(f.node) if isinstance(n, ast.For) and any(isinstance(x, ast.Attribute) and x.attr == "invars" for x in ast.walk(n.iter))]
    sig_loop = None
    for lp in loops:
        apps = [c for st in lp.body for c in ast.walk(st) if isinstance(c, ast.Call) and isinstance(c.func, ast.Attribute) and c.func.attr == "append"]
        mentions_aval = any(isinstance(x, ast.Constant) and x.value == "aval" or (isinstance(x, ast.Attribute) and x.attr == "aval") for st in lp.body for x in ast.walk(st))
        if apps and mentions_aval and any("sig" in (c.func.value.id if isinstance(c.func.value, ast.Name) else "") for c in apps):
            sig_loop = (lp, apps)
            break
    in_sig_names: Set[str] = set()
    if sig_loop is None:
        res.violation("R-C07a", f"{PS}:{f.node.lineno}", key, "no loop over eqn.invars fills an input signature", f.qualname)
    else:
        lp, apps = sig_loop
        in_sig_names = {c.func.value.id for c in apps if isinstance(c.func.value, ast.Name)}
        payload = apps[0].args[0] if apps[0].args else None
        dl = defuse(f.node)
        cl_vals: List[ast.AST] = []
        if payload is not None:
            # what the payload is computed from INSIDE this loop (names such as `aval` are re-bound all over the function, so the
            # function-wide closure would pull in unrelated locals of the same loop)
            todo = list(names_in(payload))
            seen_l: Set[str] = set()
            while todo:
                nm = todo.pop()
                if nm in seen_l:
                    continue
                seen_l.add(nm)
                for d in du.defs.get(nm, []):
                    if d.value is not None and any(p is lp for p in parents(d.stmt)):
                        cl_vals.append(d.value)
                        todo += list(names_in(d.value))
            cl_vals.append(payload)
        def _lossy_elt(comp: ast.AST) -> bool:
            """A per-dimension map that sends different dimensions to one constant (`... else "?"`, type names, flags)."""
            tn = {n_ for gcl in comp.generators for n_ in names_in(gcl.target)}  # type: ignore[attr-defined]
            elt = comp.elt  # type: ignore[attr-defined]
            if not (names_in(elt) & tn):
                return True
            for y in ast.walk(elt):
                if isinstance(y, ast.IfExp) and (not (names_in(y.body) & tn) or not (names_in(y.orelse) & tn)):
                    return True
                if isinstance(y, ast.Call) and (call_name(y) or "") in ("type", "isinstance", "bool", "len", "hash") and y is elt:
                    return True
                # a renaming table (`slots.setdefault(str(d), f"s{len(slots)}")`) that is created anew for every argument maps
                # symbols of DIFFERENT arguments to the same token: (B,4),(B,4) and (B,4),(N,4) get one key
                tab = None
                if isinstance(y, ast.Call) and isinstance(y.func, ast.Attribute) and y.func.attr in ("setdefault", "get") and isinstance(y.func.value, ast.Name):
                    tab = y.func.value.id
                elif isinstance(y, ast.Subscript) and isinstance(y.value, ast.Name) and y.value.id not in tn and not isinstance(y.slice, (ast.Constant, ast.Slice)):
                    tab = y.value.id
                if tab is not None and any(any(p_ is lp for p_ in parents(d.stmt)) for d in du.defs.get(tab, [])):
                    return True
                # the same through a helper: `_sig_dim(d, dim_names)` with `dim_names = {}` created inside the per-argument loop
                if isinstance(y, ast.Call):
                    for a_ in list(y.args) + [k_.value for k_ in y.keywords]:
                        if isinstance(a_, ast.Name) and a_.id not in tn:
                            for d in du.defs.get(a_.id, []):
                                if d.value is not None and any(p_ is lp for p_ in parents(d.stmt)) and (isinstance(d.value, ast.Dict) or (isinstance(d.value, ast.Call) and (call_name(d.value) or "") in ("dict", "OrderedDict", "defaultdict"))):
                                    return True
            return False

        def _unreduced(x: ast.AST) -> bool:
            child = x
            for p in parents(x):
                if isinstance(p, ast.Call) and (call_name(p) or "") in ("len", "bool", "any", "all", "sum", "max", "min", "hash") and x is not p.func:
                    return False
                if isinstance(p, ast.comprehension):
                    comp = getattr(p, "parent", None)
                    if comp is not None and hasattr(comp, "elt") and _lossy_elt(comp):
                        return False
                if isinstance(p, ast.stmt):
                    break
                child = p
            return True
        has_shape = any((isinstance(x, ast.Constant) and x.value == "shape" or (isinstance(x, ast.Attribute) and x.attr == "shape")) and _unreduced(x) for v in cl_vals for x in ast.walk(v))
        has_dtype = any(isinstance(x, ast.Constant) and x.value == "dtype" or (isinstance(x, ast.Attribute) and x.attr == "dtype") for v in cl_vals for x in ast.walk(v))
        every = _loop_must_pass(g, lp, [enclosing_stmt(c) for c in apps])
        if has_shape and has_dtype and every:
            res.ok("R-C07a", f"{PS}:{apps[0].lineno}", key, f"one `{src(payload, 40)}` per input on every path, derived from aval.shape and aval.dtype", f.qualname)
        else:
            miss = [w for w, ok in (("shape", has_shape), ("dtype", has_dtype), ("an entry for every input", every)) if not ok]
            res.violation("R-C07a", f"{PS}:{apps[0].lineno}", key, f"the input signature of the dedup key does not cover {', '.join(miss)}: call sites that differ only there share one function body", f.qualname)

    # ---- (ii)/(iii) captures
    ploops = [n for n in walk_no_nested(f.node) if isinstance(n, ast.For) and isinstance(n.iter, ast.Call) and isinstance(n.iter.func, ast.Attribute) and n.iter.func.attr == "items" and "params" in (dotted(n.iter.func.value) or "")]
    capture_names: Set[str] = set()
    if not ploops:
        res.violation("R-C07a", f"{PS}:{f.node.lineno}", f"{PS}::FunctionPlugin._lower_and_call::captures", "no loop over params.items() builds the capture signature", f.qualname)
    else:
        lp = ploops[0]
        apps = [c for st in lp.body for c in ast.walk(st) if isinstance(c, ast.Call) and isinstance(c.func, ast.Attribute) and c.func.attr == "append" and isinstance(c.func.value, ast.Name) and "capture" in c.func.value.id]
        capture_names = {c.func.value.id for c in apps}
        key = f"{PS}::FunctionPlugin._lower_and_call::capture-per-parameter"
        if apps and _loop_must_pass(g, lp, [enclosing_stmt(c) for c in apps]):
            res.ok("R-C07a", f"{PS}:{lp.lineno}", key, f"every path through the parameter loop appends to {sorted(capture_names)} ({len(apps)} append sites)", f.qualname)
        else:
            res.violation("R-C07a", f"{PS}:{lp.lineno}", key, "some parameter can pass through the loop without contributing to the capture signature", f.qualname)
        # names holding the parameter's value inside the loop
        tnames = names_in(lp.target)
        val_names = set(tnames)
        changed = True
        body_defs = [(nm, d) for nm, ds in du.defs.items() for d in ds if d.value is not None and any(p is lp for p in parents(d.stmt))]
        while changed:
            changed = False
            for nm, d in body_defs:
                if nm not in val_names and names_in(d.value) & val_names:
                    val_names.add(nm)
                    changed = True
        pname = lp.target.elts[0].id if isinstance(lp.target, ast.Tuple) and isinstance(lp.target.elts[0], ast.Name) else None
        value_names = val_names - ({pname} if pname else set())
        for i, c in enumerate(apps):
            payload = c.args[0] if c.args else None
            second = payload.elts[1] if isinstance(payload, ast.Tuple) and len(payload.elts) >= 2 else payload
            tag = None
            if isinstance(second, ast.Tuple) and second.elts and isinstance(second.elts[0], ast.Constant):
                tag = second.elts[0].value
            key = f"{PS}::FunctionPlugin._lower_and_call::capture-payload::{tag or ('call#' + str(i))}"
            if tag in ("call_input",):
                # runtime inputs: shape + dtype is the right key
                ok = second is not None and len(second.elts) >= 3
                res.add("R-C07a", "OK" if ok else "VIOLATION", f"{PS}:{c.lineno}", key, "runtime parameter: keyed by shape and dtype" if ok else "runtime parameter capture lacks shape/dtype", f.qualname)
                continue
            if second is not None and _mentions_outside_type(second, value_names):
                res.ok("R-C07a", f"{PS}:{c.lineno}", key, f"`{src(second, 60)}` depends on the parameter's value", f.qualname)
            else:
                res.violation("R-C07a", f"{PS}:{c.lineno}", key, f"capture payload `{src(second, 60) if second is not None else '?'}` does not depend on the parameter's value (only on its name/type): "
                              "two call sites with different static arguments share one function body", f.qualname)
    # nested helpers that compute payloads must use the value's content
    for hname, needles in (("_capture_const", ("tobytes", "repr", "digest")), ("_capture_dynamic_from_var", ("shape", "dtype"))):
        h = idx.find_func(PS, f"FunctionPlugin._lower_and_call.<locals>.{hname}")
        key = f"{PS}::FunctionPlugin._lower_and_call::{hname}"
        if h is None:
            res.unresolved("R-C07a", f"{PS}:{f.node.lineno}", key, "helper not found under this name", f.qualname)
            continue
        txt = ast.unparse(h.node)
        rets = [r for r in walk_no_nested(h.node) if isinstance(r, ast.Return) and r.value is not None]
        if hname == "_capture_const":
            # every definition that reaches the returned key must fingerprint the *content*: Python's own numeric hash
            # is not injective on small values (hash(-1) == hash(-2), hash(0.0) == hash(-0.0), hash(1) == hash(1.0) ==
            # hash(True)), so `hash(value)` / `hash(arr.item())` merges call sites whose static arguments differ
            hdu = defuse(h.node)
            params = {a.arg for a in h.node.args.args}
            alias = set(params)
            for nm, ds in hdu.defs.items():
                for d in ds:
                    if d.value is not None and isinstance(d.value, ast.Call) and (call_name(d.value) or "").split(".")[-1] in ("asarray", "array", "asanyarray") and d.value.args and names_in(d.value.args[0]) & params:
                        alias.add(nm)
            weak = []
            todo = [r.value for r in rets]
            seen_n: Set[str] = set()
            while todo:
                e = todo.pop()
                for x in ast.walk(e):
                    if isinstance(x, ast.Call) and (call_name(x) or "") == "hash" and x.args:
                        a0 = x.args[0]
                        if isinstance(a0, ast.Name) and a0.id in alias:
                            weak.append(x)
                        elif isinstance(a0, ast.Call) and isinstance(a0.func, ast.Attribute) and a0.func.attr == "item" and names_in(a0) & alias:
                            weak.append(x)
                    if isinstance(x, ast.Name) and x.id not in seen_n and x.id not in alias:
                        seen_n.add(x.id)
                        todo.extend(d.value for d in hdu.defs.get(x.id, []) if d.value is not None)
            if weak:
                res.violation("R-C07a", f"{PS}:{weak[0].lineno}", key + "::python-hash", f"`{src(weak[0], 40)}` keys a static argument by Python's numeric hash, which is not injective (hash(-1) == hash(-2), hash(0.0) == hash(-0.0), hash(1) == hash(1.0)): two call sites whose static arguments differ only that way share one function body with the first value baked in", h.qualname)
                continue
        if rets and all(any(nd in ast.unparse(r.value) or nd in txt for nd in needles) for r in rets) and (hname != "_capture_const" or any(nd in txt for nd in ("tobytes", "digest"))):
            res.ok("R-C07a", f"{PS}:{h.node.lineno}", key, f"fingerprint covers {', '.join(n for n in needles if n in txt)}", h.qualname)
        else:
            res.violation("R-C07a", f"{PS}:{h.node.lineno}", key, f"{hname}() no longer fingerprints the value's content ({'/'.join(needles)})", h.qualname)

    # ---- (iv) FunctionKey
    fk = [c for c in walk_no_nested(f.node) if isinstance(c, ast.Call) and (call_name(c) or "") == "FunctionKey"]
    key = f"{PS}::FunctionPlugin._lower_and_call::FunctionKey"
    if not fk:
        res.violation("R-C07a", f"{PS}:{f.node.lineno}", key, "FunctionKey is no longer constructed here", f.qualname)
    else:
        c = fk[0]
        kw = {k.arg: k.value for k in c.keywords}
        args = list(c.args)
        qn = kw.get("qualified_name") or (args[0] if args else None)
        ins = kw.get("input_sig") or (args[1] if len(args) > 1 else None)
        cap = kw.get("capture_sig") or (args[2] if len(args) > 2 else None)
        ok_q = qn is not None and any(isinstance(x, ast.Attribute) and x.attr == "name" for nm in (du.closure(names_in(qn)) | set()) for v in (du.values(nm) or []) for x in ast.walk(v)) or (qn is not None and "name" in ast.unparse(qn))
        ok_i = ins is not None and bool(du.closure(names_in(ins)) & in_sig_names)
        ok_c = cap is not None and bool(du.closure(names_in(cap)) & capture_names)
        if ok_q and ok_i and ok_c:
            res.ok("R-C07a", f"{PS}:{c.lineno}", key, "built from the qualified name, the input signature and the capture signature", f.qualname)
        else:
            miss = [w for w, ok in (("qualified name", ok_q), ("input signature", ok_i), ("capture signature", ok_c)) if not ok]
            res.violation("R-C07a", f"{PS}:{c.lineno}", key, f"FunctionKey does not include the {', '.join(miss)}", f.qualname)
        # non-unique branch carries the callee identity
        key = f"{PS}::FunctionPlugin._lower_and_call::callee-identity"
        cap_defs = [d.value for nm in names_in(cap) for d in du.defs.get(nm, []) if d.value is not None] if cap is not None else []
        nonuniq = [v for v in cap_defs if isinstance(v, ast.Tuple)]
        if nonuniq and all(any(isinstance(x, ast.Call) and (call_name(x) or "") == "id" for x in ast.walk(v)) and bool(names_in(v) & capture_names) for v in nonuniq):
            res.ok("R-C07a", f"{PS}:{nonuniq[0].lineno}", key, "default mode keys by callee identity and captures", f.qualname)
        elif nonuniq:
            res.violation("R-C07a", f"{PS}:{nonuniq[0].lineno}", key, "the default (non-unique) capture signature does not contain both the callee identity and the captures: different instances with equal kwargs share a body", f.qualname)
        else:
            res.unresolved("R-C07a", f"{PS}:{c.lineno}", key, "capture signature construction not recognised", f.qualname)

    # ---- (v) unique signature
    u = idx.func(PS, "FunctionPlugin._build_unique_signature")
    txt = ast.unparse(u.node)
    key = f"{PS}::FunctionPlugin._build_unique_signature::parts"
    need = {"captures": "capture_items" in txt, "target": "_qualified_target" in txt, "instance state": "_fingerprint_instance_state" in txt}
    if all(need.values()):
        res.ok("R-C07a", f"{PS}:{u.node.lineno}", key, "target, captures and instance-state fingerprint", u.qualname)
    else:
        res.violation("R-C07a", f"{PS}:{u.node.lineno}", key, f"the unique signature lacks {', '.join(k for k, v in need.items() if not v)}", u.qualname)
    fp = idx.func(PS, "FunctionPlugin._fingerprint_instance_state")
    gfp = cfg_of(fp.node)
    key = f"{PS}::FunctionPlugin._fingerprint_instance_state::covers-values"
    loops = [n for n in walk_no_nested(fp.node) if isinstance(n, ast.For)]
    ok = bool(loops)
    for lp in loops:
        apps = [c for st in lp.body for c in ast.walk(st) if isinstance(c, ast.Call) and isinstance(c.func, ast.Attribute) and c.func.attr == "append"]
        if not apps or not all(any(isinstance(x, ast.Call) and (call_name(x) or "").endswith("_value_fingerprint") for x in ast.walk(a)) for a in apps) or not _loop_must_pass(gfp, lp, [enclosing_stmt(a) for a in apps]):
            ok = False
    if ok:
        res.ok("R-C07a", f"{PS}:{fp.node.lineno}", key, "every leaf / attribute contributes its value fingerprint", fp.qualname)
    else:
        res.violation("R-C07a", f"{PS}:{fp.node.lineno}", key, "some instance leaf / attribute does not contribute a value fingerprint: modules with different weights share one body under unique=True", fp.qualname)
    rule_d(res, idx)
    rule_e(res, idx)
    rule_f(res, idx)
    rule_g(res, idx)
    rule_h(res, idx)
    vf = idx.func(PS, "FunctionPlugin._value_fingerprint")
    key = f"{PS}::FunctionPlugin._value_fingerprint::content"
    rets = [r for r in walk_no_nested(vf.node) if isinstance(r, ast.Return) and isinstance(r.value, ast.Tuple)]
    weak = [r for r in rets if len(r.value.elts) >= 1 and isinstance(r.value.elts[0], ast.Constant) and r.value.elts[0].value not in ("none",) and not any(
        isinstance(x, ast.Name) and x.id in ("literal", "digest", "value") or (isinstance(x, ast.Call) and (call_name(x) or "") in ("repr",)) for e in r.value.elts[1:] for x in ast.walk(e))]
    if rets and not weak:
        res.ok("R-C07a", f"{PS}:{vf.node.lineno}", key, f"{len(rets)} return forms each carry the literal, a digest of the bytes or repr(value)", vf.qualname)
    else:
        res.violation("R-C07a", f"{PS}:{(weak or [vf.node])[0].lineno}", key, f"a return form of _value_fingerprint carries no content of the value (`{src(weak[0].value) if weak else ''}`)", vf.qualname)


# ---------------------------------------------------------------------------------------------- R-C07e
ORDER_ERASING_CALLS = {"sorted", "set", "frozenset", "reversed"}


def _order_events(fn: ast.AST, name: str):
    """In-place reorderings of list `name` and order-erasing re-bindings (`name = sorted(name)`)."""
    ev = []
    for c in walk_no_nested(fn):
        if isinstance(c, ast.Call) and isinstance(c.func, ast.Attribute) and isinstance(c.func.value, ast.Name) and c.func.value.id == name and c.func.attr in ("sort", "reverse"):
            ev.append((c, f"{name}.{c.func.attr}()"))
        if isinstance(c, ast.Assign) and any(isinstance(t, ast.Name) and t.id == name for t in c.targets) and isinstance(c.value, ast.Call) \
                and (call_name(c.value) or "") in ORDER_ERASING_CALLS | {"list", "tuple"} and any(isinstance(x, ast.Call) and (call_name(x) or "") in ORDER_ERASING_CALLS for x in ast.walk(c.value)) \
                and name in names_in(c.value):
            ev.append((c, f"{name} = {src(c.value, 40)}"))
    return ev


def _erasing_use(e: ast.AST, name: str):
    """`name` consumed under sorted()/set()/frozenset()/reversed() inside expression e."""
    for x in ast.walk(e):
        if isinstance(x, ast.Call) and (call_name(x) or "") in ORDER_ERASING_CALLS and any(isinstance(y, ast.Name) and y.id == name for a in x.args for y in ast.walk(a)):
            return x
    return None


def rule_e(res: Results, idx: Index) -> None:
    """The callee's extra inputs are declared in the order of `dynamic_entries`, each call passes its operands in
    that order, and the dedup key lists `capture_items`, appended pairwise with the entries.  If the key forgets the
    order (sorted / set) or one of the two lists is reordered without the other, two calls whose keywords come in a
    different order share one body while their operands arrive permuted."""
    res.rule("R-C07e", "the dedup key keeps the order of the captured parameters, and the capture list is never reordered apart from the declared inputs", floor=2)
    f = idx.func(PS, "FunctionPlugin._lower_and_call")
    du = defuse(f.node)
    lists = {}
    for nm in ("capture_items", "dynamic_entries"):
        if nm not in du.defs:
            raise AnalysisError(f"_lower_and_call: local `{nm}` not found (anchor changed)")
        lists[nm] = _order_events(f.node, nm)
    key = f"{PS}::FunctionPlugin._lower_and_call::capture-order"
    site = f"{PS}:{f.node.lineno}"
    ce, de = lists["capture_items"], lists["dynamic_entries"]
    if ce and not de:
        res.violation("R-C07e", f"{PS}:{ce[0][0].lineno}", key, f"`{ce[0][1]}` reorders the key's capture list but not `dynamic_entries`, which fixes the order of the function's inputs and of each call's operands: calls that pass the same keywords in a different order share one body and feed it permuted operands", f.qualname)
    elif de and not ce:
        res.violation("R-C07e", f"{PS}:{de[0][0].lineno}", key, f"`{de[0][1]}` reorders the declared inputs but not the key's capture list", f.qualname)
    elif ce and de:
        res.unresolved("R-C07e", f"{PS}:{ce[0][0].lineno}", key, "both lists are reordered; whether by the same key is not decided", f.qualname)
    else:
        res.ok("R-C07e", site, key, "neither list is reordered between the parameter loop and the key", f.qualname)
    # order-erasing consumption on the way into the key
    n = 0
    for fn_q, pname in (("FunctionPlugin._lower_and_call", "capture_items"), ("FunctionPlugin._build_unique_signature", "capture_items")):
        g = idx.func(PS, fn_q)
        for st in walk_no_nested(g.node):
            if not isinstance(st, (ast.Assign, ast.AnnAssign, ast.Return, ast.Expr)):
                continue
            val = getattr(st, "value", None)
            if val is None or pname not in names_in(val):
                continue
            n += 1
            k2 = f"{PS}::{fn_q}::capture-use::{src(val, 50)}"
            x = _erasing_use(val, pname)
            if x is not None:
                res.violation("R-C07e", f"{PS}:{st.lineno}", k2, f"`{src(x, 50)}` drops the order of the captured parameters from the dedup key while the function's inputs keep the call's keyword order", fn_q)
            else:
                res.ok("R-C07e", f"{PS}:{st.lineno}", k2, "order-preserving use", fn_q)
    res.analysed["capture_list_uses"] = n


# ---------------------------------------------------------------------------------------------- R-C07d
def counter_allocators(idx: Index, mods):
    """Functions that draw an index from a keyed counter (`i = C.get(K, 0)`, `C[K] = …`) and return strings built
    with it.  Yields (fi, key names, identifier component names, site)."""
    for m in mods:
        for fi in m.funcs.values():
            du = defuse(fi.node)
            gets = []
            for n in walk_no_nested(fi.node):
                if isinstance(n, ast.Call) and isinstance(n.func, ast.Attribute) and n.func.attr == "get" and len(n.args) == 2 and isinstance(n.args[1], ast.Constant) and n.args[1].value == 0:
                    # the same mapping is written back under the same key
                    cont = dotted(n.func.value)
                    keysrc = ast.unparse(n.args[0])
                    wrote = any(isinstance(a, ast.Assign) and any(isinstance(t, ast.Subscript) and dotted(t.value) == cont and ast.unparse(t.slice) == keysrc for t in a.targets) for a in walk_no_nested(fi.node))
                    if wrote and cont:
                        gets.append(n)
            if not gets:
                continue
            for gcall in gets:
                st = enclosing_stmt(gcall)
                idx_names = set()
                if isinstance(st, ast.Assign):
                    idx_names = {t.id for t in st.targets if isinstance(t, ast.Name)}
                if not idx_names:
                    continue
                # identifier templates: f-strings that interpolate the index
                templates = [j for j in ast.walk(fi.node) if isinstance(j, ast.JoinedStr) and any(isinstance(v, ast.FormattedValue) and (names_in(v.value) & idx_names) for v in j.values)]
                if not templates:
                    continue

                def comps(e: ast.AST) -> set:
                    out = set()
                    for x in ast.walk(e):
                        if isinstance(x, ast.Attribute) and isinstance(x.value, ast.Name) and x.value.id in ("self", "cls"):
                            out.add(f"{x.value.id}.{x.attr}")
                        elif isinstance(x, ast.Name) and x.id not in ("self", "cls"):
                            out.add(x.id)
                    return out
                key_e = gcall.args[0]
                key_exprs = [key_e] + (du.values(key_e.id) if isinstance(key_e, ast.Name) else [])
                nk = set()
                for ke in key_exprs:
                    nk |= comps(ke)
                if isinstance(key_e, ast.Name):
                    nk.discard(key_e.id)
                nc = set()
                for j in templates:
                    nc |= comps(j)
                nc -= idx_names
                yield fi, nk, nc, gcall


def _constant_like(du, name: str) -> bool:
    vals = du.values(name)
    def const(e):
        return isinstance(e, ast.Constant) or (isinstance(e, ast.IfExp) and const(e.body) and const(e.orelse))
    return bool(vals) and all(const(v) for v in vals)


def rule_d(res: Results, idx: Index) -> None:
    res.rule("R-C07d", "counter-based identifier allocators key their counter by (a subset of) the components of the identifier they return: equal identifiers imply equal counter keys, hence different indices", floor=2)
    mods = [m for m in idx.product_modules() if m.rel.startswith(("jax2onnx/converter/", "jax2onnx/plugins/plugin_system.py"))]
    for fi, nk, nc, gcall in counter_allocators(idx, mods):
        du = defuse(fi.node)
        extra = sorted(k for k in nk if k not in nc and not _constant_like(du, k))
        key = f"{fi.module.rel}::{fi.qualname}::counter-key"
        site = f"{fi.module.rel}:{gcall.lineno}"
        if extra:
            res.violation("R-C07d", site, key, f"the counter is keyed by {sorted(nk)} but the identifier is built from {sorted(nc)} + index: `{', '.join(extra)}` distinguishes counters without appearing in the identifier, "
                          "so two allocations with different keys can return the same identifier (the later definition silently replaces the earlier one)", fi.qualname)
        else:
            res.ok("R-C07d", site, key, f"counter key {sorted(nk)} is determined by the identifier components {sorted(nc)}", fi.qualname)


# ---------------------------------------------------------------------------------------------- R-C07f
FORMAL_PARAM_FIELDS = {"type", "shape", "dtype"}   # what the dedup key records of a positional input (R-C07a: shape + dtype)


def rule_f(res: Results, idx: Index) -> None:
    """A function body is shared by every call site whose key is equal, and the key describes a positional input by its
    shape and element type only.  The body's formal parameters may therefore be built from exactly those facts of the
    first call site's argument: any other field of the argument value that reaches the formal parameter (its constant
    payload, its name, its metadata) — or the argument object itself used as the parameter — lets lowerings in the body
    specialise on the first site, and later sites with an equal key silently compute with the first site's data."""
    res.rule("R-C07f", "formal parameters of a function body copy only the fields of the call-site argument that the dedup key records (shape, element type)", floor=1)
    FS = "jax2onnx/converter/function_scope.py"
    f = idx.func(FS, "FunctionScope.begin")
    params = [a.arg for a in f.node.args.args if a.arg != "self"]
    if not params:
        raise AnalysisError("FunctionScope.begin has no inputs parameter")
    loops = [st for st in walk_no_nested(f.node) if isinstance(st, ast.For) and any(isinstance(n, ast.Name) and n.id == params[0] for n in ast.walk(st.iter))]
    if not loops:
        raise AnalysisError("FunctionScope.begin no longer iterates over its inputs")
    n = 0
    for lp in loops:
        tnames = {x.id for x in ast.walk(lp.target) if isinstance(x, ast.Name)}
        # the element variable: the target name that is not the enumerate index
        elem = set(tnames)
        if isinstance(lp.iter, ast.Call) and (call_name(lp.iter) or "") == "enumerate" and isinstance(lp.target, ast.Tuple) and lp.target.elts and isinstance(lp.target.elts[0], ast.Name):
            elem.discard(lp.target.elts[0].id)
        for ev in sorted(elem):
            n += 1
            key = f"{FS}::FunctionScope.begin::formal-from::{ev}"
            bad = None
            logged = {id(y) for c in ast.walk(lp) if isinstance(c, ast.Call) and src(c.func, 200).split(".")[0].split("(")[0] in ("logger", "logging", "_logger", "LOGGER", "warnings") for y in ast.walk(c)}
            for x in ast.walk(lp):
                if id(x) in logged:
                    continue
                if isinstance(x, ast.Attribute) and isinstance(x.value, ast.Name) and x.value.id == ev and isinstance(x.ctx, ast.Load) and x.attr not in FORMAL_PARAM_FIELDS:
                    bad = (x, f"reads `{ev}.{x.attr}`")
                    break
                if isinstance(x, ast.Call):
                    cn = call_name(x) or ""
                    whole = [a for a in list(x.args) + [k.value for k in x.keywords] if isinstance(a, ast.Name) and a.id == ev]
                    if whole and cn not in ("isinstance", "id", "type", "len"):
                        bad = (x, f"passes the call-site argument `{ev}` itself to `{cn or src(x.func, 30)}(…)`")
                        break
                if isinstance(x, ast.Assign) and isinstance(x.value, ast.Name) and x.value.id == ev:
                    bad = (x, f"aliases the call-site argument `{ev}`")
                    break
            if bad is not None:
                res.violation("R-C07f", f"{FS}:{bad[0].lineno}", key, f"FunctionScope.begin {bad[1]} while building the formal parameter: the dedup key records only shape and element type of a positional "
                              f"input, so call sites with an equal key would share a body specialised on the first site's argument", f.qualname)
            else:
                got = sorted({x.attr for x in ast.walk(lp) if isinstance(x, ast.Attribute) and isinstance(x.value, ast.Name) and x.value.id == ev})
                res.ok("R-C07f", f"{FS}:{lp.lineno}", key, f"formal parameter built from {got} of the argument only", f.qualname)
    res.analysed["formal_parameter_loops"] = n


# ---------------------------------------------------------------------------------------------- R-C07g
def rule_g(res: Results, idx: Index) -> None:
    """The body of an @onnx_function is re-traced from specifications built out of the call site's avals (once for the
    abstract evaluation, once for the body lowering).  A Python scalar argument (`f(x_f16, 2.0)`) is a WEAKLY typed
    float32 at the call site; a specification that copies shape and dtype but not `weak_type` re-traces the body with a
    strong float32 and the function returns float32 where the undecorated callable (and JAX) return float16.  Every
    `jax.ShapeDtypeStruct(...)` the function plugin builds from an aval must pass that aval's weak_type."""
    res.rule("R-C07g", "specifications the function plugin re-traces a body with carry the weak_type of the aval they are built from", floor=3)
    n = 0
    m = idx.module(PS)
    for fi in m.funcs.values():
        if not (fi.qualname.startswith("FunctionPlugin.") or ".FunctionPlugin." in fi.qualname):
            continue
        for c in walk_no_nested(fi.node):
            if not (isinstance(c, ast.Call) and (call_name(c) or "").endswith("ShapeDtypeStruct") and len(c.args) >= 2):
                continue
            du = defuse(fi.node)

            def dtype_sources(e: ast.AST, line: int, depth: int = 0) -> List[ast.AST]:
                # the dtype expression and, for names, the bindings that reach this line (every binding before it that is
                # not overwritten unconditionally is approximated by: all bindings between the last two distinct ones)
                out = [e]
                if depth > 3:
                    return out
                for x in ast.walk(e):
                    if isinstance(x, ast.Name):
                        ds = [d for d in du.defs.get(x.id, []) if d.value is not None and getattr(d.stmt, "lineno", 0) < line]
                        if ds:
                            last = max(getattr(d.stmt, "lineno", 0) for d in ds)
                            # bindings in sibling branches of one if/else sit close together: take those within the same enclosing If as the last one
                            lastd = next(d for d in ds if getattr(d.stmt, "lineno", 0) == last)
                            anc = [p_ for p_ in parents(lastd.stmt) if isinstance(p_, ast.If)]
                            grp = [d for d in ds if d is lastd or (anc and any(anc[0] is q for q in parents(d.stmt)))]
                            for d in grp:
                                out += dtype_sources(d.value, getattr(d.stmt, "lineno", 0), depth + 1)
                return out
            srcs = dtype_sources(c.args[1], c.lineno)
            from_aval = any((isinstance(x, ast.Name) and "aval" in x.id.lower()) or (isinstance(x, ast.Attribute) and x.attr == "dtype" and isinstance(x.value, ast.Name) and x.value.id in ("arg", "a", "av", "aval"))
                            for e in srcs for x in ast.walk(e))
            if not from_aval:
                continue
            n += 1
            key = f"{PS}::{fi.qualname}::spec#{sum(1 for x in walk_no_nested(fi.node) if isinstance(x, ast.Call) and (call_name(x) or '').endswith('ShapeDtypeStruct') and x.lineno < c.lineno)}"
            site = f"{PS}:{c.lineno}"
            wk = next((k.value for k in c.keywords if k.arg == "weak_type"), None)
            if wk is None:
                res.violation("R-C07g", site, key, f"`{src(c, 70)}` copies shape and dtype of the call-site aval but not its weak_type: a Python scalar argument is re-traced as a strong float32 / int32, "
                              "so the function's result dtype differs from the undecorated callable's (f(x_f16, 2.0): float32 instead of float16)", fi.qualname)
            elif isinstance(wk, ast.Constant):
                res.violation("R-C07g", site, key, f"weak_type is the constant {wk.value!r}, not the aval's", fi.qualname)
            else:
                res.ok("R-C07g", site, key, f"weak_type=`{src(wk, 50)}`", fi.qualname)
    res.analysed["function_plugin_specs"] = n
    # the other direction: whatever the body specifications copy from the aval distinguishes bodies, so the dedup key's input
    # signature has to record it too (weak_type in the spec but not in the key: f(x, 2.0) and f(x, float32(2.0)) share a body)
    f = idx.func(PS, "FunctionPlugin._lower_and_call")
    du = defuse(f.node)

    def aval_fields(e: ast.AST, depth: int = 0) -> Set[str]:
        out: Set[str] = set()
        for x in ast.walk(e):
            if isinstance(x, ast.Call) and (call_name(x) or "") == "getattr" and len(x.args) >= 2 and isinstance(x.args[1], ast.Constant) and "aval" in src(x.args[0], 40):
                out.add(x.args[1].value)
            elif isinstance(x, ast.Attribute) and isinstance(x.value, ast.Name) and "aval" in x.value.id and isinstance(x.ctx, ast.Load):
                out.add(x.attr)
            elif isinstance(x, ast.Name) and depth < 3:
                for d in du.defs.get(x.id, []):
                    if d.value is not None and d.kind in ("assign", "walrus") and abs(getattr(d.stmt, "lineno", 0) - getattr(x, "lineno", 0)) < 40:
                        out |= aval_fields(d.value, depth + 1)
        return out
    apps = [c for c in walk_no_nested(f.node) if isinstance(c, ast.Call) and isinstance(c.func, ast.Attribute) and c.func.attr == "append" and isinstance(c.func.value, ast.Name) and c.func.value.id == "in_sigs" and c.args]
    key = f"{PS}::FunctionPlugin._lower_and_call::input-signature-fields"
    if not apps:
        res.unresolved("R-C07g", f.site, key, "`in_sigs.append(...)` not found (key construction restructured)", f.qualname)
    else:
        key_fields = aval_fields(apps[0].args[0])
        spec_fields: Set[str] = set()
        for c in walk_no_nested(f.node):
            if isinstance(c, ast.Call) and (call_name(c) or "").endswith("ShapeDtypeStruct") and any("aval" in src(a_, 60) for a_ in list(c.args) + [k.value for k in c.keywords]):
                for a_ in list(c.args) + [k.value for k in c.keywords]:
                    spec_fields |= {fl for fl in aval_fields(a_) if fl in ("shape", "dtype", "weak_type", "sharding")}
        missing = sorted(spec_fields - key_fields)
        if missing:
            res.violation("R-C07g", f"{PS}:{apps[0].lineno}", key, f"the body is re-traced from the avals' {sorted(spec_fields)} but the dedup key's input signature records only {sorted(key_fields)}: two call sites that differ in "
                          f"{missing} (a Python scalar and a float32 scalar of the same value) share one function body and one of them gets the other's result type", f.qualname)
        else:
            res.ok("R-C07g", f"{PS}:{apps[0].lineno}", key, f"input signature records {sorted(key_fields)}, specs use {sorted(spec_fields)}", f.qualname)


# ---------------------------------------------------------------------------------------------- R-C07h
def rule_h(res: Results, idx: Index) -> None:
    """`input_params` are traced as constants and become named graph inputs.  A keyword argument of an @onnx_function call is
    connected to such a graph input when its NAME is a parameter name.  The name alone does not say that the value IS the
    parameter: `blk(x, scale=scale + 1.0)` passes 3.0 under the name `scale`.  The branch that wires a keyword to the graph
    input by name (`force_external`) must also compare the passed value with the declared parameter value."""
    res.rule("R-C07h", "a keyword is wired to an input_params graph input only when its value is the parameter itself, not merely because of its name", floor=1)
    f = idx.func(PS, "FunctionPlugin._lower_and_call")
    key = f"{PS}::FunctionPlugin._lower_and_call::call-param-by-name"
    branches = [st for st in walk_no_nested(f.node) if isinstance(st, ast.If) and any(isinstance(c, ast.Compare) and isinstance(c.ops[0], ast.In) and "call_param_names" in src(c.comparators[0], 40) for c in ast.walk(st.test))
                and any(isinstance(k, ast.Constant) and k.value == "force_external" for b in st.body for k in ast.walk(b))]
    if not branches:
        res.unresolved("R-C07h", f.site, key, "the branch that wires a keyword to a call-parameter input by name was not found", f.qualname)
        return
    for st in branches:
        pn = next((c.left.id for c in ast.walk(st.test) if isinstance(c, ast.Compare) and isinstance(c.ops[0], ast.In) and isinstance(c.left, ast.Name) and "call_param_names" in src(c.comparators[0], 40)), None)
        value_checked = None
        for c in ast.walk(st.test):
            if isinstance(c, ast.Call) and pn and any(isinstance(a, ast.Name) and a.id == pn for a in c.args) and any(isinstance(a, ast.Name) and a.id != pn and a.id not in ("ctx", "self") for a in c.args):
                value_checked = c
            if isinstance(c, ast.Compare) and any("literal" in src(x, 60) for x in [c.left] + list(c.comparators)):
                value_checked = c
        if value_checked is not None:
            res.ok("R-C07h", f"{PS}:{st.lineno}", key, f"the by-name wiring is taken only when `{src(value_checked, 60)}` holds for the passed value", f.qualname)
        else:
            res.violation("R-C07h", f"{PS}:{st.lineno}", key, f"`{src(st.test, 60)}` connects the keyword to the graph input because of its name alone: a derived value passed under a parameter's name "
                          "(`scale=scale + 1.0`) is replaced by the parameter itself and the model computes with the wrong value", f.qualname)
