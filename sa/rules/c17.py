"""C17 — cast elimination removes only value-preserving round trips.

R-C17a  the literal float-format table agrees with the IEEE/bfloat16 reference (informational:
        a deviation is a violation only through R-C17b)
R-C17b  finite-domain abstract evaluation of `_cast_roundtrip_is_value_preserving` (its expression
        trees, helper predicates and tables) over every (source, intermediate) pair of element types:
        whenever the decision is True, the independent reference inclusion relation must hold
R-C17c  the range proof `_cast_roundtrip_known_values_fit` returns True only when the known value
        interval lies inside the intermediate type's range (boundary enumeration)
R-C17d  in remove_redundant_casts_ir every mutation of the Cast->Cast fold is dominated by
        `next_target == src_dtype` and by the decision (or the range proof) called with
        (source dtype, first cast target) in that order; identity-cast removal only when
        `src_dtype != target_code` is false
"""
from __future__ import annotations

import ast
from typing import Dict, List, Optional, Tuple

from ..flow import defuse, names_in
from ..guards import path_conditions, src
from ..index import AnalysisError, Index, call_name, dotted, fold_const, is_const, walk_no_nested
from ..report import Results
from ..symeval import DT, EvalRaise, Evaluator, Unsupported, library_dtypes

OPT = "jax2onnx/converter/ir_optimizations.py"

# (precision bits incl. hidden bit, exponent of the smallest subnormal, exponent of the largest binade)
IEEE = {
    "FLOAT16": (11, -24, 15),      # IEEE 754 binary16
    "BFLOAT16": (8, -133, 127),    # bfloat16: 8-bit significand, float32 exponent range
    "FLOAT": (24, -149, 127),      # IEEE 754 binary32
    "DOUBLE": (53, -1074, 1023),   # IEEE 754 binary64
}
COMPLEX = {"COMPLEX64": "FLOAT", "COMPLEX128": "DOUBLE"}


def _float_has(fmt: Tuple[int, int, int], m: int, q: int) -> bool:
    """Is m * 2**q (m >= 0 integer) a finite value of the format?"""
    p, emin, emax = fmt
    if m == 0:
        return True
    while m % 2 == 0:
        m //= 2
        q += 1
    return m.bit_length() <= p and q >= emin and (m.bit_length() + q - 1) <= emax


def _float_subset(s: Tuple[int, int, int], t: Tuple[int, int, int]) -> bool:
    p, emin, emax = s
    gens = []
    for m in (1, (1 << p) - 1, 1 << (p - 1), (1 << (p - 1)) + 1):
        for q in (emin, emin + 1, emax - (p - 1), emax - p):
            if _float_has(s, m, q):
                gens.append((m, q))
    return all(_float_has(t, m, q) for m, q in gens)


def _int_range(signed: bool, bits: int) -> Tuple[int, int]:
    return (-(1 << (bits - 1)), (1 << (bits - 1)) - 1) if signed else (0, (1 << bits) - 1)


def _int_in_float(signed: bool, bits: int, t: Tuple[int, int, int]) -> bool:
    lo, hi = _int_range(signed, bits)
    cands = {lo, hi, lo + 1, hi - 1}
    for k in range(bits + 1):
        for v in ((1 << k) - 1, 1 << k, (1 << k) + 1, -(1 << k), -(1 << k) + 1, -(1 << k) - 1):
            if lo <= v <= hi:
                cands.add(v)
    return all(_float_has(t, abs(v), 0) for v in cands)


# Low-bit float formats (ONNX operator spec, "Float stored in 8 bits" / "4 bit types"):
#   name: (sign bits, exponent bits, mantissa bits, exponent bias, has_inf, nan_patterns, has_negative_zero, has_zero)
# nan_patterns: "ieee" (all-ones exponent, mantissa != 0), "fn" (all-ones exponent and all-ones mantissa),
#               "fnuz" (only the negative-zero pattern), "e8m0" (0xFF), None
LOWBIT = {
    "FLOAT8E4M3FN": (1, 4, 3, 7, False, "fn", True, True),
    "FLOAT8E4M3FNUZ": (1, 4, 3, 8, False, "fnuz", False, True),
    "FLOAT8E5M2": (1, 5, 2, 15, True, "ieee", True, True),
    "FLOAT8E5M2FNUZ": (1, 5, 2, 16, False, "fnuz", False, True),
    "FLOAT4E2M1": (1, 2, 1, 1, False, None, True, True),
    "FLOAT8E8M0": (0, 8, 0, 127, False, "e8m0", False, False),
}
_LOWBIT_CACHE: Dict[str, set] = {}


def lowbit_values(name: str) -> set:
    """All finite values of a low-bit float format, as exact Fractions (enumerated from the bit layout)."""
    if name in _LOWBIT_CACHE:
        return _LOWBIT_CACHE[name]
    from fractions import Fraction
    sb, eb, mb, bias, has_inf, nan, _nz, _z = LOWBIT[name]
    vals = set()
    emax_code = (1 << eb) - 1
    for sign in range(1 << sb):
        for e in range(1 << eb):
            for m in range(1 << mb):
                if name == "FLOAT8E8M0":
                    if e == 0xFF:
                        continue
                    vals.add(Fraction(2) ** (e - bias))
                    continue
                if nan == "ieee" and e == emax_code:
                    continue  # inf / nan
                if nan == "fn" and e == emax_code and m == (1 << mb) - 1:
                    continue
                if nan == "fnuz" and sign == 1 and e == 0 and m == 0:
                    continue
                if e == 0:
                    v = Fraction(m, 1 << mb) * Fraction(2) ** (1 - bias)
                else:
                    v = (1 + Fraction(m, 1 << mb)) * Fraction(2) ** (e - bias)
                vals.add(-v if sign else v)
    _LOWBIT_CACHE[name] = vals
    return vals


def _frac_in_float(fmt: Tuple[int, int, int], v) -> bool:
    v = abs(v)
    if v == 0:
        return True
    num, den = v.numerator, v.denominator
    if den & (den - 1):
        return False
    return _float_has(fmt, num, -(den.bit_length() - 1))


def reference_preserving(s: DT, u: DT) -> Optional[bool]:
    """Does T -> U -> T preserve every value of T?  None = outside the reference (unknown)."""
    from fractions import Fraction

    def fmt(d: DT) -> Optional[Tuple[int, int, int]]:
        if d.name in IEEE:
            return IEEE[d.name]
        if d.name in COMPLEX:
            return IEEE[COMPLEX[d.name]]
        return None
    if s == u:
        return True
    known = lambda d: d.integer or d.name in IEEE or d.name in COMPLEX or d.name == "BOOL" or d.name in LOWBIT
    if not known(s) or not known(u):
        return None
    if u.name in LOWBIT:
        U = lowbit_values(u.name)
        _sb, _eb, _mb, _bias, u_inf, u_nan, u_negzero, u_zero = LOWBIT[u.name]
        if s.name == "BOOL":
            return Fraction(0) in U and Fraction(1) in U
        if s.integer:
            lo, hi = _int_range(s.signed, s.bits)  # type: ignore[arg-type]
            if hi - lo <= 4096:
                return all(Fraction(v) in U for v in range(lo, hi + 1))
            return all(Fraction(v) in U for v in (lo, hi, 0, 1, hi - 1))
        if s.name in LOWBIT:
            S = lowbit_values(s.name)
            _1, _2, _3, _4, s_inf, s_nan, s_negzero, _z = LOWBIT[s.name]
            return S <= U and (not s_inf or u_inf) and (not s_nan or bool(u_nan)) and (not s_negzero or u_negzero)
        # standard float / complex sources: far more values than any 8-bit format
        return False
    if s.name in LOWBIT:
        S = lowbit_values(s.name)
        _1, _2, _3, _4, s_inf, s_nan, s_negzero, _z = LOWBIT[s.name]
        if u.name == "BOOL" or u.integer:
            return False  # fractions / NaN / negative zero have no integer image (every low-bit format has one of them)
        f = fmt(u)
        return f is not None and all(_frac_in_float(f, v) for v in S)  # standard formats have inf, nan and -0
    if s.name == "BOOL":
        return u.name != "BOOL"  # 0/1 exist in every integer (>=2 bits signed, >=1 unsigned) and standard float type
    if u.name == "BOOL":
        return False
    if s.integer:
        if u.integer:
            a, b = _int_range(s.signed, s.bits), _int_range(u.signed, u.bits)  # type: ignore[arg-type]
            return b[0] <= a[0] and a[1] <= b[1]
        f = fmt(u)
        return f is not None and _int_in_float(s.signed, s.bits, f)  # type: ignore[arg-type]
    if s.name in IEEE:
        if u.integer:
            return False
        f = fmt(u)
        return f is not None and _float_subset(IEEE[s.name], f)
    if s.name in COMPLEX:
        if u.name in COMPLEX:
            return _float_subset(IEEE[COMPLEX[s.name]], IEEE[COMPLEX[u.name]])
        return False  # the imaginary part is dropped
    return None


def run(res: Results, idx: Index, tier: str) -> None:
    m = idx.module(OPT)
    res.rule("R-C17a", "literal float-format table equals the IEEE-754 / bfloat16 reference parameters", floor=4)
    res.rule("R-C17b", "decision(source, intermediate) == True implies the reference inclusion relation, for every pair of onnx_ir element types (finite-domain abstract evaluation)", floor=400)
    res.rule("R-C17c", "range proof returns True only if the known value interval fits the intermediate integer type (boundary enumeration per type pair)", floor=50)
    res.rule("R-C17d", "Cast->Cast fold mutations are dominated by next_target == src_dtype and by decision/range-proof on (src dtype, first target); identity removal only when dtypes are equal", floor=3)
    res.trusted += ["onnx_ir.DataType member facts (is_integer / is_signed / bitwidth) of the installed onnx_ir", "IEEE-754 / bfloat16 format parameters (frozen table in sa/rules/c17.py)"]
    res.assumptions += ["ONNX Cast is exact whenever the source value is representable in the target type (integers wrap/saturate and floats round otherwise)",
                        "NaN payload bits and STRING/UNDEFINED are outside the reference: a True decision on them is UNRESOLVED; low-bit float formats (float8 / float4 / e8m0) are decided from value sets enumerated from their bit layouts, with negative zero, inf and NaN availability compared as flags"]

    dts = library_dtypes()
    # ---------------- R-C17a
    ff = idx.func(OPT, "_standard_float_format")
    table = None
    for n in ast.walk(ff.node):
        if isinstance(n, ast.Dict):
            table = n
            break
    if table is None:
        raise AnalysisError("_standard_float_format no longer holds a literal table")
    for k, v in zip(table.keys, table.values):
        name = (dotted(k) or "?").split(".")[-1]
        val = fold_const(v, m.consts)
        site = f"{OPT}:{k.lineno}"
        key = f"_standard_float_format::{name}"
        if name in IEEE and is_const(val) and tuple(val) == IEEE[name]:
            res.ok("R-C17a", site, key, f"{name} = {val}", ff.qualname)
        elif name in IEEE:
            res.unresolved("R-C17a", site, key, f"{name} = {val if is_const(val) else '<non-constant>'} differs from reference {IEEE[name]}; decided through R-C17b", ff.qualname)
        else:
            res.unresolved("R-C17a", site, key, f"{name}: no reference format in the checker; a True decision involving it is UNRESOLVED in R-C17b", ff.qualname)

    # ---------------- R-C17b
    dec = idx.func(OPT, "_cast_roundtrip_is_value_preserving")
    ev = Evaluator(idx, dts)
    unsupported: Optional[str] = None
    n_true = 0
    members = sorted(dts.values(), key=lambda d: d.code)
    for s in members:
        for u in members:
            key = f"decision::{s.name}->{u.name}->{s.name}"
            site = f"{OPT}:{dec.node.lineno}"
            try:
                r = ev.call(dec, [s.code, u.code])
            except Unsupported as e:
                unsupported = str(e)
                break
            except EvalRaise as e:
                res.unresolved("R-C17b", site, key, f"decision raises {e.name} on this pair", dec.qualname)
                continue
            if not ev.truth(r):
                res.ok("R-C17b", site, key, "decision False (cast pair kept)", dec.qualname)
                continue
            n_true += 1
            ref = reference_preserving(s, u)
            if ref is True:
                res.ok("R-C17b", site, key, "decision True and reference inclusion holds", dec.qualname)
            elif ref is False:
                res.violation("R-C17b", site, key, f"decision procedure accepts {s.name} -> {u.name} -> {s.name} but some {s.name} value does not survive the round trip (reference inclusion fails)", dec.qualname)
            else:
                res.unresolved("R-C17b", site, key, "decision True on a type outside the checker's reference formats", dec.qualname)
        if unsupported:
            break
    if unsupported:
        res.unresolved("R-C17b", f"{OPT}:{dec.node.lineno}", "decision::<evaluator>", f"decision procedure uses a construct outside the evaluator's subset: {unsupported}", dec.qualname)
        res.floors["R-C17b"] = 1
    else:
        # out-of-enum codes must be rejected
        for code in (-1, 99, 1000):
            try:
                r = ev.call(dec, [code, 1])
                r2 = ev.call(dec, [1, code])
            except (Unsupported, EvalRaise):
                continue
            key = f"decision::code{code}"
            if ev.truth(r) or ev.truth(r2):
                res.violation("R-C17b", f"{OPT}:{dec.node.lineno}", key, f"unknown element-type code {code} is accepted as value preserving", dec.qualname)
            else:
                res.ok("R-C17b", f"{OPT}:{dec.node.lineno}", key, "unknown code rejected", dec.qualname)
    res.analysed["decision_true_pairs"] = n_true
    res.analysed["element_types"] = len(members)
    res.analysed["evaluator_steps"] = ev.steps

    # ---------------- R-C17c
    fit = idx.func(OPT, "_cast_roundtrip_known_values_fit")
    ints = [d for d in members if d.integer]
    try:
        for s in ints:
            for u in ints:
                lo, hi = _int_range(u.signed, u.bits)  # type: ignore[arg-type]
                cases = [(lo, hi), (lo - 1, hi), (lo, hi + 1), (0, 0), (lo, lo), (hi, hi), (hi + 1, hi + 1), (lo - 1, lo - 1), (5, 3), (lo - 5, hi + 5)]
                bad = None
                for vmin, vmax in cases:
                    ev2 = Evaluator(idx, dts, stubs={"_known_integer_value_bounds": (lambda nodes, source, _b=(vmin, vmax): _b)})
                    r = ev2.call(fit, [None, None, s.code, u.code])
                    empty = vmin > vmax
                    inside = lo <= vmin and vmax <= hi
                    if ev2.truth(r) and not (empty or inside):
                        bad = (vmin, vmax)
                        break
                key = f"range-proof::{s.name}->{u.name}"
                if bad:
                    res.violation("R-C17c", f"{OPT}:{fit.node.lineno}", key, f"known values {bad} are accepted although they do not fit {u.name} [{lo},{hi}]", fit.qualname)
                else:
                    res.ok("R-C17c", f"{OPT}:{fit.node.lineno}", key, f"{len(cases)} boundary intervals", fit.qualname)
        # non-integer types must never be accepted by the range proof
        for d in members:
            if d.integer:
                continue
            ev2 = Evaluator(idx, dts, stubs={"_known_integer_value_bounds": (lambda nodes, source: (0, 0))})
            try:
                r1 = ev2.call(fit, [None, None, d.code, dts["INT64"].code])
                r2 = ev2.call(fit, [None, None, dts["INT64"].code, d.code])
            except EvalRaise:
                continue
            key = f"range-proof::non-integer::{d.name}"
            if ev2.truth(r1) or ev2.truth(r2):
                res.violation("R-C17c", f"{OPT}:{fit.node.lineno}", key, f"range proof accepts the non-integer type {d.name}", fit.qualname)
            else:
                res.ok("R-C17c", f"{OPT}:{fit.node.lineno}", key, "", fit.qualname)
    except Unsupported as e:
        res.unresolved("R-C17c", f"{OPT}:{fit.node.lineno}", "range-proof::<evaluator>", f"outside the evaluator's subset: {e}", fit.qualname)
        res.floors["R-C17c"] = 1

    # ---------------- R-C17d
    _rule_d(res, idx)

    # ---------------- R-C17e  (range proof ingredients)
    _rule_e(res, idx, m, dts, tier)
    _rule_f(res, idx, tier)

    # positive control: a permissive predicate must be caught by the reference
    res.control("R-C17b", "reference rejects INT32->FLOAT->INT32, FLOAT->FLOAT16->FLOAT, INT64->DOUBLE->INT64, UINT8->INT8->UINT8, DOUBLE->COMPLEX64",
                reference_preserving(dts["INT32"], dts["FLOAT"]) is False and reference_preserving(dts["FLOAT"], dts["FLOAT16"]) is False
                and reference_preserving(dts["INT64"], dts["DOUBLE"]) is False and reference_preserving(dts["UINT8"], dts["INT8"]) is False
                and reference_preserving(dts["DOUBLE"], dts["COMPLEX64"]) is False
                and reference_preserving(dts["INT16"], dts["FLOAT"]) is True and reference_preserving(dts["FLOAT16"], dts["FLOAT"]) is True
                and reference_preserving(dts["BFLOAT16"], dts["FLOAT16"]) is False and reference_preserving(dts["FLOAT16"], dts["BFLOAT16"]) is False)
    lb = _lowbit_control(dts)
    res.control("R-C17b", "low-bit float reference: value sets enumerated from the bit layouts equal ml_dtypes' (when importable); BOOL->FLOAT8E8M0 (no zero) and FLOAT16->FLOAT8E5M2 rejected, FLOAT8E5M2->FLOAT16, FLOAT8E4M3FN->FLOAT16, UINT4->FLOAT8E4M3FN, BOOL->FLOAT4E2M1 accepted", lb[0], lb[1])


# ops whose output elements are all elements of their first input (so integer bounds carry over)
VALUE_SET_PRESERVING = {
    "Identity", "Reshape", "Flatten", "Squeeze", "Unsqueeze", "Transpose", "Expand", "Tile", "Slice",
    "DepthToSpace", "SpaceToDepth", "ReverseSequence",
}


def _lowbit_control(dts) -> Tuple[bool, str]:
    from fractions import Fraction
    notes = []
    ok = True
    try:
        import ml_dtypes
        import numpy as np
        names = {"FLOAT8E4M3FN": "float8_e4m3fn", "FLOAT8E4M3FNUZ": "float8_e4m3fnuz", "FLOAT8E5M2": "float8_e5m2", "FLOAT8E5M2FNUZ": "float8_e5m2fnuz", "FLOAT4E2M1": "float4_e2m1fn", "FLOAT8E8M0": "float8_e8m0fnu"}
        for k, n in names.items():
            t = getattr(ml_dtypes, n, None)
            if t is None:
                continue
            nbits = 4 if k == "FLOAT4E2M1" else 8
            arr = np.arange(1 << nbits, dtype=np.uint8).view(t).astype(np.float64)
            theirs = {Fraction(float(x)) for x in arr if np.isfinite(x)}
            mine = lowbit_values(k)
            if theirs != mine:
                ok = False
                notes.append(f"{k}: {len(mine)} vs ml_dtypes {len(theirs)}")
        notes.append("ml_dtypes cross-check done")
    except Exception as e:  # the reference tables stand on their own; the cross-check is a bonus
        notes.append(f"ml_dtypes cross-check skipped ({type(e).__name__})")
    exp = [("BOOL", "FLOAT8E8M0", False), ("FLOAT16", "FLOAT8E5M2", False), ("FLOAT8E5M2", "FLOAT16", True), ("FLOAT8E4M3FN", "FLOAT16", True),
           ("UINT4", "FLOAT8E4M3FN", True), ("BOOL", "FLOAT4E2M1", True), ("FLOAT8E4M3FN", "FLOAT8E4M3FNUZ", False), ("INT8", "FLOAT8E5M2", False), ("FLOAT8E5M2", "BFLOAT16", True), ("FLOAT8E4M3FN", "FLOAT8E5M2", False), ("FLOAT4E2M1", "FLOAT8E4M3FN", True)]
    for a, b, want in exp:
        if a in dts and b in dts and reference_preserving(dts[a], dts[b]) is not want:
            ok = False
            notes.append(f"{a}->{b} expected {want}")
    return ok, "; ".join(notes)


def _rule_e(res: Results, idx: Index, m, dts, tier: str = "quick") -> None:
    res.rule("R-C17e", "range-proof ingredients: the pass-through operator set only contains value-set preserving ops; the Range closed form bounds every emitted value (bounded box)", floor=8)
    ops = m.consts.get("_INTEGER_VALUE_PRESERVING_OPS")
    if not isinstance(ops, frozenset):
        raise AnalysisError("_INTEGER_VALUE_PRESERVING_OPS is no longer a constant set")
    for op in sorted(ops):
        key = f"_INTEGER_VALUE_PRESERVING_OPS::{op}"
        if op in VALUE_SET_PRESERVING:
            res.ok("R-C17e", f"{OPT}:1", key, "every output element is an element of the first input", "")
        else:
            res.violation("R-C17e", f"{OPT}:1", key, f"{op} can produce values that are not elements of its first input: integer bounds proven for the input do not hold for its output, so a narrowing Cast pair could be dropped unsoundly", "")
    # the two walkers of the range proof may step to `inputs[0]` of a producer only through that table: any further predicate
    # on the producer in their guards (`or _is_integer_to_integer_cast(producer)`) is another admission path, and the
    # operators it admits have to be value-set preserving as well (a narrowing / sign-changing integer Cast wraps)
    for wname in ("_known_integer_scalar", "_known_integer_value_bounds"):
        wf = idx.func(OPT, wname)
        seen_preds: Set[str] = set()
        for c in walk_no_nested(wf.node):
            if not (isinstance(c, ast.Call) and any(isinstance(a, ast.Name) and a.id == "producer" for a in c.args)):
                continue
            cn = call_name(c) or ""
            if cn in seen_preds or cn in ("_node_inputs", "_node_outputs", "_node_output", "_first_input", "_get_attr", "getattr", "id", "_attr_to_int", "len", wname) or not cn:
                continue
            seen_preds.add(cn)
            pf = None
            if cn == "_is_standard_onnx_node":
                admitted = [a.value for a in c.args[1:] if isinstance(a, ast.Constant) and isinstance(a.value, str)]
                # Range / Constant are handled by their own branches (closed form / payload), not stepped through
                admitted = [o for o in admitted if o not in ("Range", "Constant")]
            else:
                pf = idx.find_func(OPT, cn)
                if pf is None:
                    res.unresolved("R-C17e", f"{OPT}:{c.lineno}", f"{wname}::admission::{cn}", f"predicate {cn}(producer) in the walker's guards could not be resolved", wf.qualname)
                    continue
                admitted = [a.value for x in ast.walk(pf.node) if isinstance(x, ast.Call) and (call_name(x) or "") == "_is_standard_onnx_node" for a in x.args[1:] if isinstance(a, ast.Constant) and isinstance(a.value, str)]
                admitted += [k.value for x in ast.walk(pf.node) if isinstance(x, ast.Compare) and isinstance(x.left, ast.Attribute) and x.left.attr == "op_type" for k in ast.walk(x.comparators[0]) if isinstance(k, ast.Constant) and isinstance(k.value, str)]
                if not admitted:
                    continue      # not an operator predicate
            for op in sorted(set(admitted)):
                key = f"{wname}::admission::{cn}::{op}"
                range_checked = cn != "_is_standard_onnx_node" and pf is not None and any(isinstance(x, ast.Compare) and any(isinstance(o, (ast.Lt, ast.LtE, ast.Gt, ast.GtE)) for o in x.ops) for x in ast.walk(pf.node))
                if op in VALUE_SET_PRESERVING:
                    res.ok("R-C17e", f"{OPT}:{c.lineno}", key, f"{cn}() admits {op}, which is value-set preserving", wf.qualname)
                elif range_checked:
                    res.unresolved("R-C17e", f"{OPT}:{c.lineno}", key, f"{cn}() admits {op} under a range comparison of its own; whether that comparison makes the step value preserving is not decided", wf.qualname)
                else:
                    res.violation("R-C17e", f"{OPT}:{c.lineno}", key, f"{wname} also steps through producers accepted by {cn}(), i.e. through `{op}`: {op} can change values (an integer Cast to a narrower or "
                                  "differently signed type wraps), so bounds proven for its operand do not hold for its result and a later narrowing Cast pair is dropped unsoundly", wf.qualname)
    f = idx.func(OPT, "_known_integer_value_bounds")
    anchor = None
    for n in f.node.body:  # type: ignore[attr-defined]
        if isinstance(n, ast.Assign) and isinstance(n.targets[0], ast.Tuple) and [getattr(e, "id", None) for e in n.targets[0].elts] == ["start", "limit", "delta"]:
            anchor = n
    key = "_known_integer_value_bounds::range-closed-form"
    if anchor is None:
        res.unresolved("R-C17e", f"{OPT}:{f.node.lineno}", key, "`start, limit, delta = …` not found at function level", f.qualname)
        return
    tail = f.node.body[f.node.body.index(anchor) + 1:]  # type: ignore[attr-defined]
    from ..symeval import _Return
    ev = Evaluator(idx, dts)
    bad = None
    n = 0
    try:
        B, D = (7, 4) if tier != "thorough" else (40, 9)
        # thorough: also values near the int8 / int16 boundaries, where a one-off bound decides a narrowing fold
        extra = [] if tier != "thorough" else [-32769, -32768, -129, -128, -127, 126, 127, 128, 255, 256, 32767, 32768]
        starts = list(range(-B, B + 1)) + extra
        res.analysed["range_box"] = f"start, limit in [-{B},{B}]" + (" + type boundaries" if extra else "") + f", delta in [-{D},{D}]"
        for start in starts:
            for limit in starts:
                for delta in range(-D, D + 1):
                    n += 1
                    env = {"start": start, "limit": limit, "delta": delta}
                    try:
                        ev.block(tail, env, f, 0)
                        out = None
                    except _Return as r:
                        out = r.value
                    actual = list(range(start, limit, delta)) if delta != 0 else None
                    if out is None:
                        continue  # no proof claimed
                    if delta == 0:
                        bad = (start, limit, delta, out, "delta == 0 has no defined range")
                        break
                    lo, hi = out
                    if actual and not (lo <= min(actual) and max(actual) <= hi):
                        bad = (start, limit, delta, out, f"emitted values {min(actual)}..{max(actual)}")
                        break
                    if not actual and lo <= hi and False:
                        pass
                if bad:
                    break
            if bad:
                break
    except Unsupported as e:
        res.unresolved("R-C17e", f"{OPT}:{anchor.lineno}", key, f"closed form outside the evaluator's subset: {e}", f.qualname)
        return
    if bad:
        res.violation("R-C17e", f"{OPT}:{anchor.lineno}", key, f"Range(start={bad[0]}, limit={bad[1]}, delta={bad[2]}) is claimed to lie in {bad[3]} but {bad[4]}", f.qualname)
    else:
        res.ok("R-C17e", f"{OPT}:{anchor.lineno}", key, f"bounds contain every emitted value for all {n} triples in [-7,7]^2 x [-4,4]", f.qualname)


def _rule_d(res: Results, idx: Index) -> None:
    f = idx.func(OPT, "remove_redundant_casts_ir")
    du = defuse(f.node)
    muts: List[ast.Call] = []
    for n in walk_no_nested(f.node):
        if isinstance(n, ast.Call):
            cn = call_name(n) or ""
            if cn.endswith("replace_all_uses_with") or cn.endswith(".remove") or cn.endswith("replace_input_with"):
                muts.append(n)
    if not muts:
        raise AnalysisError("remove_redundant_casts_ir contains no mutation call (anchor changed)")

    def dtype_of_src(name_expr: ast.AST) -> bool:
        """expression derived from _value_dtype_code(<first input>) / dtype_map lookup"""
        names = du.closure(names_in(name_expr))
        for nm in names:
            for v in du.values(nm):
                if any((call_name(c) or "").endswith("_value_dtype_code") for c in ast.walk(v) if isinstance(c, ast.Call)):
                    return True
        return False

    def target_of(name_expr: ast.AST, node_var: str) -> bool:
        """expression derived from _attr_to_int(_get_attr(<node_var>, 'to'))"""
        names = du.closure(names_in(name_expr))
        for nm in names:
            for v in du.values(nm):
                for c in ast.walk(v):
                    if isinstance(c, ast.Call) and (call_name(c) or "").endswith("_get_attr") and len(c.args) >= 2:
                        if isinstance(c.args[0], ast.Name) and c.args[0].id == node_var and isinstance(c.args[1], ast.Constant) and c.args[1].value == "to":
                            return True
        return False

    # the loop variable over nodes (first cast) and the consumer (second cast)
    loop_var = None
    for n in walk_no_nested(f.node):
        if isinstance(n, ast.For) and isinstance(n.target, ast.Name):
            loop_var = n.target.id
            break
    if loop_var is None:
        raise AnalysisError("remove_redundant_casts_ir: node loop not found")

    for mcall in muts:
        conds = path_conditions(mcall)
        site = f"{OPT}:{mcall.lineno}"
        cn = call_name(mcall) or ""
        # which branch? identity removal: an atom (src != target) known False; fold: known True
        neq_true = neq_false = False
        eq_next = False
        decision_ok = False
        detail = []
        for e, want in conds:
            if isinstance(e, ast.Compare) and len(e.ops) == 1:
                l, r = e.left, e.comparators[0]
                is_ne, is_eq = isinstance(e.ops[0], ast.NotEq), isinstance(e.ops[0], ast.Eq)
                sides = [l, r]
                has_src = any(dtype_of_src(s) for s in sides)
                has_t1 = any(target_of(s, loop_var) for s in sides)
                if has_src and has_t1 and (is_ne or is_eq):
                    if (is_ne and want) or (is_eq and not want):
                        neq_true = True
                    else:
                        neq_false = True
                if has_src and (is_eq or is_ne) and not has_t1:
                    other = [s for s in sides if not dtype_of_src(s)]
                    # next_target: derived from _get_attr(<other node>, 'to')
                    if other and any(isinstance(c, ast.Call) and (call_name(c) or "").endswith("_get_attr") for nm in du.closure(names_in(other[0])) for v in du.values(nm) for c in ast.walk(v)):
                        if (is_eq and want) or (is_ne and not want):
                            eq_next = True
            # decision / range proof, possibly inside a disjunction that is known True
            if want:
                disj = e.values if (isinstance(e, ast.BoolOp) and isinstance(e.op, ast.Or)) else [e]
                good = []
                for dsj in disj:
                    ok = False
                    if isinstance(dsj, ast.Call):
                        dn = (call_name(dsj) or "").split(".")[-1]
                        if dn == "_cast_roundtrip_is_value_preserving" and len(dsj.args) == 2:
                            ok = dtype_of_src(dsj.args[0]) and target_of(dsj.args[1], loop_var) and not target_of(dsj.args[0], loop_var)
                            if not ok:
                                detail.append(f"decision called as {src(dsj)}: arguments are not (source dtype, first-cast target)")
                        elif dn == "_cast_roundtrip_known_values_fit" and len(dsj.args) == 4:
                            ok = dtype_of_src(dsj.args[2]) and target_of(dsj.args[3], loop_var) and not target_of(dsj.args[2], loop_var)
                            if not ok:
                                detail.append(f"range proof called as {src(dsj)}: arguments are not (…, source dtype, first-cast target)")
                    good.append(ok)
                if good and all(good) and any(isinstance(d, ast.Call) for d in disj):
                    decision_ok = True
        key = f"remove_redundant_casts_ir::{cn.split('.')[-1]}::{'fold' if neq_true else 'identity' if neq_false else 'unguarded'}#{sum(1 for x in muts[:muts.index(mcall)] if (call_name(x) or '') == cn)}"
        if neq_false and not neq_true:
            res.ok("R-C17d", site, key, "identity Cast removal: reached only when source dtype == target", f.qualname)
        elif neq_true and eq_next and decision_ok:
            res.ok("R-C17d", site, key, "Cast->Cast fold dominated by next_target == src_dtype and the decision / range proof", f.qualname)
        else:
            miss = []
            if not (neq_true or neq_false):
                miss.append("no dominating comparison of source dtype with the cast target")
            if neq_true and not eq_next:
                miss.append("`next_target == src_dtype` does not dominate the mutation")
            if neq_true and not decision_ok:
                miss.append("neither _cast_roundtrip_is_value_preserving(src_dtype, target_code) nor the range proof dominates the mutation")
            res.violation("R-C17d", site, key, "; ".join(miss + detail), f.qualname)


def _rule_f(res: Results, idx: Index, tier: str) -> None:
    """remove_redundant_casts_ir decides "this Cast is an identity" from a name -> dtype map (`_collect_value_dtypes`).  The map
    must hold DECLARED types: an entry that an output inherits from its input is right only for operators whose schema output
    type equals their input type (C08 R-C08d oracle).  Letting the outputs of `UNARY_DATAFLOW_OPS` inherit — the table also
    contains Cast and CastLike — labels `Cast(x:T, to=U)` as T, and the following `Cast(to=T)` is dropped as an identity."""
    res.rule("R-C17f", "the dtype map consulted by the cast elimination lets an output inherit its input's type only for type-preserving operators (C08 R-C08d)", floor=1)
    from . import c08
    sub = Results("C08", tier)
    setattr(sub, "_nested_xref", True)
    c08.rule_d(sub, idx)
    hits = [i for i in sub.instances if i.rule == "R-C08d" and "_collect_value_dtypes" in i.key]
    f = idx.find_func(OPT, "_collect_value_dtypes")
    if f is None:
        raise AnalysisError("_collect_value_dtypes not found")
    if not hits:
        res.ok("R-C17f", f.site, f"{OPT}::_collect_value_dtypes::declared-types-only", "the map records declared element types only (no entry is inherited from a node's input)", f.qualname)
    for inst in hits:
        res.add("R-C17f", inst.status, inst.site, f"R-C08d::{inst.key}", f"[C08 R-C08d] {inst.detail}", inst.func)
