"""C13 — conversion leaves the host process as it found it (structural part).

R-C13a  mutate-inside-try: in every context manager / save-restore function that mutates host
        state (third-party namespaces, jax.config, refcounted patch table, re-entrancy ContextVar)
        each forward mutation is (i) inside the `try` whose `finally` restores, or (ii) a single
        mutating statement (optionally under one call-free `if`) immediately followed by that `try`;
        the `yield` is inside that try; loops of mutations are undone in reverse order
R-C13b  no unscoped write to a third-party namespace (jax / flax / equinox / numpy / dm_pix / einops …):
        a setattr / attribute assignment on an imported library module or class must be paired
        (R-C13a) in the same function, or run only at `import jax2onnx` time (before any conversion)
R-C13c  patch activation is lexically scoped: package context managers are only entered through
        `with` or `ExitStack.enter_context`
R-C13d  every `jax.config.update("jax_enable_x64", …)` and every `.set()` on a guard-like ContextVar
        outside a `finally` is followed by a restoring `finally`
"""
from __future__ import annotations

import ast
from typing import Dict, List, Optional, Set, Tuple

from ..callgraph import get_callgraph
from ..flow import defuse, names_in
from ..guards import path_conditions, src
from ..index import AnalysisError, FuncInfo, Index, Module, call_name, dotted, enclosing_stmt, parents, walk_no_nested
from ..report import Results

HOST_ROOTS = {"jax", "jaxlib", "flax", "equinox", "numpy", "dm_pix", "einops", "jaxtyping", "optax", "chex", "orbax", "ml_dtypes"}
OWN_OBJECT_NAMES = {"self", "cls", "ctx", "owner", "builder"}  # converter-owned objects: not host state


def _own_object(name: str) -> bool:
    n = name.lower()
    return name in OWN_OBJECT_NAMES or n.endswith("ctx") or n.endswith("_any") or n.endswith("builder") or n.endswith("scope")


def host_root(mod: Module, e: ast.AST) -> Optional[str]:
    """If expression `e` denotes an imported third-party module / class (by the import table), its root package."""
    d = dotted(e)
    if not d:
        return None
    head = d.split(".")[0]
    fq = mod.imports.get(head)
    if fq is None:
        return None
    if fq.startswith("jax2onnx"):
        from ..index import get_index
        try:
            fq = get_index().canonical(fq)
        except Exception:
            pass
    root = fq.split(".")[0]
    return root if root in HOST_ROOTS else None


class Mut:
    def __init__(self, node: ast.AST, kind: str, what: str):
        self.node = node
        self.kind = kind
        self.what = what
        self.stmt = enclosing_stmt(node)


_MG: Dict[int, Set[str]] = {}
_GC: Dict[int, Set[str]] = {}


def _module_mutable_globals(mod: Module) -> Set[str]:
    if id(mod) in _MG:
        return _MG[id(mod)]
    out = _MG.setdefault(id(mod), set())
    for st in mod.tree.body:
        tgt = None
        val = None
        if isinstance(st, ast.Assign) and len(st.targets) == 1 and isinstance(st.targets[0], ast.Name):
            tgt, val = st.targets[0].id, st.value
        elif isinstance(st, ast.AnnAssign) and isinstance(st.target, ast.Name) and st.value is not None:
            tgt, val = st.target.id, st.value
        if tgt and isinstance(val, (ast.Dict, ast.List, ast.Set)) or (tgt and isinstance(val, ast.Call) and (call_name(val) or "") in ("dict", "list", "set", "defaultdict", "OrderedDict", "WeakKeyDictionary", "weakref.WeakKeyDictionary")):
            out.add(tgt)
    return out


def _contextvars(mod: Module) -> Set[str]:
    out = set()
    for st in mod.tree.body:
        val = getattr(st, "value", None)
        if isinstance(val, ast.Call) and (call_name(val) or "").split(".")[-1] == "ContextVar":
            t = st.targets[0] if isinstance(st, ast.Assign) else getattr(st, "target", None)
            if isinstance(t, ast.Name):
                out.add(t.id)
    return out


def _guard_like_contextvars(mod: Module) -> Set[str]:
    """ContextVars whose .get() is consulted in a test (re-entrancy guards)."""
    if id(mod) in _GC:
        return _GC[id(mod)]
    cvs = _contextvars(mod)
    out = _GC.setdefault(id(mod), set())
    if not cvs:
        return out
    for n in ast.walk(mod.tree):
        if isinstance(n, (ast.If, ast.IfExp, ast.While)):
            for c in ast.walk(n.test):
                if isinstance(c, ast.Call) and isinstance(c.func, ast.Attribute) and c.func.attr == "get" and isinstance(c.func.value, ast.Name) and c.func.value.id in cvs:
                    out.add(c.func.value.id)
    return out


def host_mutations(mod: Module, fi: FuncInfo) -> List[Mut]:
    globs = _module_mutable_globals(mod)
    guard_cvs = _guard_like_contextvars(mod)
    du = defuse(fi.node)
    # locals aliasing an element of a module-level mutable global:  st = _PATCH_STATE.get(key)
    alias: Set[str] = set()
    for name, ds in du.defs.items():
        for d in ds:
            if d.value is not None and any(isinstance(x, ast.Name) and x.id in globs for x in ast.walk(d.value)):
                alias.add(name)
    out: List[Mut] = []
    for n in walk_no_nested(fi.node):
        if isinstance(n, ast.Call):
            cn = call_name(n) or ""
            if cn in ("setattr", "delattr") and n.args:
                a0 = n.args[0]
                nm = dotted(a0) or ""
                if host_root(mod, a0):
                    out.append(Mut(n, "third-party-attr", f"{cn}({src(a0)}, {src(n.args[1]) if len(n.args) > 1 else ''})"))
                elif isinstance(a0, ast.Name) and not _own_object(a0.id):
                    out.append(Mut(n, "setattr", f"{cn}({a0.id}, …)"))
            elif cn.endswith("config.update") and n.args and isinstance(n.args[0], ast.Constant):
                out.append(Mut(n, "jax-config", f"jax.config.update({n.args[0].value!r}, …)"))
            elif isinstance(n.func, ast.Attribute) and n.func.attr in ("set", "reset") and isinstance(n.func.value, ast.Name) and n.func.value.id in guard_cvs:
                out.append(Mut(n, "contextvar", f"{n.func.value.id}.{n.func.attr}(…)"))
            elif isinstance(n.func, ast.Attribute) and n.func.attr in ("pop", "clear", "update", "setdefault", "append", "add", "remove", "discard") and isinstance(n.func.value, ast.Name) and n.func.value.id in globs:
                out.append(Mut(n, "module-global", f"{n.func.value.id}.{n.func.attr}(…)"))
        elif isinstance(n, (ast.Assign, ast.AugAssign, ast.AnnAssign, ast.Delete)):
            tgts = n.targets if isinstance(n, (ast.Assign, ast.Delete)) else [n.target]
            for t in tgts:
                if not isinstance(t, (ast.Attribute, ast.Subscript)):
                    continue
                base = t
                while isinstance(base, (ast.Attribute, ast.Subscript)):
                    base = base.value
                if isinstance(t, ast.Attribute) and host_root(mod, t.value):
                    out.append(Mut(n, "third-party-attr", f"{src(t)} = …"))
                elif isinstance(base, ast.Name) and base.id in globs and isinstance(t, ast.Subscript):
                    out.append(Mut(n, "module-global", f"{src(t)} = …"))
                elif isinstance(base, ast.Name) and base.id in alias and isinstance(t, ast.Subscript):
                    out.append(Mut(n, "module-global", f"{src(t)} (element of a module-level table) = …"))
    return out


def _in_block(node: ast.AST, block: List[ast.stmt]) -> bool:
    ids = {id(s) for s in block}
    cur: Optional[ast.AST] = node
    while cur is not None:
        if id(cur) in ids:
            return True
        cur = getattr(cur, "parent", None)
    return False


def _has_call(e: ast.AST, *, except_node: Optional[ast.AST] = None) -> bool:
    for n in ast.walk(e):
        if isinstance(n, ast.Call) and n is not except_node:
            return True
    return False


def _idiom_two(m: Mut, restore_tries: List[ast.Try]) -> bool:
    """single mutating statement (optionally under one call-free `if`) immediately followed by the restoring try"""
    st = m.stmt
    if st is None:
        return False
    if not isinstance(st, (ast.Expr, ast.Assign, ast.AugAssign, ast.AnnAssign)):
        return False
    # arguments of the mutation may be arbitrary; if they raise nothing was mutated
    holder: ast.stmt = st
    p = getattr(st, "parent", None)
    if isinstance(p, ast.If) and p.body == [st] and not p.orelse and not _has_call(p.test):
        holder = p
        p = getattr(p, "parent", None)
    for fld in ("body", "orelse", "finalbody"):
        blk = getattr(p, fld, None)
        if isinstance(blk, list) and holder in blk:
            i = blk.index(holder)
            if i + 1 < len(blk) and blk[i + 1] in restore_tries:
                return True
    return False


def analyse_function(res: Results, mod: Module, fi: FuncInfo, is_cm: bool) -> int:
    muts = host_mutations(mod, fi)
    if not muts:
        return 0
    tries = [n for n in walk_no_nested(fi.node) if isinstance(n, ast.Try) and n.finalbody]
    restore_tries = [t for t in tries if any(_in_block(m.node, t.finalbody) for m in muts)]
    forward = [m for m in muts if not any(_in_block(m.node, t.finalbody) for t in tries)]
    if not restore_tries and not is_cm:
        return 0
    n = 0
    per_kind: Dict[str, int] = {}
    for m in forward:
        per_kind[m.kind] = per_kind.get(m.kind, 0) + 1
        key = f"{mod.rel}::{fi.qualname}::{m.kind}::{m.what}#{per_kind[m.kind]}"
        site = f"{mod.rel}:{m.node.lineno}"
        n += 1
        if not restore_tries:
            res.violation("R-C13a", site, key, f"context manager mutates host state ({m.what}) but no `finally` restores it", fi.qualname)
            continue
        inside = [t for t in restore_tries if _in_block(m.node, t.body)]
        if inside:
            res.ok("R-C13a", site, key, f"{m.what} inside the try whose finally restores (line {inside[0].lineno})", fi.qualname)
        elif _idiom_two(m, restore_tries):
            res.ok("R-C13a", site, key, f"{m.what} immediately followed by the restoring try", fi.qualname)
        else:
            res.violation("R-C13a", site, key,
                          f"{m.what} happens before the restoring `try` (line {restore_tries[0].lineno}) is entered: if a later statement before the try raises, "
                          "the mutation is never undone", fi.qualname)
    # yield placement
    if is_cm and forward and restore_tries:
        first_line = min(m.node.lineno for m in forward)
        for y in walk_no_nested(fi.node):
            if isinstance(y, (ast.Yield, ast.YieldFrom)) and y.lineno > first_line:
                n += 1
                key = f"{mod.rel}::{fi.qualname}::yield"
                if any(_in_block(y, t.body) for t in restore_tries):
                    res.ok("R-C13a", f"{mod.rel}:{y.lineno}", key, "yield inside the restoring try", fi.qualname)
                else:
                    res.violation("R-C13a", f"{mod.rel}:{y.lineno}", key, "yield after a host mutation is outside the try/finally that restores it", fi.qualname)
    # restore order for loops of mutations
    for t in restore_tries:
        fwd_loops = [m for m in forward if any(isinstance(p, (ast.For, ast.While)) for p in parents(m.node) if p is not fi.node and _within(p, fi.node))]
        if not fwd_loops:
            continue
        for st in t.finalbody:
            for loop in [x for x in ast.walk(st) if isinstance(x, ast.For)]:
                if not any(_in_block(m.node, [loop]) for m in muts):
                    continue
                n += 1
                key = f"{mod.rel}::{fi.qualname}::restore-order"
                it = loop.iter
                if isinstance(it, ast.Call) and (call_name(it) or "") == "reversed":
                    res.ok("R-C13a", f"{mod.rel}:{loop.lineno}", key, "restore loop iterates in reverse (LIFO)", fi.qualname)
                else:
                    res.violation("R-C13a", f"{mod.rel}:{loop.lineno}", key, f"restore loop iterates `{src(it)}` in application order; overlapping patches of one attribute are restored to a patched value", fi.qualname)
    return n


def _within(node: ast.AST, root: ast.AST) -> bool:
    cur: Optional[ast.AST] = node
    while cur is not None:
        if cur is root:
            return True
        cur = getattr(cur, "parent", None)
    return False


def eager_import_closure(idx: Index) -> Set[str]:
    """Modules executed by `import jax2onnx` (top-level imports only, transitively)."""
    seen: Set[str] = set()
    todo = ["jax2onnx"]
    while todo:
        mn = todo.pop()
        if mn in seen or mn not in idx.modules:
            continue
        seen.add(mn)
        # parent packages execute too
        parts = mn.split(".")
        for i in range(1, len(parts)):
            todo.append(".".join(parts[:i]))
        m = idx.modules[mn]
        for st in ast.walk(m.tree):
            if isinstance(st, (ast.Import, ast.ImportFrom)) and m.func_containing(st) is None:
                if isinstance(st, ast.Import):
                    for a in st.names:
                        todo.append(a.name)
                else:
                    base = m._resolve_relative(st.level, st.module)
                    todo.append(base)
                    for a in st.names:
                        todo.append(f"{base}.{a.name}")
    return seen


def run(res: Results, idx: Index, tier: str) -> None:
    res.rule("R-C13a", "host-state mutations in context managers / save-restore functions are inside the restoring try (or the single statement right before it); yield inside; LIFO restore", floor=10)
    res.rule("R-C13b", "writes to third-party namespaces are paired in the same function or happen only at `import jax2onnx` time", floor=5)
    res.rule("R-C13c", "package context managers are entered only via `with` / ExitStack.enter_context", floor=8)
    res.rule("R-C13d", "x64 flag switches are scoped (JAX context manager or update + restoring finally); re-entrancy ContextVar sets outside `finally` are followed by a restoring finally", floor=3)
    res.assumptions += ["objects named self/cls/ctx/owner/*builder/*scope are converter-owned, not host state",
                        "third-party = import root in " + ", ".join(sorted(HOST_ROOTS)),
                        "jit trace-cache pollution and mutation of user modules by library code are not decided"]
    cg = get_callgraph(idx)
    mods = [m for m in idx.product_modules() if ".plugins.examples" not in m.name]

    # ---------------- R-C13a
    cms: List[FuncInfo] = []
    n_funcs = 0
    for m in mods:
        for fi in m.funcs.values():
            decos = {(dotted(d) or "").split(".")[-1] for d in getattr(fi.node, "decorator_list", [])}
            is_cm = "contextmanager" in decos
            if is_cm:
                cms.append(fi)
            k = analyse_function(res, m, fi, is_cm)
            if k:
                n_funcs += 1
    res.analysed["context_managers"] = len(cms)
    res.analysed["save_restore_functions_with_host_mutations"] = n_funcs
    if len(cms) < 8:
        raise AnalysisError(f"only {len(cms)} @contextmanager functions found (12 on the pinned tree)")

    # ---------------- R-C13b
    eager = eager_import_closure(idx)
    res.analysed["eager_import_modules"] = len(eager)
    for m in mods:
        for n in ast.walk(m.tree):
            tgt_expr = None
            what = ""
            is_subscript = False
            key_expr = None
            if isinstance(n, ast.Call) and (call_name(n) or "") in ("setattr", "delattr") and n.args and host_root(m, n.args[0]):
                tgt_expr = n.args[0]
                attr = n.args[1].value if len(n.args) > 1 and isinstance(n.args[1], ast.Constant) else "<dynamic>"
                what = f"{dotted(n.args[0])}.{attr}"
            elif isinstance(n, (ast.Assign, ast.AugAssign, ast.AnnAssign, ast.Delete)):
                tgts = n.targets if isinstance(n, (ast.Assign, ast.Delete)) else [n.target]
                for t in tgts:
                    if isinstance(t, ast.Attribute) and host_root(m, t.value):
                        tgt_expr = t.value
                        what = dotted(t) or src(t)
                    elif isinstance(t, ast.Subscript) and host_root(m, t.value):
                        tgt_expr = t.value
                        what = src(t)
                        is_subscript = True
                        key_expr = t.slice
            if tgt_expr is None:
                continue
            fi = m.func_containing(n)
            fn = fi.qualname if fi else "<module>"
            site = f"{m.rel}:{n.lineno}"
            key = f"{m.rel}::{fn}::{what}"
            if is_subscript:
                # registry entry: fine when keyed by a plugin-owned object, a violation when keyed by a library object
                if key_expr is not None and host_root(m, key_expr):
                    res.violation("R-C13b", site, key, f"overwrites library registry entry {what} keyed by a library object", fn)
                else:
                    res.ok("R-C13b", site, key, "registry entry under a plugin-owned key", fn)
                continue
            if fi is not None:
                muts = host_mutations(m, fi)
                tries = [t for t in walk_no_nested(fi.node) if isinstance(t, ast.Try) and t.finalbody]
                paired = any(any(_in_block(x.node, t.finalbody) and x.kind == "third-party-attr" for x in muts) for t in tries)
                if paired:
                    res.ok("R-C13b", site, key, "paired with a restoring finally in the same function (R-C13a)", fn)
                    continue
            whens = _executes_when(idx, cg, m, fi, eager)
            bad = sorted(w for w in whens if w != "import-jax2onnx")
            when = bad[0] if bad else "import-jax2onnx"
            if not bad:
                res.ok("R-C13b", site, key, "runs only while `import jax2onnx` executes (before any conversion)", fn)
            elif "import-jax2onnx" in whens and _set_if_missing(n, what):
                res.ok("R-C13b", site, key, "set-if-missing write whose first execution is at `import jax2onnx` time; later calls find the attribute present", fn)
            else:
                res.violation("R-C13b", site, key, f"unscoped write to third-party namespace {what} ({when}); nothing restores it", fn)

    # ---------------- R-C13c
    cm_names: Dict[int, FuncInfo] = {id(f.node): f for f in cms}
    for f in cms:
        for cs in cg.callers_of(f):
            call = cs.call
            p = getattr(call, "parent", None)
            site = cs.site
            caller = cs.caller.qualname if cs.caller else "<module>"
            key = f"{cs.module.rel}::{caller}::enter::{f.qualname}"
            ok = False
            how = ""
            if isinstance(p, ast.withitem) and p.context_expr is call:
                ok, how = True, "with"
            elif isinstance(p, ast.Call) and isinstance(p.func, ast.Attribute) and p.func.attr == "enter_context" and call in p.args:
                # the stack must itself be bound by a with
                stack = p.func.value
                ok = isinstance(stack, ast.Name) and any(isinstance(w, ast.With) and any(isinstance(it.optional_vars, ast.Name) and it.optional_vars.id == stack.id for it in w.items) for w in parents(p))
                how = "ExitStack.enter_context inside `with ExitStack()`" if ok else "enter_context on a stack not bound by an enclosing with"
            elif isinstance(p, ast.Return) or isinstance(p, ast.YieldFrom):
                ok, how = True, "returned to the caller (delegation)"
            else:
                # cm = f(...) [if c else nullcontext()]  ...  with cm:
                st = enclosing_stmt(call)
                if isinstance(st, (ast.Assign, ast.AnnAssign)) and cs.caller is not None:
                    t = st.targets[0] if isinstance(st, ast.Assign) else st.target
                    if isinstance(t, ast.Name):
                        for w in walk_no_nested(cs.caller.node):
                            if isinstance(w, (ast.With, ast.AsyncWith)) and any(isinstance(it.context_expr, ast.Name) and it.context_expr.id == t.id for it in w.items):
                                ok, how = True, f"bound to `{t.id}` and entered by a with statement"
            if ok:
                res.ok("R-C13c", site, key, how, caller)
            else:
                res.violation("R-C13c", site, key, f"context manager {f.qualname}() is called but not entered through with/enter_context ({how or src(getattr(call, 'parent', call))})", caller)

    # ---------------- R-C13d
    for m in mods:
        guard_cvs = _guard_like_contextvars(m)
        for fi in m.funcs.values():
            for n in walk_no_nested(fi.node):
                if not isinstance(n, ast.Call):
                    continue
                cn = call_name(n) or ""
                what = None
                if cn.endswith("config.update") and n.args and isinstance(n.args[0], ast.Constant) and n.args[0].value == "jax_enable_x64":
                    what = "jax_enable_x64"
                elif isinstance(n.func, ast.Attribute) and n.func.attr == "set" and isinstance(n.func.value, ast.Name) and n.func.value.id in guard_cvs:
                    what = n.func.value.id
                if what is None:
                    continue
                tries = [t for t in walk_no_nested(fi.node) if isinstance(t, ast.Try) and t.finalbody]
                in_finally = any(_in_block(n, t.finalbody) for t in tries)
                idx_n = sum(1 for x in walk_no_nested(fi.node) if isinstance(x, ast.Call) and (call_name(x) or "") == cn and x.lineno < n.lineno)
                key = f"{m.rel}::{fi.qualname}::{what}::{'restore' if in_finally else 'set'}#{idx_n}"
                site = f"{m.rel}:{n.lineno}"
                if in_finally:
                    res.ok("R-C13d", site, key, "restore inside finally", fi.qualname)
                    continue

                def restores(t: ast.Try) -> bool:
                    for x in ast.walk(ast.Module(body=t.finalbody, type_ignores=[])):
                        if isinstance(x, ast.Call):
                            xn = call_name(x) or ""
                            if what == "jax_enable_x64" and xn.endswith("config.update") and x.args and isinstance(x.args[0], ast.Constant) and x.args[0].value == what:
                                return True
                            if what != "jax_enable_x64" and isinstance(x.func, ast.Attribute) and x.func.attr in ("set", "reset") and isinstance(x.func.value, ast.Name) and x.func.value.id == what:
                                return True
                    return False
                rts = [t for t in tries if restores(t)]
                mm = Mut(n, "x", what)
                if any(_in_block(n, t.body) for t in rts) or _idiom_two(mm, rts):
                    res.ok("R-C13d", site, key, "followed/covered by a finally that restores it", fi.qualname)
                else:
                    res.violation("R-C13d", site, key, f"{what} is changed but no enclosing/following `finally` restores it", fi.qualname)

    # the scoped idiom: `with jax.enable_x64(v)` (JAX's own context manager) - pairing by construction
    for m in mods:
        for fi in m.funcs.values():
            for w in walk_no_nested(fi.node):
                if isinstance(w, ast.With):
                    for it in w.items:
                        ce = it.context_expr
                        if isinstance(ce, ast.Call) and _is_x64_scope_call(idx, m, fi, ce):
                            res.ok("R-C13d", f"{m.rel}:{w.lineno}", f"{m.rel}::{fi.qualname}::x64-scope::with", "x64 is switched through JAX's scoped context manager, entered with `with`", fi.qualname)
    # a manual save/update/restore of the x64 flag mixes a context-local read with a process-wide write (C09 R-C09a)
    if not getattr(res, "_nested_xref", False):
        from . import c09
        sub = Results("C09", "quick")
        setattr(sub, "_nested_xref", True)
        c09.run(sub, idx, "quick")
        for inst in sub.instances:
            if inst.rule == "R-C09a" and ("global-write-context-read" in inst.key or "x64-scope" in inst.key):
                res.add("R-C13d", inst.status, inst.site, f"R-C09a::{inst.key}", f"[C09 R-C09a] {inst.detail}", inst.func)
    rule_e(res, idx, mods)
    rule_f(res, idx, mods)
    rule_g(res, idx)
    rule_h(res, idx)
    _controls(res)


def _set_if_missing(n: ast.AST, what: str) -> bool:
    """Is the write guarded so that it only happens when the attribute does not exist yet?"""
    attr = what.split(".")[-1]
    for p in parents(n):
        if isinstance(p, ast.ExceptHandler) and "AttributeError" in (ast.unparse(p.type) if p.type is not None else ""):
            t = getattr(p, "parent", None)
            if isinstance(t, ast.Try) and any(isinstance(x, ast.Attribute) and x.attr == attr for st in t.body for x in ast.walk(st)):
                return True
        if isinstance(p, ast.If):
            for c in ast.walk(p.test):
                if isinstance(c, ast.Call) and (call_name(c) or "") in ("hasattr", "getattr") and len(c.args) >= 2 and isinstance(c.args[1], ast.Constant) and c.args[1].value == attr:
                    return True
        if isinstance(p, (ast.FunctionDef, ast.Module)):
            break
    return False


def _executes_when(idx: Index, cg, m: Module, fi: Optional[FuncInfo], eager: Set[str], depth: int = 3) -> Set[str]:
    """When can the statement run?  {'import-jax2onnx'} if only while `import jax2onnx` executes."""
    if fi is None:
        return {"import-jax2onnx"} if m.name in eager else {"module level of a lazily imported plugin module: runs inside the first to_onnx call (import_all_plugins)"}
    callers = cg.callers_of(fi)
    if not callers or depth == 0:
        return {f"in function {fi.qualname}, callable during conversion"}
    whens: Set[str] = set()
    for cs in callers:
        for w in _executes_when(idx, cg, cs.module, cs.caller, eager, depth - 1):
            whens.add(w if w == "import-jax2onnx" or w.startswith("via ") else f"via {fi.qualname}(): {w}")
    return whens


def _controls(res: Results) -> None:
    import textwrap

    src_txt = textwrap.dedent(
        '''
        from contextlib import contextmanager
        import jax.numpy as jnp
        _STATE = {}

        @contextmanager
        def bad(specs):
            touched = []
            for tgt, attr, new in specs:
                setattr(tgt, attr, new)
                touched.append((tgt, attr))
            try:
                yield
            finally:
                for tgt, attr in touched:
                    setattr(tgt, attr, None)

        jnp.foo = 1
        '''
    )
    m = Module("<control>", "<control>", "control_c13", src_txt)
    tmp = Results("C13", "quick")
    k = analyse_function(tmp, m, m.funcs["bad"], True)
    fired = any(i.status == "VIOLATION" and "before the restoring" in i.detail for i in tmp.instances) and any(i.status == "VIOLATION" and "restore-order" in i.key for i in tmp.instances)
    res.control("R-C13a", "loop of setattr before try + forward-order restore is flagged", fired)
    res.control("R-C13b", "module-level `jnp.foo = 1` resolves to a third-party namespace", any(host_root(m, n.targets[0].value) == "jax" for n in m.tree.body if isinstance(n, ast.Assign) and isinstance(n.targets[0], ast.Attribute)))


def _is_x64_scope_call(idx: Index, m, fi, ce: ast.Call, depth: int = 0) -> bool:
    """jax.enable_x64(...) / jax.experimental.enable_x64(...) or a package helper returning one."""
    cn = call_name(ce) or ""
    last = cn.split(".")[-1]
    if last == "enable_x64" or last == "disable_x64":
        return True
    if depth < 2 and cn:
        g = idx.resolve_func(m, cn, cls=fi.cls, scope=fi)
        if g is not None:
            for x in walk_no_nested(g.node):
                if isinstance(x, ast.Return) and isinstance(x.value, ast.Call):
                    f_ = x.value.func
                    if isinstance(f_, ast.Name):
                        du = defuse(g.node)
                        if any("enable_x64" in ast.unparse(v) for v in du.values(f_.id) if v is not None) or any(isinstance(d.stmt, ast.ImportFrom) and any(a.name == "enable_x64" for a in d.stmt.names) for d in du.defs.get(f_.id, [])):
                            return True
                    if _is_x64_scope_call(idx, g.module, g, x.value, depth + 1):
                        return True
                if isinstance(x, ast.With) and any(isinstance(it.context_expr, ast.Call) and _is_x64_scope_call(idx, g.module, g, it.context_expr, depth + 1) for it in x.items):
                    return True
    return False


# ---------------------------------------------------------------------------------------------- R-C13f
OWN_PROBES = {"vars", "getattr_static", "owns_attr", "_owns_attr"}


def _is_ownership_probe(idx: Index, m, fi, e: ast.AST) -> bool:
    for x in ast.walk(e):
        if isinstance(x, ast.Attribute) and x.attr == "__dict__":
            return True
        if isinstance(x, ast.Constant) and x.value == "__dict__":
            return True
        if isinstance(x, ast.Call):
            last = (call_name(x) or "").split(".")[-1]
            if last in OWN_PROBES:
                return True
            g = idx.resolve_func(m, call_name(x) or "", cls=fi.cls, scope=fi)
            if g is not None and any((isinstance(y, ast.Attribute) and y.attr == "__dict__") or (isinstance(y, ast.Call) and (call_name(y) or "").split(".")[-1] in ("vars", "getattr_static")) for y in ast.walk(g.node)):
                return True
    return False


def rule_f(res: Results, idx: Index, mods) -> None:
    """Generic patchers (the patched object is a loop variable: any class or module a spec names) save with
    getattr(), which follows the MRO.  Writing that value back with setattr() pins an own copy on a class that only
    *inherited* the attribute — a base-class tracing shim if the base was patched at capture time — so the restore
    must distinguish own from inherited attributes (vars(t) / t.__dict__ / a helper doing so) and delete the override
    in the inherited case."""
    res.rule("R-C13f", "generic attribute patchers restore inherited attributes by deleting the override, not by setattr", floor=2)
    n = 0
    for m in mods:
        for fi in m.funcs.values():
            decos = {(dotted(d) or "").split(".")[-1] for d in getattr(fi.node, "decorator_list", [])}
            if "contextmanager" not in decos:
                continue
            tries = [t for t in walk_no_nested(fi.node) if isinstance(t, ast.Try) and t.finalbody]
            sets = [c for c in walk_no_nested(fi.node) if isinstance(c, ast.Call) and (call_name(c) or "") == "setattr" and len(c.args) == 3 and isinstance(c.args[0], ast.Name) and not _own_object(c.args[0].id)]
            back = [c for c in sets if any(_in_block(c, t.finalbody) for t in tries)]
            fwd = [c for c in sets if c not in back]
            if not fwd or not back:
                continue
            du = defuse(fi.node)
            # generic: the patched object is (derived from) a loop variable
            loop_vars = {n_ for lp in walk_no_nested(fi.node) if isinstance(lp, ast.For) for n_ in names_in(lp.target)}
            generic = [c for c in fwd if (du.closure({c.args[0].id}) | {c.args[0].id}) & loop_vars]
            if not generic:
                continue
            n += 1
            key = f"{m.rel}::{fi.qualname}::inherited-restore"
            site = f"{m.rel}:{back[0].lineno}"
            probes = [st for st in walk_no_nested(fi.node) if isinstance(st, (ast.Assign, ast.AnnAssign)) and st.value is not None and _is_ownership_probe(idx, m, fi, st.value) and not any(_in_block(st, t.finalbody) for t in tries)]
            dels = [c for c in walk_no_nested(fi.node) if isinstance(c, ast.Call) and (call_name(c) or "") == "delattr" and any(_in_block(c, t.finalbody) for t in tries)]
            probe_names = {t.id for st in probes for t in (st.targets if isinstance(st, ast.Assign) else [st.target]) if isinstance(t, ast.Name)}
            rec_keys = {k.value for dct in walk_no_nested(fi.node) if isinstance(dct, ast.Dict) for k, v in zip(dct.keys, dct.values)
                        if isinstance(k, ast.Constant) and isinstance(k.value, str) and isinstance(v, ast.Name) and v.id in probe_names}

            def _uses_probe(c: ast.AST) -> bool:
                for e, _w in path_conditions(c):
                    for x in ast.walk(e):
                        if isinstance(x, ast.Name) and x.id in probe_names:
                            return True
                        if isinstance(x, ast.Constant) and x.value in rec_keys:
                            return True
                return False
            conditional = all(_uses_probe(c) for c in back)
            if probes and dels and conditional:
                res.ok("R-C13f", site, key, f"ownership is probed before patching (`{src(probes[0].value, 40)}`); the finally block deletes the override for inherited attributes", fi.qualname)
            else:
                miss = []
                if not probes:
                    miss.append("no own-vs-inherited probe (vars(t) / t.__dict__) before the write")
                if not dels:
                    miss.append("no delattr on the restore path")
                if not conditional:
                    miss.append("the restoring setattr does not depend on the ownership probe")
                res.violation("R-C13f", site, key, "getattr() follows the MRO, and the value is written back with setattr(): a class that only inherited the attribute keeps an own copy after the conversion (the base's tracing shim if the base was patched when it was captured) — " + "; ".join(miss), fi.qualname)
    res.analysed["generic_patchers"] = n


def _parents_until(n: ast.AST, stop: ast.AST):
    cur = getattr(n, "parent", None)
    while cur is not None and cur is not stop:
        yield cur
        cur = getattr(cur, "parent", None)


# ---------------------------------------------------------------------------------------------- R-C13e
def rule_e(res: Results, idx: Index, mods) -> None:
    """Save-before-write: in every context manager that patches attributes with setattr, the original is read
    (getattr on the same target and attribute) before the write in the same iteration, and the value written
    back in `finally` is that saved original."""
    res.rule("R-C13e", "patching context managers read the original before overwriting it and restore exactly that saved value", floor=2)
    for m in mods:
        for fi in m.funcs.values():
            decos = {(dotted(d) or "").split(".")[-1] for d in getattr(fi.node, "decorator_list", [])}
            if "contextmanager" not in decos:
                continue
            tries = [t for t in walk_no_nested(fi.node) if isinstance(t, ast.Try) and t.finalbody]
            sets = [c for c in walk_no_nested(fi.node) if isinstance(c, ast.Call) and (call_name(c) or "") == "setattr" and len(c.args) == 3 and isinstance(c.args[0], ast.Name) and not _own_object(c.args[0].id)]
            fwd = [c for c in sets if not any(_in_block(c, t.finalbody) for t in tries)]
            back = [c for c in sets if any(_in_block(c, t.finalbody) for t in tries)]
            if not fwd or not back:
                continue
            g = None
            from ..cfg import cfg_of
            g = cfg_of(fi.node)
            du = defuse(fi.node)
            saved_names: Set[str] = set()
            for i, c in enumerate(sorted(fwd, key=lambda x: x.lineno)):
                tgt, attr = ast.unparse(c.args[0]), ast.unparse(c.args[1])
                key = f"{m.rel}::{fi.qualname}::save-before-write#{i}"
                reads = [r for r in walk_no_nested(fi.node) if isinstance(r, ast.Call) and (call_name(r) or "") == "getattr" and len(r.args) >= 2 and ast.unparse(r.args[0]) == tgt and ast.unparse(r.args[1]) == attr]
                good = []
                for r in reads:
                    st = enclosing_stmt(r)
                    if isinstance(st, (ast.Assign, ast.AnnAssign)) and st is not None and g.dominates(st, enclosing_stmt(c)) and st.lineno < c.lineno:
                        t = st.targets[0] if isinstance(st, ast.Assign) else st.target
                        if isinstance(t, ast.Name):
                            good.append(t.id)
                if good:
                    saved_names |= set(good)
                    res.ok("R-C13e", f"{m.rel}:{c.lineno}", key, f"`{good[0]} = getattr({tgt}, {attr}, …)` precedes the write", fi.qualname)
                else:
                    res.violation("R-C13e", f"{m.rel}:{c.lineno}", key, f"setattr({tgt}, {attr}, …) is not preceded by a read of the original on every path: the value restored later is not the pre-patch value", fi.qualname)
            # what is written back?
            carriers = du.forward(saved_names) if saved_names else set()
            for i, c in enumerate(sorted(back, key=lambda x: x.lineno)):
                key = f"{m.rel}::{fi.qualname}::restore-value#{i}"
                v = c.args[2]
                names = du.closure(names_in(v)) | names_in(v)
                keyed = any(isinstance(x, ast.Constant) and isinstance(x.value, str) and x.value in saved_names for x in ast.walk(v))
                # same tuple position: `for a, b, orig in reversed(applied)` where applied.append((a, b, orig))
                positional = False
                if isinstance(v, ast.Name):
                    for d in du.defs.get(v.id, []):
                        if d.kind in ("for", "comp") and d.index is not None and d.value is not None:
                            for coll in names_in(d.value):
                                for app in walk_no_nested(fi.node):
                                    if isinstance(app, ast.Call) and isinstance(app.func, ast.Attribute) and app.func.attr == "append" and isinstance(app.func.value, ast.Name) and app.func.value.id == coll and app.args and isinstance(app.args[0], ast.Tuple):
                                        elts = app.args[0].elts
                                        if d.index < len(elts) and isinstance(elts[d.index], ast.Name) and elts[d.index].id in saved_names:
                                            positional = True
                # record-style storage: {"orig": orig, …} written, st["orig"] / st.get("orig") read back
                rec_keys = {}
                for dct in walk_no_nested(fi.node):
                    if isinstance(dct, ast.Dict):
                        for kk, vv in zip(dct.keys, dct.values):
                            if isinstance(kk, ast.Constant) and isinstance(kk.value, str) and isinstance(vv, ast.Name):
                                rec_keys[kk.value] = vv.id
                acc_key = None
                if isinstance(v, ast.Subscript) and isinstance(v.slice, ast.Constant) and isinstance(v.slice.value, str):
                    acc_key = v.slice.value
                elif isinstance(v, ast.Call) and isinstance(v.func, ast.Attribute) and v.func.attr == "get" and v.args and isinstance(v.args[0], ast.Constant):
                    acc_key = v.args[0].value
                if acc_key is not None:
                    via_record = rec_keys.get(acc_key) in saved_names
                    if via_record:
                        res.ok("R-C13e", f"{m.rel}:{c.lineno}", key, f"`{src(v, 30)}` reads the saved original back from its record", fi.qualname)
                    else:
                        res.violation("R-C13e", f"{m.rel}:{c.lineno}", key, f"the finally block writes back `{src(v, 40)}`; the record field {acc_key!r} does not hold the value saved before patching", fi.qualname)
                    continue
                if (names & saved_names) or keyed or positional or (names & carriers and not isinstance(v, ast.Constant)):
                    res.ok("R-C13e", f"{m.rel}:{c.lineno}", key, f"`{src(v, 30)}` is the saved original", fi.qualname)
                else:
                    res.violation("R-C13e", f"{m.rel}:{c.lineno}", key, f"the finally block writes back `{src(v, 40)}`, which is not the value saved before patching", fi.qualname)


# ---------------------------------------------------------------------------------------------- R-C13g
# receivers of reflective attribute writes that are NOT caller-supplied objects
OWN_RECEIVER_TAILS = ("_PRIM", "prim", "primitive")
REFLECTIVE_WRITERS = {"setattr", "object.__setattr__", "delattr"}
# functions that run when the USER decorates / registers something, not during a conversion
DECORATION_TIME = {"onnx_function", "register_primitive", "_decorate", "decorator", "wrapper"}


def rule_g(res: Results, idx: Index) -> None:
    """User model objects passed in are not mutated.  Every reflective attribute write (`setattr`, `object.__setattr__`,
    `delattr`, `<x>.__dict__[k] = v`) in the package is classified by its receiver: converter-owned objects (contexts,
    builders, plugin primitives), third-party namespaces (R-C13b), patch targets of the paired patchers (R-C13a), objects
    created in the same function, the decorated target at decoration time.  A receiver that is a parameter or a value
    derived from one — a callee instance, the user's function or module — is a violation."""
    res.rule("R-C13g", "reflective attribute writes never target caller-supplied objects during a conversion", floor=80)
    n = 0
    for m in idx.product_modules():
        for fi in list(m.funcs.values()) + [None]:
            nodes = walk_no_nested(fi.node) if fi is not None else [x for x in m.tree.body for x in ast.walk(x) if m.func_containing(x) is None]
            du = defuse(fi.node) if fi is not None else None
            for c in nodes:
                if not (isinstance(c, ast.Call) and (call_name(c) or "") in REFLECTIVE_WRITERS and c.args):
                    continue
                recv = c.args[0]
                d = dotted(recv) or ""
                base = d.split(".")[0] if d else ""
                n += 1
                fn = fi.qualname if fi is not None else "<module>"
                key = f"{m.rel}::{fn}::reflective-write::{d or src(recv, 30)}::{src(c.args[1], 30) if len(c.args) > 1 else ''}"
                site = f"{m.rel}:{c.lineno}"
                why = None
                if d and (d.split(".")[-1] in OWN_RECEIVER_TAILS or any(_own_object(p) for p in d.split("."))):
                    why = "converter-owned object"
                elif host_root(m, recv) is not None:
                    why = "third-party namespace (decided by R-C13b)"
                elif fi is None:
                    why = "module level"
                elif fi is not None and any(fi.qualname.split(".")[-1] == nm or f".{nm}." in f".{fi.qualname}." for nm in DECORATION_TIME):
                    why = "runs when the user applies the decorator, not during a conversion"
                elif du is not None and base and not du.is_param(base) and du.values(base) and all(isinstance(v, ast.Call) and ((call_name(v) or "").split(".")[-1][:1].isupper() or not (names_in(v) & {a.arg for a in fi.node.args.args})) for v in du.values(base)):  # type: ignore[attr-defined]
                    why = f"`{base}` is created in this function"
                elif fi is not None and _only_called_at_decoration(idx, fi):
                    why = "only called from the decorator: runs when the user decorates the target, not during a conversion"
                elif du is not None and base and _is_patch_target(fi, base):
                    why = "patch target of a paired patcher (R-C13a / R-C13f)"
                if why is not None:
                    res.ok("R-C13g", site, key, why, fn)
                    continue
                derived_from_param = du is not None and base and (du.is_param(base) or any(du.is_param(x) for x in du.closure({base})))
                if derived_from_param:
                    res.violation("R-C13g", site, key, f"`{src(c, 70)}` writes an attribute on `{d or base}`, which is (derived from) a parameter of `{fn}`: an object the caller supplied is changed by the conversion "
                                  "(its __dict__ / pytree structure differs afterwards)", fn)
                else:
                    res.unresolved("R-C13g", site, key, f"receiver `{d or src(recv, 30)}` not classified", fn)
    # plain attribute stores on parameters that carry a user object by name
    USER_OBJECT_PARAMS = {"instance", "callee", "module", "model", "user_fn", "orig_fn", "original_fn"}
    for m in idx.product_modules():
        for fi in m.funcs.values():
            params = {a.arg for a in fi.node.args.args + fi.node.args.kwonlyargs} & USER_OBJECT_PARAMS  # type: ignore[attr-defined]
            if not params:
                continue
            for st in walk_no_nested(fi.node):
                tgts = st.targets if isinstance(st, ast.Assign) else [st.target] if isinstance(st, (ast.AugAssign, ast.AnnAssign)) else []
                for t_ in tgts:
                    if isinstance(t_, ast.Attribute) and isinstance(t_.value, ast.Name) and t_.value.id in params:
                        n += 1
                        res.violation("R-C13g", f"{m.rel}:{st.lineno}", f"{m.rel}::{fi.qualname}::attribute-store::{t_.value.id}.{t_.attr}", f"`{src(st, 60)}` stores an attribute on the caller's `{t_.value.id}` object", fi.qualname)
    res.analysed["reflective_attribute_writes"] = n


def _only_called_at_decoration(idx: Index, fi: FuncInfo) -> bool:
    cg = get_callgraph(idx)
    callers = [cs.caller for cs in cg.callers_of(fi) if cs.caller is not None]
    return bool(callers) and all(any(c.qualname.split(".")[-1] == nm or f".{nm}." in f".{c.qualname}." for nm in DECORATION_TIME) for c in callers)


def _is_patch_target(fi: FuncInfo, name: str) -> bool:
    """the receiver is the loop variable / resolved target of a patcher that restores in a finally (functions of the patching layer)"""
    txt = fi.module.rel
    return txt.endswith(("_patching.py", "plugin_system.py")) and any(isinstance(n, ast.Try) and n.finalbody for n in ast.walk(fi.node)) or "patch" in fi.name.lower() or "patch" in fi.qualname.lower()


# ---------------------------------------------------------------------------------------------- R-C13h
def rule_h(res: Results, idx: Index) -> None:
    """JAX memoises traces per function object (jax.checkpoint / remat, jit, custom_jvp: weak-keyed caches inside JAX).  A
    user function traced while the substitutes are installed leaves a jaxpr made of jax2onnx's primitives in those caches:
    after to_onnx has returned, calling the same function eagerly replays it (concatenate raised TypeError, fori_loop had no
    evaluation rule).  The scopes that install the substitutes and then trace user code therefore have to drop JAX's caches
    when they are left (`jax.clear_caches` as the outermost exit action); the scope the top-level trace runs in must also
    drop them on entry, or a trace made before the export is replayed inside it (C14)."""
    res.rule("R-C13h", "scopes that trace user code with the substitutes installed isolate JAX's trace caches (cleared after the patches are undone; the outer scope also clears on entry)", floor=2)
    SITES = [("jax2onnx/converter/conversion_api.py", "_activate_plugin_worlds", True), ("jax2onnx/plugins/plugin_system.py", "_activate_full_plugin_worlds_for_body", False)]
    for rel, fn, need_entry in SITES:
        f = idx.find_func(rel, fn)
        if f is None:
            raise AnalysisError(f"{rel}::{fn} not found")
        key = f"{rel}::{fn}::trace-cache-isolation"
        yields = [y for y in walk_no_nested(f.node) if isinstance(y, (ast.Yield, ast.YieldFrom))]
        patches = [c for c in walk_no_nested(f.node) if isinstance(c, ast.Call) and any(isinstance(a, ast.Call) and (call_name(a) or "").endswith("apply_monkey_patches") for a in c.args)]
        if not yields or not patches:
            res.unresolved("R-C13h", f.site, key, "scope structure not recognised (no yield / no apply_monkey_patches)", f.qualname)
            continue
        def is_clear(e: ast.AST) -> bool:
            return (isinstance(e, ast.Attribute) and e.attr == "clear_caches") or (isinstance(e, ast.Call) and (call_name(e) or "").endswith("clear_caches"))
        # exit: `stack.callback(jax.clear_caches)` registered before the yield (runs while the stack unwinds),
        # or a `finally:` that calls it after the with-block
        exit_ok = None
        for c in walk_no_nested(f.node):
            if isinstance(c, ast.Call) and isinstance(c.func, ast.Attribute) and c.func.attr == "callback" and c.args and is_clear(c.args[0]) and c.lineno < yields[0].lineno:     # nothing is traced while the stack unwinds: any position before the yield is equivalent
                exit_ok = c
        for t in walk_no_nested(f.node):
            if isinstance(t, ast.Try) and t.finalbody and any(is_clear(x) for st in t.finalbody for x in ast.walk(st) if isinstance(x, ast.Call)) and any(y in list(ast.walk(t)) for y in yields):
                exit_ok = exit_ok or t
        entry_ok = next((c for c in walk_no_nested(f.node) if isinstance(c, ast.Call) and is_clear(c) and patches[0].lineno < c.lineno < yields[0].lineno), None)
        site = f"{rel}:{yields[0].lineno}"
        if exit_ok is None:
            res.violation("R-C13h", site, key, f"{fn} installs the substitutes, lets the caller trace user code and never clears JAX's caches afterwards: a jax.checkpoint / jit-wrapped user function traced inside keeps a "
                          "jaxpr of jax2onnx primitives, and calling it eagerly after to_onnx returns fails or computes through the substitutes", f.qualname)
        elif need_entry and entry_ok is None:
            res.violation("R-C13h", site, key, f"{fn} does not clear JAX's caches after installing the substitutes: a trace of the user function cached before the export is replayed instead of being re-traced, "
                          "so the export depends on whether the function was called before (softmax in a checkpointed function exports decomposed)", f.qualname)
        else:
            res.ok("R-C13h", site, key, "caches are cleared " + ("on entry and " if entry_ok is not None else "") + "after the patches are undone", f.qualname)
