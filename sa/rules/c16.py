"""C16 — failure is loud: never a silently different or partial model (structural part).

R-C16a  registry lookup: get_registered_lowering_plugin raises on every path that does not return a
        plugin; the checked dispatcher's three stages are on every path (C01 R-C01c, cross reference)
R-C16b  swallow lint on the export path: a `try` whose body emits nodes, binds values or lowers a
        sub-jaxpr, caught by a broad handler (bare / Exception / BaseException) that does not re-raise,
        must fall through to another lowering or binding before the function returns (a fallback), never
        straight to a normal return (a silently partial lowering)
R-C16c  optimizer failure policy: the handler around optimize_graph re-raises under the strict switch
        and logs otherwise; the switch reads the explicit argument first, then the environment variable
R-C16d  unsupported constructs raise before emission: reverse scan / N-way switch / bad trip counts
        (C06 R-C06b), unknown dimension operations (C04 R-C04b), dimension symbols without a recorded origin
"""
from __future__ import annotations

import ast
from typing import List, Optional, Set, Tuple

from ..cfg import _handler_names, cfg_of
from ..flow import defuse, names_in
from ..guards import src
from ..index import AnalysisError, FuncInfo, Index, Module, call_name, dotted, enclosing_stmt, walk_no_nested
from ..report import Results

LD = "jax2onnx/converter/lowering_dispatch.py"
CA = "jax2onnx/converter/conversion_api.py"
EMIT_LAST = {"bind_value_for_var", "lower_jaxpr_eqns", "lower_jaxpr_with_plugins", "add_node", "insert_before", "bind_const_for_var", "add_initializer_from_array",
             "add_initializer_from_scalar", "_const_i64", "builder_loop", "lower_equation_with_plugin"}
BROAD = {"Exception", "BaseException"}


def emission_calls(nodes) -> List[ast.Call]:
    out = []
    for st in nodes:
        for c in ast.walk(st):
            if isinstance(c, ast.Call):
                cn = call_name(c) or ""
                last = cn.split(".")[-1]
                if (isinstance(c.func, ast.Attribute) and c.func.attr[:1].isupper() and (dotted(c.func.value) or "").lower().endswith("builder")) or last in EMIT_LAST or (last == "lower" and "plugin" in cn.lower()):
                    out.append(c)
    return out


def swallow_sites(m: Module):
    for fi in m.funcs.values():
        for t in walk_no_nested(fi.node):
            if not isinstance(t, ast.Try):
                continue
            em = emission_calls(t.body)
            if not em:
                continue
            for h in t.handlers:
                names = _handler_names(h)
                broad = h.type is None or bool(names & BROAD)
                reraises = any(isinstance(x, ast.Raise) for st in h.body for x in ast.walk(st))
                if broad and not reraises:
                    yield fi, t, h, em


def classify_swallow(fi: FuncInfo, t: ast.Try, h: ast.ExceptHandler) -> Tuple[str, str]:
    g = cfg_of(fi.node)
    hnodes = g.nodes_of(h)
    if not hnodes:
        return "UNRESOLVED", "handler not in the CFG"
    # statements outside the try body that emit / bind / raise
    outside: Set[int] = set()
    try_body_ids = {id(x) for st in t.body for x in ast.walk(st)}
    for c in emission_calls([s for s in fi.node.body]):  # type: ignore[attr-defined]
        if id(c) in try_body_ids:
            continue
        st = enclosing_stmt(c)
        if st is not None:
            outside.update(g.nodes_of(st))
    for n, st in g.stmt_of.items():
        if isinstance(st, ast.Raise):
            outside.add(n)
    r = g.reachable(hnodes, removed_nodes=outside)
    if g.EXIT in r:
        return "VIOLATION", "after the swallowed exception control can reach a normal return without any further lowering, binding or raise"
    return "OK", "the handler falls through to an alternative lowering / binding (or a raise) on every path"


def run(res: Results, idx: Index, tier: str) -> None:
    res.rule("R-C16a", "a failed plugin lookup raises", floor=1)
    res.rule("R-C16b", "broad non-re-raising handlers around emitting code fall through to another lowering, never to a plain return", floor=1)
    res.rule("R-C16c", "optimizer failures re-raise under the strict switch and are logged otherwise", floor=3)
    res.rule("R-C16d", "unsupported constructs raise before emission: dimension symbols without origin, reverse scan / N-way switch / bad trip counts, unknown dimension operations", floor=5)
    res.assumptions += ["validity of the model when an optimizer pass aborts mid-rewrite (crash points inside a pass) is not decided"]

    # ---- R-C16a
    f = idx.func(LD, "get_registered_lowering_plugin")
    g = cfg_of(f.node)
    rets = [n for n in walk_no_nested(f.node) if isinstance(n, ast.Return)]
    key = f"{LD}::get_registered_lowering_plugin::raises"
    # every path to a normal exit goes through a `return <plugin>` guarded by `is not None`
    guarded = [r for r in rets if r.value is not None and not isinstance(r.value, ast.Constant) and any(isinstance(p, ast.If) for p in _parents(r))]
    if rets and len(guarded) == len(rets) and any(isinstance(n, ast.Raise) for n in walk_no_nested(f.node)) and not g.paths_to_exit_avoiding({x for r in rets for x in g.nodes_of(r)}):
        res.ok("R-C16a", f"{LD}:{f.node.lineno}", key, "returns only a found plugin; every other path raises NotImplementedError", f.qualname)
    else:
        res.violation("R-C16a", f"{LD}:{f.node.lineno}", key, "a missing plugin no longer raises on every path (an unregistered primitive would be skipped or lowered by a default)", f.qualname)

    # ---- R-C16b
    n_handlers = 0
    n_sites = 0
    for m in idx.product_modules():
        if m.rel.endswith(("_post_check_onnx_graph.py", "test_utils.py")) or ".plugins.examples" in m.name or ".sandbox" in m.name:
            continue
        n_handlers += sum(len(t.handlers) for t in ast.walk(m.tree) if isinstance(t, ast.Try))
        for fi, t, h, em in swallow_sites(m):
            n_sites += 1
            st, why = classify_swallow(fi, t, h)
            key = f"{m.rel}::{fi.qualname}::swallow::{(call_name(em[0]) or '').split('.')[-1]}"
            res.add("R-C16b", st, f"{m.rel}:{h.lineno}", key, f"`except {src(h.type) if h.type is not None else ''}` around `{src(em[0], 40)}`: {why}", fi.qualname)
    res.analysed["handlers_scanned"] = n_handlers
    res.analysed["broad_swallowing_handlers_around_emission"] = n_sites
    # positive control
    import textwrap
    cm = Module("<control>", "<control>", "control_c16", textwrap.dedent('''
        def lower(self, ctx, eqn):
            try:
                out = ctx.builder.Relu(x, _outputs=[ctx.fresh_name("y")])
                ctx.bind_value_for_var(eqn.outvars[0], out)
            except Exception:
                return
        def lower2(self, ctx, eqn):
            try:
                out = ctx.builder.Relu(x, _outputs=[ctx.fresh_name("y")])
                ctx.bind_value_for_var(eqn.outvars[0], out)
                return
            except Exception:
                pass
            out = ctx.builder.Identity(x, _outputs=[ctx.fresh_name("y")])
            ctx.bind_value_for_var(eqn.outvars[0], out)
    '''))
    got = [classify_swallow(fi, t, h)[0] for fi, t, h, em in swallow_sites(cm)]
    res.control("R-C16b", "swallow-and-return is flagged, swallow-and-fallback is not", got == ["VIOLATION", "OK"], str(got))

    # ---- R-C16c
    p = idx.func(CA, "_optimize_graph_with_failure_policy")
    tries = [t for t in walk_no_nested(p.node) if isinstance(t, ast.Try) and any(isinstance(c, ast.Call) and (call_name(c) or "").endswith("optimize_graph") for st in t.body for c in ast.walk(st))]
    key = f"{CA}::_optimize_graph_with_failure_policy::strict-reraise"
    if not tries or not tries[0].handlers:
        res.violation("R-C16c", f"{CA}:{p.node.lineno}", key, "optimize_graph is no longer wrapped by the failure policy", p.qualname)
    else:
        h = tries[0].handlers[0]
        strict_if = [n for st in h.body for n in ast.walk(st) if isinstance(n, ast.If) and any(isinstance(c, ast.Call) and "strict" in (call_name(c) or "") for c in ast.walk(n.test)) and any(isinstance(s, ast.Raise) and s.exc is None for s in n.body)]
        if strict_if:
            res.ok("R-C16c", f"{CA}:{strict_if[0].lineno}", key, "`if <strict>: raise` re-raises the original exception", p.qualname)
        else:
            res.violation("R-C16c", f"{CA}:{h.lineno}", key, "the strict switch no longer re-raises optimizer failures", p.qualname)
        key = f"{CA}::_optimize_graph_with_failure_policy::default-logs"
        logs = [c for st in h.body for c in ast.walk(st) if isinstance(c, ast.Call) and any(t in (call_name(c) or "").lower() for t in ("log", "warn"))]
        if logs:
            res.ok("R-C16c", f"{CA}:{logs[0].lineno}", key, "non-strict failures are logged", p.qualname)
        else:
            res.violation("R-C16c", f"{CA}:{h.lineno}", key, "non-strict optimizer failures are swallowed without a log record", p.qualname)
    s = idx.func(CA, "_resolve_strict_optimizer_failures")
    key = f"{CA}::_resolve_strict_optimizer_failures::precedence"
    rr = sorted([r for r in walk_no_nested(s.node) if isinstance(r, ast.Return)], key=lambda r: r.lineno)
    first_explicit = bool(rr) and isinstance(rr[0].value, ast.Name) and any(isinstance(pp, ast.If) and any(isinstance(c, ast.Compare) and isinstance(c.ops[0], ast.IsNot) for c in ast.walk(pp.test)) for pp in _parents(rr[0]))
    env = any(isinstance(c, ast.Call) and "env" in (call_name(c) or "").lower() for c in walk_no_nested(s.node))
    if first_explicit and env:
        res.ok("R-C16c", f"{CA}:{s.node.lineno}", key, "explicit argument wins, else the environment switch", s.qualname)
    else:
        res.violation("R-C16c", f"{CA}:{s.node.lineno}", key, "strict-failure resolution no longer honours the explicit argument first and the environment switch otherwise", s.qualname)

    # ---- R-C16d
    f = idx.func("jax2onnx/converter/lower_dimexpr.py", "LowerDimExpr._get_dim_value")
    g = cfg_of(f.node)
    key = "jax2onnx/converter/lower_dimexpr.py::LowerDimExpr._get_dim_value::missing-origin-raises"
    guards = [n for n in walk_no_nested(f.node) if isinstance(n, ast.If) and any(isinstance(c, ast.Compare) and isinstance(c.ops[0], ast.Is) and isinstance(c.comparators[0], ast.Constant) and c.comparators[0].value is None for c in ast.walk(n.test)) and any(isinstance(x, ast.Raise) for x in n.body)]
    emits = [enclosing_stmt(c) for c in emission_calls(f.node.body)]  # type: ignore[attr-defined]
    if guards and emits and all(g.must_pass_edges(g.nodes_of(e), [(n, "F") for gd in guards for n in g.nodes_of(gd)]) for e in emits if e is not None):
        res.ok("R-C16d", f"jax2onnx/converter/lower_dimexpr.py:{guards[0].lineno}", key, "a dimension symbol without origin raises before any node is emitted", f.qualname)
    else:
        res.violation("R-C16d", f"jax2onnx/converter/lower_dimexpr.py:{f.node.lineno}", key, "a dimension symbol without a recorded origin does not raise before emission", f.qualname)


    # the rejections listed in the docstring are decided by their own properties' rules; the same instances are
    # decided here as well, so that an unsupported construct that stops raising is reported as a loud-failure defect
    from . import c04, c06
    n_x = 0
    for mod, prop, rid in ((c06, "C06", "R-C06b"), (c04, "C04", "R-C04b")):
        sub = Results(prop, tier)
        setattr(sub, "_nested_xref", True)
        mod.run(sub, idx, tier)
        for inst in sub.instances:
            # C04 R-C04b: only the "unknown operation raises" instance is about loud failure (the operator table is C04's)
            if rid == "R-C04b" and not inst.key.endswith("::unknown-operation"):
                continue
            if inst.rule == rid and ("raise" in inst.detail or "reject" in inst.detail or inst.status != "OK"):
                n_x += 1
                res.add("R-C16d", inst.status, inst.site, f"{rid}::{inst.key}", f"[{prop} {rid}] {inst.detail}", inst.func)
    # a function body that needs a dimension symbol none of its inputs carries must fail with "no origin registered": the
    # function-body context may not be handed the enclosing graph's origin tables (C03 R-C03f, function_scope instances)
    from . import c03
    sub3 = Results("C03", tier)
    setattr(sub3, "_nested_xref", True)
    c03.rule_f(sub3, idx)
    for inst in sub3.instances:
        if inst.rule == "R-C03f" and "function_scope.py" in inst.key:
            n_x += 1
            res.add("R-C16d", inst.status, inst.site, f"R-C03f::{inst.key}", f"[C03 R-C03f] {inst.detail}", inst.func)
    res.analysed["cross_referenced_rejections"] = n_x
    rule_e(res, idx)
    if not getattr(res, "_nested_xref", False):
        # under the default (non-strict) policy a pass that raises leaves the graph as the EARLIER passes left it: every pass
        # must hand over a well-formed graph on its own, it may not rely on a later pass to repair node order (C02 R-C02p)
        from . import c02
        res.rule("R-C16f", "each optimizer pass leaves a topologically sorted graph behind: inserted nodes are anchored before their readers (C02 R-C02p)", floor=3)
        sub2 = Results("C02", tier)
        setattr(sub2, "_nested_xref", True)
        c02.rule_p(sub2, idx, idx.module(c02.OPT))
        for inst in sub2.instances:
            if inst.rule == "R-C02p":
                res.add("R-C16f", inst.status, inst.site, f"R-C02p::{inst.key}", f"[C02 R-C02p] {inst.detail}", inst.func)
    if n_x < 4:
        raise AnalysisError(f"only {n_x} rejection instances cross-referenced from C06 R-C06b / C04 R-C04b (expected >= 4)")


def _parents(n: ast.AST):
    cur = getattr(n, "parent", None)
    while cur is not None:
        yield cur
        cur = getattr(cur, "parent", None)


# ---------------------------------------------------------------------------------------------- R-C16e
def rule_e(res: Results, idx: Index) -> None:
    """`return` / `break` / `continue` inside a `finally:` block discards the exception in flight: the `try` (and every
    `with` that wraps a generator-based context manager built on it) completes normally and the failure is silent.  Every
    `finally` block of the product (converter, plugins, user interface) is an instance; a jump statement in it is allowed
    only inside a nested function / loop that it does not leave."""
    res.rule("R-C16e", "no `finally:` block of the conversion path leaves through return / break / continue (which would discard the exception in flight)", floor=8)
    n = 0
    for m in idx.product_modules():
        for fi in list(m.funcs.values()):
            for t in walk_no_nested(fi.node):
                if not isinstance(t, ast.Try) or not t.finalbody:
                    continue
                n += 1
                key = f"{m.rel}::{fi.qualname}::finally#{sum(1 for x in walk_no_nested(fi.node) if isinstance(x, ast.Try) and x.finalbody and x.lineno < t.lineno)}"
                bad = None

                def scan(stmts, in_loop: bool):
                    nonlocal bad
                    for st in stmts:
                        if bad is not None:
                            return
                        if isinstance(st, (ast.FunctionDef, ast.AsyncFunctionDef, ast.ClassDef)):
                            continue
                        if isinstance(st, ast.Return):
                            bad = st
                            return
                        if isinstance(st, (ast.Break, ast.Continue)) and not in_loop:
                            bad = st
                            return
                        for fld in ("body", "orelse", "finalbody"):
                            sub = getattr(st, fld, None)
                            if isinstance(sub, list):
                                scan(sub, in_loop or (isinstance(st, (ast.For, ast.While, ast.AsyncFor)) and fld == "body"))
                        for h in getattr(st, "handlers", []) or []:
                            scan(h.body, in_loop)
                scan(t.finalbody, False)
                site = f"{m.rel}:{t.finalbody[0].lineno}"
                if bad is not None:
                    res.violation("R-C16e", f"{m.rel}:{bad.lineno}", key, f"`{type(bad).__name__.lower()}` at line {bad.lineno} leaves the finally block of the try at line {t.lineno}: an exception raised in the "
                                  f"protected block (a failed lowering, an unsupported construct) is discarded and the caller continues as if it had succeeded", fi.qualname)
                else:
                    res.ok("R-C16e", site, key, "finally block falls through (re-raises the exception in flight)", fi.qualname)
    res.analysed["finally_blocks"] = n
