"""C06 — control flow is preserved for every branch choice and trip count (structural part).

R-C06a  cond branch mapping: JAX stores branches as (false, true); element 1 must reach `then_branch=`,
        element 0 `else_branch=` of the emitted If (def-use across _extract_branches and lower)
R-C06b  unsupported variants are rejected before anything is emitted: reverse scan, inconsistent scan
        arity / scanned extents, negative fori trip count, missing while cond/body, cond with other than two
        branches (tuple-unpack into exactly two names)
R-C06c  loop / branch bodies are lowered through the checked dispatcher (lower_jaxpr_eqns ->
        lower_jaxpr_with_plugins); see also C01 R-C01c
R-C06d  loop-entry provenance: while_loop's initial Loop condition is computed by evaluating the cond jaxpr
        on the initial state (never a constant) — the necessary condition for zero-iteration loops; scan's and
        fori_loop's trip count derives from the `length` / `trip_count` parameter or the scanned operand's extent
"""
from __future__ import annotations

import ast
from typing import Dict, List, Optional, Set, Tuple

from ..cfg import cfg_of
from ..flow import defuse, names_in, str_consts_in
from ..guards import path_conditions, rejects, src
from ..index import AnalysisError, FuncInfo, Index, call_name, dotted, enclosing_stmt, parents, walk_no_nested
from ..report import Results

LAX = "jax2onnx/plugins/jax/lax/"


def _closure_exprs(du, e: ast.AST) -> List[ast.AST]:
    out = [e]
    for nm in du.closure(names_in(e)):
        out += du.values(nm)
    return out


def _loop_input_lists(fi: FuncInfo) -> List[Tuple[ast.AST, List[ast.expr]]]:
    """list literals that become the inputs of a Loop: splatted into builder_loop / builder.Loop, or passed as inputs="""
    du = defuse(fi.node)
    out = []
    for c in walk_no_nested(fi.node):
        if not isinstance(c, ast.Call):
            continue
        cn = (call_name(c) or "").split(".")[-1]
        cand: List[ast.AST] = []
        if cn in ("builder_loop", "Loop"):
            cand = [a.value for a in c.args if isinstance(a, ast.Starred)]
            direct = [a for a in c.args if not isinstance(a, ast.Starred)]
            if cn == "Loop" and len(direct) >= 2:
                out.append((c, direct))
            if cn == "builder_loop" and len(direct) >= 3:
                out.append((c, direct[1:]))
        for k in c.keywords:
            if k.arg == "inputs" and cn in ("Node", "op", "add_node") and any(isinstance(a, ast.Constant) and a.value == "Loop" for a in ast.walk(c)):
                cand.append(k.value)
        for x in cand:
            if isinstance(x, ast.List):
                out.append((c, list(x.elts)))
            elif isinstance(x, ast.Name):
                for v in du.values(x.id):
                    if isinstance(v, ast.List):
                        out.append((c, list(v.elts)))
    return out


def run(res: Results, idx: Index, tier: str) -> None:
    res.rule("R-C06a", "cond: branches[1] -> then_branch, branches[0] -> else_branch", floor=2)
    res.rule("R-C06b", "unsupported control-flow variants raise before emission", floor=5)
    res.rule("R-C06c", "bodies are lowered through the checked dispatcher", floor=4)
    res.rule("R-C06d", "Loop entry inputs (initial condition / trip count) have the required data provenance", floor=3)
    res.assumptions += ["trip counts, carried-value wiring, zero-trip behaviour and stacked outputs themselves need execution and are not decided"]

    # ---------------- R-C06a
    cm = idx.module(LAX + "cond.py")
    ex = idx.func(LAX + "cond.py", "_extract_branches")
    du = defuse(ex.node)
    unpack = None
    for n in walk_no_nested(ex.node):
        if isinstance(n, ast.Assign) and isinstance(n.targets[0], ast.Tuple) and isinstance(n.value, ast.Subscript) and isinstance(n.value.slice, ast.Constant) and n.value.slice.value == "branches":
            unpack = n
    key = f"{LAX}cond.py::_extract_branches::two-branches"
    if unpack is None or len(unpack.targets[0].elts) != 2 or any(isinstance(e, ast.Starred) for e in unpack.targets[0].elts):
        res.violation("R-C06b", f"{LAX}cond.py:{ex.node.lineno}", key, "params['branches'] is not unpacked into exactly two names: an N-way switch would be exported as a 2-way If instead of failing", ex.qualname)
        false_src = true_src = None
    else:
        res.ok("R-C06b", f"{LAX}cond.py:{unpack.lineno}", key, "exactly two branches are unpacked (any other arity raises ValueError)", ex.qualname)
        false_src, true_src = [e.id for e in unpack.targets[0].elts]  # JAX: branches = (false_fun, true_fun)
    r_true = None
    rets = [r for r in walk_no_nested(ex.node) if isinstance(r, ast.Return) and isinstance(r.value, ast.Tuple) and len(r.value.elts) == 2]
    if rets and true_src:
        for i, el in enumerate(rets[0].value.elts):
            cl = du.closure(names_in(el))
            if true_src in cl and false_src not in cl:
                r_true = i
    lw = None
    for c in cm.classes.values():
        if "lower" in c.methods:
            lw = c.methods["lower"]
    key = f"{LAX}cond.py::CondPlugin.lower::then-else"
    if lw is None or r_true is None:
        res.unresolved("R-C06a", f"{LAX}cond.py:{ex.node.lineno}", key, "branch extraction not in the recognised form", ex.qualname)
    else:
        dl = defuse(lw.node)
        # names unpacked from _extract_branches(...) by outer position
        pos_names: Dict[int, Set[str]] = {}
        for nm, ds in dl.defs.items():
            for d in ds:
                if d.kind == "unpack" and isinstance(d.value, ast.Call) and (call_name(d.value) or "").endswith("_extract_branches") and d.index is not None:
                    pos_names.setdefault(d.index, set()).add(nm)
        ifs = [c for c in walk_no_nested(lw.node) if isinstance(c, ast.Call) and (call_name(c) or "").endswith(".If")]
        if not ifs or not pos_names:
            res.unresolved("R-C06a", f"{LAX}cond.py:{lw.node.lineno}", key, "If emission or branch unpack not found", lw.qualname)
        else:
            kw = {k.arg: k.value for k in ifs[0].keywords}
            def roles(e: Optional[ast.AST]) -> Set[int]:
                if e is None:
                    return set()
                cl = dl.closure(names_in(e))
                return {i for i, nms in pos_names.items() if nms & cl}
            t_roles, e_roles = roles(kw.get("then_branch")), roles(kw.get("else_branch"))
            if t_roles == {r_true} and e_roles == {1 - r_true}:
                res.ok("R-C06a", f"{LAX}cond.py:{ifs[0].lineno}", key, "then_branch is built from branches[1] (true), else_branch from branches[0] (false)", lw.qualname)
                res.ok("R-C06a", f"{LAX}cond.py:{unpack.lineno}", f"{LAX}cond.py::_extract_branches::order", f"`{false_src}, {true_src} = params['branches']` follows JAX's (false, true) order", ex.qualname)
            else:
                res.violation("R-C06a", f"{LAX}cond.py:{ifs[0].lineno}", key, "the If node's then/else graphs are not built from branches[1] / branches[0]: the exported model takes the opposite branch", lw.qualname)

    # ---------------- R-C06b
    sc = None
    for c in idx.module(LAX + "scan.py").classes.values():
        if "lower" in c.methods and c.name.startswith("Scan"):
            sc = c
    if sc is None:
        raise AnalysisError("ScanPlugin not found")
    slow = sc.methods["lower"]
    g = cfg_of(slow.node)
    # reverse scans: on the path to every lowering call either `reverse` is known False as a whole atom
    # (a conjunction such as `reverse and num_scan > 0` being false does not imply that), or the callee reads it
    ds_ = defuse(slow.node)

    def _reads_reverse(e: ast.AST) -> bool:
        if "reverse" in str_consts_in(e) and not isinstance(e, ast.BoolOp):
            return True
        if isinstance(e, ast.Name):
            return any("reverse" in str_consts_in(v) and not isinstance(v, ast.BoolOp) for v in ds_.values(e.id))
        return False
    lowering_calls = [c for c in walk_no_nested(slow.node) if isinstance(c, ast.Call) and ((call_name(c) or "").split(".")[-1].startswith("_lower_") or ".builder." in (call_name(c) or ""))]
    if not lowering_calls:
        raise AnalysisError("ScanPlugin.lower no longer calls a _lower_* method")
    from .c01 import reads_in_function
    for c in lowering_calls:
        cname = (call_name(c) or "").split(".")[-1]
        key = f"{LAX}scan.py::ScanPlugin.lower::reverse::{cname}"
        rejected = any((not want) and _reads_reverse(e) for e, want in path_conditions(c))
        callee = sc.methods.get(cname)
        consumes = False
        if callee is not None:
            keys, esc = reads_in_function(callee)
            consumes = "reverse" in keys or any(a.arg == "reverse" for a in callee.node.args.args + callee.node.args.kwonlyargs)  # type: ignore[attr-defined]
        if rejected:
            res.ok("R-C06b", f"{LAX}scan.py:{c.lineno}", key, "`reverse=True` raises on every path before this lowering", slow.qualname)
        elif consumes:
            res.ok("R-C06b", f"{LAX}scan.py:{c.lineno}", key, f"{cname}() reads the `reverse` parameter itself", slow.qualname)
        else:
            res.violation("R-C06b", f"{LAX}scan.py:{c.lineno}", key, f"{cname}() can be reached with reverse=True (no test of `reverse` alone is false on the path) and does not read `reverse`: a reverse scan is exported as a forward one", slow.qualname)
    key = f"{LAX}scan.py::ScanPlugin::scanned-extent-consistency"
    ext = [n for f in sc.methods.values() for n in walk_no_nested(f.node) if isinstance(n, ast.If) and isinstance(n.test, ast.Compare) and isinstance(n.test.ops[0], ast.NotEq) and any(isinstance(s, ast.Raise) for s in n.body) and "trip" in ast.unparse(n.test)]
    if ext:
        res.ok("R-C06b", f"{LAX}scan.py:{ext[0].lineno}", key, "scanned operands with an extent different from `length` raise", sc.name)
    else:
        res.violation("R-C06b", f"{LAX}scan.py:{slow.node.lineno}", key, "scanned inputs of different lengths are no longer rejected", sc.name)
    ar = idx.find_func("jax2onnx/_compat/jax.py", "scan_arity")
    key = "jax2onnx/_compat/jax.py::scan_arity::raises"
    if ar is not None and any(isinstance(n, ast.Raise) for n in walk_no_nested(ar.node)):
        res.ok("R-C06b", f"jax2onnx/_compat/jax.py:{ar.node.lineno}", key, "inconsistent arity raises", ar.qualname)
    else:
        res.violation("R-C06b", "jax2onnx/_compat/jax.py:1", key, "scan_arity no longer raises on an undecodable arity", "scan_arity")
    fm = idx.module(LAX + "fori_loop.py")
    flow = next((c.methods["lower"] for c in fm.classes.values() if "lower" in c.methods), None)
    key = f"{LAX}fori_loop.py::lower::negative-trip-count"
    if flow is not None:
        ng = [n for n in walk_no_nested(flow.node) if isinstance(n, ast.If) and any(isinstance(c, ast.Compare) and isinstance(c.ops[0], ast.Lt) and "trip_count" in names_in(c) for c in ast.walk(n.test)) and any(isinstance(s, ast.Raise) for s in n.body)]  # (lowering-side check; the binding-side clamp below is the decisive one)
        bind = next((f for f in fm.funcs.values() if f.name == "_fori_loop_binding"), None)
        clamp = bind is not None and any(isinstance(n, ast.If) and rejects(n.test, lambda t: isinstance(t, ast.Compare) and isinstance(t.ops[0], ast.Lt) and "trip_count" in names_in(t))
                                         and any(isinstance(a, ast.Assign) and isinstance(a.value, ast.Constant) and a.value.value == 0 for a in n.body) for n in walk_no_nested(bind.node))
        if ng or clamp:
            res.ok("R-C06b", f"{LAX}fori_loop.py:{(ng[0].lineno if ng else bind.node.lineno)}", key, "negative trip counts are clamped to zero at binding time / rejected at lowering", flow.qualname)
        else:
            res.violation("R-C06b", f"{LAX}fori_loop.py:{flow.node.lineno}", key, "upper < lower is neither clamped to zero iterations nor rejected", flow.qualname)
    wm = idx.module(LAX + "while_loop.py")
    wlow = next((c.methods["lower"] for c in wm.classes.values() if "lower" in c.methods), None)
    if wlow is None:
        raise AnalysisError("while_loop plugin lower() not found")
    key = f"{LAX}while_loop.py::lower::missing-jaxprs"
    mg = [n for n in walk_no_nested(wlow.node) if isinstance(n, ast.If) and any(isinstance(s, ast.Raise) for s in n.body) and rejects(n.test, lambda t: isinstance(t, ast.Compare) and isinstance(t.ops[0], ast.Is) and isinstance(t.comparators[0], ast.Constant) and t.comparators[0].value is None)]
    res.add("R-C06b", "OK" if mg else "VIOLATION", f"{LAX}while_loop.py:{(mg[0].lineno if mg else wlow.node.lineno)}", key, "missing cond/body jaxpr raises" if mg else "a while_loop without cond/body jaxpr is not rejected", wlow.qualname)

    # ---------------- R-C06c
    for rel in ("cond.py", "while_loop.py", "fori_loop.py", "scan.py"):
        m = idx.module(LAX + rel)
        key = f"{LAX}{rel}::body-dispatch"
        calls = [c for c in ast.walk(m.tree) if isinstance(c, ast.Call) and (call_name(c) or "").split(".")[-1] in ("lower_jaxpr_eqns", "lower_jaxpr_with_plugins", "_evaluate_closed_jaxpr")]
        if calls:
            res.ok("R-C06c", f"{LAX}{rel}:{calls[0].lineno}", key, f"{len(calls)} body lowering call(s) go through the checked dispatcher", "")
        else:
            res.violation("R-C06c", f"{LAX}{rel}:1", key, "the plugin no longer lowers its body through lower_jaxpr_eqns / lower_jaxpr_with_plugins", "")
    ev = idx.find_func(LAX + "while_loop.py", "_evaluate_closed_jaxpr") or idx.find_func(LAX + "_control_flow_utils.py", "_evaluate_closed_jaxpr")
    if ev is not None:
        key = f"{ev.module.rel}::_evaluate_closed_jaxpr::dispatch"
        ok = any(isinstance(c, ast.Call) and (call_name(c) or "").split(".")[-1] in ("lower_jaxpr_eqns", "lower_jaxpr_with_plugins") for c in walk_no_nested(ev.node))
        res.add("R-C06c", "OK" if ok else "VIOLATION", f"{ev.module.rel}:{ev.node.lineno}", key, "" if ok else "cond evaluation bypasses the checked dispatcher", ev.qualname)

    # ---------------- R-C06d
    dw = defuse(wlow.node)
    lists = _loop_input_lists(wlow)
    key = f"{LAX}while_loop.py::lower::initial-condition"
    if not lists:
        res.unresolved("R-C06d", f"{LAX}while_loop.py:{wlow.node.lineno}", key, "Loop input list not found", wlow.qualname)
    else:
        call, elts = lists[0]
        cond0 = elts[1] if len(elts) > 1 else None
        exprs = _closure_exprs(dw, cond0) if cond0 is not None else []
        evals = [c for e in exprs for c in ast.walk(e) if isinstance(c, ast.Call) and (call_name(c) or "").endswith("_evaluate_closed_jaxpr")]
        on_state = False
        for c in evals:
            argn: Set[str] = set()
            for a in c.args:
                argn |= dw.closure(names_in(a))
            if any("cond" in n for n in argn) and any(("state" in n or "input_vals" in n or "invars" in n) for n in argn):
                on_state = True
        const_only = cond0 is not None and not evals
        if evals and on_state:
            res.ok("R-C06d", f"{LAX}while_loop.py:{call.lineno}", key, "the Loop's initial condition is the cond jaxpr evaluated on the initial state", wlow.qualname)
        else:
            res.violation("R-C06d", f"{LAX}while_loop.py:{call.lineno}", key, f"the Loop's initial condition `{src(cond0) if cond0 is not None else '?'}` is not computed from the cond jaxpr on the initial state"
                          + (" (a constant: the body runs once even when the condition is false at entry)" if const_only else ""), wlow.qualname)
    # fori
    if flow is not None:
        df = defuse(flow.node)
        lists = _loop_input_lists(flow)
        key = f"{LAX}fori_loop.py::lower::trip-count"
        if not lists:
            res.unresolved("R-C06d", f"{LAX}fori_loop.py:{flow.node.lineno}", key, "Loop input list not found", flow.qualname)
        else:
            call, elts = lists[0]
            exprs = _closure_exprs(df, elts[0])
            ok = any("trip_count" in str_consts_in(e) for e in exprs)
            res.add("R-C06d", "OK" if ok else "VIOLATION", f"{LAX}fori_loop.py:{call.lineno}", key, "trip count derives from params['trip_count']" if ok else f"the Loop trip count `{src(elts[0])}` does not derive from the trip_count parameter", flow.qualname)
    rule_e(res, idx)
    rule_f(res, idx)
    rule_g(res, idx, tier)
    rule_i(res, idx)
    rule_j(res, idx)
    rule_k(res, idx)
    # R-C06g: results inside loop bodies keep the shape JAX computed (no loop-context axis-0 override)
    from .c08 import rule_i as _aval_shape_rule
    _aval_shape_rule(res, idx, "R-C06g")
    # scan
    for mname in ("_lower_without_scan_inputs", "_lower_with_scan_inputs"):
        f = sc.methods.get(mname)
        key = f"{LAX}scan.py::ScanPlugin.{mname}::trip-count"
        if f is None:
            res.unresolved("R-C06d", f"{LAX}scan.py:1", key, "method not found", sc.name)
            continue
        ds = defuse(f.node)
        lists = _loop_input_lists(f)
        if not lists:
            # node_inputs = [trip, cond]; later extended
            for nm in ("node_inputs", "loop_inputs"):
                for v in ds.values(nm):
                    if isinstance(v, ast.List):
                        lists.append((v, list(v.elts)))
        if not lists:
            res.unresolved("R-C06d", f"{LAX}scan.py:{f.node.lineno}", key, "Loop input list not found", f.qualname)
            continue
        call, elts = lists[0]
        g = cfg_of(f.node)
        use_stmt = enclosing_stmt(call) if not isinstance(call, ast.stmt) else call

        def _mentions(e: ast.AST) -> Tuple[bool, bool]:
            exprs = _closure_exprs(ds, e)
            fl = any(isinstance(x, ast.Name) and x.id == "length" for v in exprs for x in ast.walk(v))
            fe = any(isinstance(c, ast.Call) and (call_name(c) or "").split(".")[-1] in ("_gather_int_scalar", "Shape", "_shape_of") for v in exprs for c in ast.walk(v))
            return fl, fe

        def _reaching(name: str, at: ast.AST) -> List:
            """Definitions of `name` from which `at` is reachable without passing another definition of it."""
            defs = [d for d in ds.defs.get(name, []) if d.kind in ("assign", "aug", "walrus") and d.value is not None]
            out = []
            at_nodes = set(g.nodes_of(at))
            for d in defs:
                others = {n for o in defs if o is not d for n in g.nodes_of(o.stmt)}
                if g.reachable(g.nodes_of(d.stmt), removed_nodes=others - set(g.nodes_of(d.stmt))) & at_nodes:
                    out.append(d)
            return out

        bad: List[str] = []
        n_defs = 0

        def _judge(e: ast.AST, at: ast.AST, depth: int = 0) -> None:
            nonlocal n_defs
            if isinstance(e, ast.Name) and depth < 4:
                rds = _reaching(e.id, at)
                if rds:
                    for d in rds:
                        if isinstance(d.value, ast.Constant) and d.value.value is None:
                            continue  # the `None` placeholder is replaced before use (tested by `is None`)
                        _judge(d.value, d.stmt, depth + 1)
                    return
            n_defs += 1
            fl, fe = _mentions(e)
            if not (fl or fe):
                bad.append(f"`{src(e, 60)}` (line {getattr(e, 'lineno', '?')})")
        _judge(elts[0], use_stmt)
        if not bad and n_defs:
            res.ok("R-C06d", f"{LAX}scan.py:{getattr(call, 'lineno', f.node.lineno)}", key, f"every definition of the trip count that reaches the Loop ({n_defs}) derives from `length` / the scanned operand's leading extent", f.qualname)
        else:
            res.violation("R-C06d", f"{LAX}scan.py:{getattr(call, 'lineno', f.node.lineno)}", key, f"a definition of the Loop trip count that reaches the node derives neither from `length` nor from the scanned operand's extent: {'; '.join(bad) or src(elts[0])} — the loop then runs a number of iterations unrelated to the scan length", f.qualname)


# ---------------------------------------------------------------------------------------------- R-C06e
def rule_e(res: Results, idx: Index) -> None:
    """fori_loop(lower, upper, …): the ONNX Loop counts 0..trip_count-1, so (1) the substitute binds
    trip_count = upper - lower and passes `lower` on, and (2) the body graph binds the body's index variable to the Loop
    iteration number plus `lower` whenever lower != 0."""
    res.rule("R-C06e", "fori_loop: trip count is upper - lower, the bound `lower` is the caller's, and the body index is iteration + lower", floor=3)
    rel = f"{LAX}fori_loop.py"
    m = idx.module(rel)
    bind_fn = next((f for f in m.funcs.values() if f.name == "_fori_loop_binding"), None)
    body_fn = m.funcs.get("_build_body_graph")
    if bind_fn is None or body_fn is None:
        raise AnalysisError("fori_loop: _fori_loop_binding / _build_body_graph not found")
    du = defuse(bind_fn.node)
    # (1) trip_count = f(upper) - f(lower)
    key = f"{rel}::{bind_fn.qualname}::trip-count-difference"
    subs = [d for d in du.defs.get("trip_count", []) if isinstance(d.value, ast.BinOp)]
    ok = False
    why = "no `trip_count = … - …` definition"
    for d in subs:
        if isinstance(d.value.op, ast.Sub):
            l, r = du.closure(names_in(d.value.left)) | names_in(d.value.left), du.closure(names_in(d.value.right)) | names_in(d.value.right)
            if "upper" in l and "lower" not in l and "lower" in r and "upper" not in r:
                ok = True
            else:
                why = f"`{src(d.value, 60)}` is not upper - lower"
        else:
            why = f"`{src(d.value, 60)}` is not a difference"
    res.add("R-C06e", "OK" if ok else "VIOLATION", f"{rel}:{(subs[0].stmt.lineno if subs else bind_fn.node.lineno)}", key, "trip_count = upper - lower" if ok else f"the number of iterations bound on the primitive is wrong: {why}", bind_fn.qualname)
    # (1b) the bounds are truncated with int(…) only after non-integer bounds were rejected (JAX raises TypeError for fori_loop(0, 2.5, …);
    #      int(2.5) would silently export two iterations)
    key = f"{rel}::{bind_fn.qualname}::bounds-integer-check"
    truncs = [c for c in walk_no_nested(bind_fn.node) if isinstance(c, ast.Call) and (call_name(c) or "") == "int" and c.args and names_in(c.args[0]) & {"upper", "lower"}]
    if truncs:
        first = min(truncs, key=lambda c: c.lineno)
        rejecting = [i for i in walk_no_nested(bind_fn.node) if isinstance(i, ast.If) and i.lineno < first.lineno and any(isinstance(x, ast.Raise) for b in i.body for x in ast.walk(b))
                     and {"lower", "upper"} <= (du.closure(names_in(i.test)) | names_in(i.test))
                     and any(tok in " ".join([src(i.test, 200)] + [src(d.value, 200) for nm in names_in(i.test) for d in du.defs.get(nm, []) if d.value is not None]) for tok in ("kind", "integer", "issubdtype", "isinstance", "Integral"))]
        if rejecting:
            res.ok("R-C06e", f"{rel}:{rejecting[0].lineno}", key, f"non-integer bounds are rejected (`{src(rejecting[0].test, 60)}`) before `{src(first, 40)}`", bind_fn.qualname)
        else:
            res.violation("R-C06e", f"{rel}:{first.lineno}", key, f"`{src(first, 50)}` truncates a bound without an integer-kind check before it: lax.fori_loop(0, 2.5, …) is a TypeError in JAX and is exported with two iterations", bind_fn.qualname)
    # (2) bind(..., trip_count=trip_count, lower=<lower>)
    binds = [c for c in walk_no_nested(bind_fn.node) if isinstance(c, ast.Call) and isinstance(c.func, ast.Attribute) and c.func.attr == "bind"]
    key = f"{rel}::{bind_fn.qualname}::bind-lower"
    if not binds:
        res.unresolved("R-C06e", f"{rel}:{bind_fn.node.lineno}", key, "no bind call", bind_fn.qualname)
    else:
        b = binds[0]
        kw = {k.arg: k.value for k in b.keywords}
        good = "lower" in kw and "lower" in (du.closure(names_in(kw["lower"])) | names_in(kw["lower"])) and "upper" not in names_in(kw["lower"]) \
            and "trip_count" in kw and "trip_count" in names_in(kw["trip_count"])
        res.add("R-C06e", "OK" if good else "VIOLATION", f"{rel}:{b.lineno}", key, "bind passes trip_count and the caller's lower" if good else "the primitive is not bound with trip_count=trip_count and lower=<the caller's lower>", bind_fn.qualname)
    # (3) body index = iteration + lower when lower != 0
    key = f"{rel}::_build_body_graph::index-offset"
    g = cfg_of(body_fn.node)
    dub = defuse(body_fn.node)
    def _is_lower_nonzero(t: ast.AST) -> bool:
        if isinstance(t, ast.Name) and t.id == "lower":
            return True  # truthiness
        if isinstance(t, ast.Compare) and names_in(t) == {"lower"} and len(t.ops) == 1 and isinstance(t.comparators[0], ast.Constant) and t.comparators[0].value == 0:
            return isinstance(t.ops[0], (ast.NotEq, ast.Gt))
        if isinstance(t, ast.Compare) and names_in(t) == {"lower"} and len(t.ops) == 1 and isinstance(t.left, ast.Constant) and t.left.value == 0:
            return isinstance(t.ops[0], (ast.NotEq, ast.Lt))
        return False
    guards = [st for st in walk_no_nested(body_fn.node) if isinstance(st, ast.If) and _is_lower_nonzero(st.test)]
    # an unconditional offset (Add always emitted) is fine as well
    unconditional = False
    binds_iter = [c for c in walk_no_nested(body_fn.node) if isinstance(c, ast.Call) and (call_name(c) or "").endswith("bind_value_for_var") and c.args and "iter_var" in names_in(c.args[0])]
    adds = [st for st in walk_no_nested(body_fn.node) if isinstance(st, ast.Assign) and isinstance(st.value, ast.Call) and (call_name(st.value) or "").endswith(".Add")]
    good_add = None
    for a in adds:
        args = a.value.args
        if len(args) >= 2:
            t0 = dub.closure(names_in(args[0])) | names_in(args[0])
            t1 = dub.closure(names_in(args[1])) | names_in(args[1])
            if ({"iter_input"} & (t0 | t1)) and ("lower" in (t0 | t1)):
                good_add = a
    if good_add is not None and binds_iter and not any(isinstance(p_, ast.If) for p_ in parents(good_add) if p_ is not body_fn.node):
        unconditional = True
    if unconditional:
        tgt = good_add.targets[0].id if isinstance(good_add.targets[0], ast.Name) else None
        bound = binds_iter[0].args[1] if len(binds_iter[0].args) > 1 else None
        flows = tgt is not None and bound is not None and tgt in (dub.closure(names_in(bound)) | names_in(bound))
        res.add("R-C06e", "OK" if flows else "VIOLATION", f"{rel}:{good_add.lineno}", key, "iteration + lower is always computed and bound to the body's index variable" if flows else "iteration + lower is computed but is not what the body's index variable is bound to", body_fn.qualname)
    elif not guards or not binds_iter or good_add is None:
        res.violation("R-C06e", f"{rel}:{body_fn.node.lineno}", key, "the body graph does not add `lower` to the Loop iteration number under `if lower != 0` before binding the body's index variable: fori_loop(lower>0, …) bodies see indices starting at 0", body_fn.qualname)
    else:
        t_edges = [(n, "T") for gd in guards for n in g.nodes_of(gd)]
        bind_stmt = enclosing_stmt(binds_iter[0])
        # on the T edge the Add must be passed, and the bound value must be (derived from) the Add's target
        passed = g.must_pass_nodes(g.nodes_of(bind_stmt), g.nodes_of(good_add)) or not (g.reachable([y for n, lab in t_edges for y, l2 in g.succ[n] if l2 == "T"], removed_nodes=set(g.nodes_of(good_add))) & set(g.nodes_of(bind_stmt)))
        # ... and the only way around the Add is the `lower == 0` edge of such a guard: no other condition (index dtype,
        # precision mode, …) may skip the offset
        f_edges = [(n, "F") for gd in guards for n in g.nodes_of(gd)]
        around = g.reachable([g.ENTRY], removed_nodes=set(g.nodes_of(good_add)), removed_edges=f_edges) & set(g.nodes_of(bind_stmt))
        if passed and around:
            res.violation("R-C06e", f"{rel}:{good_add.lineno}", key, "the binding of the body's index variable can be reached without the offset `iteration + lower` on a path that does not take the `lower == 0` edge: another condition skips the offset, so fori_loop(lower != 0, …) bodies see indices starting at 0 there", body_fn.qualname)
            passed = None
        tgt = good_add.targets[0].id if isinstance(good_add.targets[0], ast.Name) else None
        bound = binds_iter[0].args[1] if len(binds_iter[0].args) > 1 else None
        flows = tgt is not None and bound is not None and tgt in (dub.closure(names_in(bound)) | names_in(bound))
        if passed is None:
            pass
        elif passed and flows:
            res.ok("R-C06e", f"{rel}:{good_add.lineno}", key, "iteration + lower is computed on the lower != 0 branch and is what the body's index variable is bound to", body_fn.qualname)
        else:
            res.violation("R-C06e", f"{rel}:{good_add.lineno}", key, "the offset `iteration + lower` is not on every lower != 0 path to the binding of the body's index variable (or is not the bound value)", body_fn.qualname)


# ---------------------------------------------------------------------------------------------- R-C06f
def rule_f(res: Results, idx: Index) -> None:
    """while_loop body graph: the continuation condition for the next iteration has to be the cond jaxpr evaluated on the
    state the body *outputs* (for a vmapped loop: the masked / frozen state), i.e. on the same list that is appended to
    the body graph's outputs — not on intermediate candidates."""
    res.rule("R-C06f", "the while_loop body evaluates the next condition on the state values it outputs", floor=1)
    rel = f"{LAX}while_loop.py"
    m = idx.module(rel)
    f = m.funcs.get("_build_loop_body_graph")
    if f is None:
        raise AnalysisError("while_loop._build_loop_body_graph not found")
    du = defuse(f.node)
    ext = [c for c in walk_no_nested(f.node) if isinstance(c, ast.Call) and isinstance(c.func, ast.Attribute) and c.func.attr == "extend" and (dotted(c.func.value) or "").endswith("builder.outputs") and c.args and isinstance(c.args[0], ast.Name)]
    zips = [c for c in walk_no_nested(f.node) if isinstance(c, ast.Call) and (call_name(c) or "") == "zip" and len(c.args) == 2 and (dotted(c.args[0]) or "").endswith("cond_jaxpr.invars") and isinstance(c.args[1], ast.Name)]
    key = f"{rel}::_build_loop_body_graph::condition-on-output-state"
    if not ext or not zips:
        res.unresolved("R-C06f", f"{rel}:{f.node.lineno}", key, "state output list or cond input binding not recognised", f.qualname)
        return
    state_lists = {c.args[0].id for c in ext}
    cond_list = zips[0].args[1].id
    vals = [v for v in du.values(cond_list) if v is not None]
    used = set().union(*[names_in(v) for v in vals]) if vals else set()
    if used & state_lists:
        res.ok("R-C06f", f"{rel}:{zips[0].lineno}", key, f"`{cond_list}` is built from {sorted(used & state_lists)}, the list appended to the body outputs", f.qualname)
    else:
        res.violation("R-C06f", f"{rel}:{zips[0].lineno}", key, f"the cond jaxpr is evaluated on `{cond_list}` = {'; '.join(src(v, 50) for v in vals)}, which does not contain the state the body outputs ({sorted(state_lists)}): for a vmapped loop the condition is computed on un-masked candidates, so finished examples can switch back on", f.qualname)


# ---------------------------------------------------------------------------------------------- R-C06h
def rule_g(res: Results, idx: Index, tier: str) -> None:
    """A traced loop / branch body depends on everything its Python callable closes over.  A control-flow plugin that serves
    traced bodies from a module-level table must key the table by the callable itself (C14 R-C14g decides key completeness,
    including keys that see the callable only through `__code__` / `type()`); otherwise a second loop whose body differs
    only in a captured constant is exported with the first loop's body."""
    res.rule("R-C06h", "control-flow plugins do not serve traced bodies from a memo whose key forgets (part of) the body callable (C14 R-C14g)", floor=4)
    from . import c14
    sub = Results("C14", tier)
    setattr(sub, "_nested_xref", True)
    c14.rule_g(sub, idx)
    mods = [LAX + x for x in ("cond.py", "fori_loop.py", "while_loop.py", "scan.py", "_control_flow_utils.py")]
    for rel in mods:
        if idx.modules_by_rel().get(rel) is None if hasattr(idx, "modules_by_rel") else idx.module(rel) is None:
            raise AnalysisError(f"{rel} not found")
        insts = [i for i in sub.instances if i.rule == "R-C14g" and i.key.startswith(rel + "::")]
        if not insts:
            res.ok("R-C06h", f"{rel}:1", f"{rel}::no-body-memo", "no module-level memo table is read and written by the functions of this module", "")
        for inst in insts:
            res.add("R-C06h", inst.status, inst.site, f"R-C14g::{inst.key}", f"[C14 R-C14g] {inst.detail}", inst.func)


# ---------------------------------------------------------------------------------------------- R-C06i
_INT_CANON = {"_canon_int", "np.int32", "np.int64", "jnp.int32", "jnp.int64", "numpy.int32", "numpy.int64"}


def rule_i(res: Results, idx: Index) -> None:
    """`isinstance(True, int)` holds: a substitute that canonicalises Python integers among user values (loop carries,
    operands) to int32 / int64 turns a Python bool into an integer unless the test excludes bool — the carried value then
    has another element class than in JAX (fori_loop with a `True` carry returned int32)."""
    res.rule("R-C06i", "integer canonicalisation of user values (loop carries) does not capture Python bools", floor=1)
    n = 0
    for m in idx.product_modules():
        if "/plugins/" not in m.rel:
            continue
        for fi in m.funcs.values():
            for x in walk_no_nested(fi.node):
                if isinstance(x, ast.IfExp):
                    test, body = x.test, [x.body]
                elif isinstance(x, ast.If):
                    test, body = x.test, list(x.body)
                else:
                    continue
                var = None
                for t in ast.walk(test):
                    if isinstance(t, ast.Call) and (call_name(t) or "") == "isinstance" and len(t.args) == 2 and isinstance(t.args[0], ast.Name):
                        els = t.args[1].elts if isinstance(t.args[1], ast.Tuple) else [t.args[1]]
                        names = [src(e, 30) for e in els]
                        if "int" in names and "bool" not in names:
                            var = t.args[0].id
                if var is None:
                    continue
                conv = [c for b in body for c in ast.walk(b) if isinstance(c, ast.Call) and (call_name(c) or "") in _INT_CANON and any(isinstance(a, ast.Name) and a.id == var for a in c.args)]
                if not conv:
                    continue
                n += 1
                key = f"{m.rel}::{fi.qualname}::int-canonicalisation::{var}"
                site = f"{m.rel}:{x.lineno}"
                excl = any(isinstance(t, ast.UnaryOp) and isinstance(t.op, ast.Not) and isinstance(t.operand, ast.Call) and (call_name(t.operand) or "") == "isinstance"
                           and any(isinstance(a, ast.Name) and a.id == var for a in t.operand.args[:1]) and "bool" in src(t.operand.args[1], 40) for t in ast.walk(test))
                if excl:
                    res.ok("R-C06i", site, key, f"`{src(test, 70)}` excludes bool", fi.qualname)
                else:
                    res.violation("R-C06i", site, key, f"`{src(conv[0], 40)}` is applied whenever `{src(test, 60)}`; a Python bool is an int, so a boolean value among the user's values becomes an integer "
                                  "(the exported carry / result is INT32 where JAX has bool)", fi.qualname)
    res.analysed["int_canonicalisation_sites"] = n


# ---------------------------------------------------------------------------------------------- R-C06j
def rule_j(res: Results, idx: Index) -> None:
    """A branch or body function may return the same value at two positions (`return z, z`) or return one of its inputs.
    ONNX Runtime reads garbage for one copy when a subgraph lists one value twice among its outputs, so every output
    position needs a value of its own.  The loop plugins route every body output through a fresh clone / Identity; a builder
    that takes the values as they come and only protects against names in a guard set must add each emitted output's name to
    that set (otherwise `lax.cond(p, lambda y: (z, z), …)` exports a branch with a duplicated output)."""
    res.rule("R-C06j", "every position of a subgraph's output list gets a value of its own (fresh clone / Identity, or a duplicate guard that also covers earlier outputs)", floor=1)
    n = 0
    for m in idx.product_modules():
        if "/plugins/jax/lax/" not in m.rel:
            continue
        for fi in m.funcs.values():
            du = None
            for st in walk_no_nested(fi.node):
                if not (isinstance(st, ast.Assign) and len(st.targets) == 1 and isinstance(st.targets[0], ast.Attribute) and st.targets[0].attr == "outputs" and "builder" in src(st.targets[0].value, 40)
                        and isinstance(st.value, ast.Name)):
                    continue
                L = st.value.id
                loops = [lp for lp in walk_no_nested(fi.node) if isinstance(lp, ast.For) and any(isinstance(c, ast.Call) and isinstance(c.func, ast.Attribute) and c.func.attr == "append"
                         and isinstance(c.func.value, ast.Name) and c.func.value.id == L for c in ast.walk(lp))]
                if not loops:
                    continue
                lp = loops[0]
                n += 1
                key = f"{m.rel}::{fi.qualname}::subgraph-outputs::{L}"
                site = f"{m.rel}:{lp.lineno}"
                app = next(c for c in ast.walk(lp) if isinstance(c, ast.Call) and isinstance(c.func, ast.Attribute) and c.func.attr == "append" and isinstance(c.func.value, ast.Name) and c.func.value.id == L)
                v = app.args[0] if app.args else None
                if not isinstance(v, ast.Name):
                    res.unresolved("R-C06j", site, key, "appended value is not a plain name", fi.qualname)
                    continue
                defs = [d for d in walk_no_nested(lp) if isinstance(d, ast.Assign) and len(d.targets) == 1 and isinstance(d.targets[0], ast.Name) and d.targets[0].id == v.id]
                fresh = lambda e: isinstance(e, ast.Call) and ((isinstance(e.func, ast.Attribute) and e.func.attr == "Identity") or "clone" in (call_name(e) or "").lower())
                uncond = [d for d in defs if getattr(d, "parent", None) is lp]
                if uncond and all(fresh(d.value) or any(fresh(x) for x in ast.walk(d.value)) for d in uncond[-1:]):
                    res.ok("R-C06j", site, key, "every output is a fresh clone / Identity of the body value", fi.qualname)
                    continue
                guards = [g for g in ast.walk(lp) if isinstance(g, ast.If) and any(fresh(d.value) for d in ast.walk(g) if isinstance(d, ast.Assign)) and any(isinstance(c, ast.Compare) and isinstance(c.ops[0], ast.In) for c in ast.walk(g.test))]
                if not guards:
                    replaced = any(isinstance(x, ast.Assign) and isinstance(x.targets[0], ast.Subscript) and isinstance(x.targets[0].value, ast.Name) and x.targets[0].value.id == L for x in walk_no_nested(fi.node))
                    if replaced:
                        res.unresolved("R-C06j", site, key, f"`{L}` is filled with the body values as they come and entries are replaced later (`{L}[i] = …`, forced casts): whether every position ends up with a value of its own is not decided", fi.qualname)
                    else:
                        res.violation("R-C06j", site, key, f"the values of the branch / body results are appended to `{L}` as they are: a result returned twice, or a returned input, puts one value at two output positions", fi.qualname)
                    continue
                g = guards[0]
                sets = {c.comparators[0].id for c in ast.walk(g.test) if isinstance(c, ast.Compare) and isinstance(c.ops[0], ast.In) and isinstance(c.comparators[0], ast.Name)}
                grows = any(isinstance(c, ast.Call) and isinstance(c.func, ast.Attribute) and c.func.attr in ("add", "update") and isinstance(c.func.value, ast.Name) and c.func.value.id in sets for c in ast.walk(lp))
                if grows:
                    res.ok("R-C06j", site, key, f"duplicate guard `{src(g.test, 50)}` and the guard set grows with every emitted output", fi.qualname)
                else:
                    res.violation("R-C06j", f"{m.rel}:{g.lineno}", key, f"outputs are protected by `{src(g.test, 50)}` only, and `{sorted(sets)[0] if sets else '?'}` never learns the names already emitted: a branch that returns one value twice "
                                  "(`return z, z`) lists it twice among the subgraph outputs — ONNX Runtime loads the model and returns garbage for one copy", fi.qualname)
    res.analysed["subgraph_output_builders"] = n


# ---------------------------------------------------------------------------------------------- R-C06k
SHAPE_PRESERVING_PRODUCERS = {"Cast", "CastLike", "Identity"}
SHAPE_PRESERVING_HELPERS = {"clone_value_for_subgraph", "_maybe_cast_value", "builder_identity", "builder_cast"}
# a per-step slice of a stacked sequence: Gather(seq, <scalar iteration index>, axis=0) has the per-step variable's shape by construction
PER_STEP_SELECTORS = {"Gather"}
# operators whose result has another extent than their data operand whenever they do anything at all
EXTENT_CHANGING_PRODUCERS = {"Expand", "Tile", "Concat", "Pad", "Resize", "Upsample"}


def rule_k(res: Results, idx: Index) -> None:
    """Inside a Loop / If body, an equation reads its operands through `<body ctx>.get_value_for_var(var)`; the body's jaxpr was
    traced for operands of `var.aval.shape`.  The value a body variable is bound to may therefore only be the formal input, a
    clone, or the result of a shape-preserving operator on it (Cast / CastLike / Identity), or the per-step Gather of a stacked
    sequence.  A variable re-bound to `Expand(...)` / `Reshape(...)` / … of its value has another shape than the one every
    equation of the body was traced for (scan: per-step inputs expanded to a scatter's extent -> ys (5,1,3) exported as (5,2,3))."""
    res.rule("R-C06k", "body variables of Loop / If subgraphs are bound to the formal input, a clone, a shape-preserving operator on it, or the per-step slice", floor=10)
    n = 0
    for m in idx.product_modules():
        if not m.rel.startswith("jax2onnx/plugins/jax/lax/") or m.rel.rsplit("/", 1)[-1] not in ("scan.py", "while_loop.py", "fori_loop.py", "cond.py", "switch.py"):
            continue
        for fi in m.funcs.values():
            assigns = [a for a in walk_no_nested(fi.node) if isinstance(a, ast.Assign) and len(a.targets) == 1 and isinstance(a.targets[0], ast.Name)]
            for b in walk_no_nested(fi.node):
                if not (isinstance(b, ast.Call) and isinstance(b.func, ast.Attribute) and b.func.attr == "bind_value_for_var" and isinstance(b.func.value, ast.Name) and b.func.value.id != "ctx" and len(b.args) == 2):
                    continue
                n += 1
                v = b.args[1]
                key = f"{m.rel}::{fi.qualname}::body-var-binding::{src(b.args[0], 30)}<-{src(v, 30)}"
                site = f"{m.rel}:{b.lineno}"
                e: Optional[ast.AST] = v
                hops = 0
                while isinstance(e, ast.Name) and hops < 4:
                    prev = [a for a in assigns if a.targets[0].id == e.id and a.lineno <= b.lineno]
                    if not prev:
                        e = None
                        break
                    e = max(prev, key=lambda a: a.lineno).value
                    hops += 1
                    if isinstance(e, ast.Call) and (call_name(e) or "") in ("cast", "typing.cast") and len(e.args) == 2:
                        e = e.args[1]
                if e is None:
                    res.ok("R-C06k", site, key, f"`{src(v, 30)}` is a parameter / loop variable of the builder (the formal input as handed in)", fi.qualname)
                    continue
                if not isinstance(e, ast.Call):
                    res.unresolved("R-C06k", site, key, f"bound to `{src(e, 50)}`", fi.qualname)
                    continue
                cn = call_name(e) or ""
                last = cn.split(".")[-1]
                if ".builder." in f".{cn}" or cn.startswith("builder."):
                    if last in SHAPE_PRESERVING_PRODUCERS:
                        res.ok("R-C06k", site, key, f"`{last}` keeps the shape", fi.qualname)
                    elif last in PER_STEP_SELECTORS and any(kw.arg == "axis" and isinstance(kw.value, ast.Constant) and kw.value.value == 0 for kw in e.keywords):
                        res.ok("R-C06k", site, key, "per-step slice of the stacked sequence (Gather on axis 0 with the iteration index)", fi.qualname)
                    elif last not in EXTENT_CHANGING_PRODUCERS:
                        res.unresolved("R-C06k", site, key, f"bound to the result of `{last}`: whether it has the variable's shape is not decided", fi.qualname)
                    else:
                        res.violation("R-C06k", site, key, f"the body variable `{src(b.args[0], 30)}` is re-bound to the result of `{last}`: the equations of the body were traced for the variable's own shape, "
                                      f"`{last}` produces another one (stacked outputs and carries computed from it get other extents than JAX's)", fi.qualname)
                elif last in SHAPE_PRESERVING_HELPERS or last == "Value":
                    res.ok("R-C06k", site, key, f"`{last}` (clone / cast / fresh formal input)", fi.qualname)
                else:
                    res.unresolved("R-C06k", site, key, f"bound to the result of `{src(e, 50)}`", fi.qualname)
    res.analysed["body_var_bindings"] = n
