"""R-C01s — the nearest-neighbour Resize emitted for `jax.image.resize(method="nearest")` selects JAX's source pixel.

JAX: source index of output position i is floor((i + 0.5) * n_in / n_out).
ONNX Resize: x_orig = T(i) with T the `coordinate_transformation_mode`, index = N(x_orig) with N the `nearest_mode`, clamped.
Both are closed formulas over (i, n_in, n_out); the rule resolves the two attribute values the lowering emits on its `nearest`
path from the source and evaluates both formulas exactly (Fractions) on the grid n_in, n_out in 1..12.  A pair that differs on
the grid differs for the user (e.g. half_pixel + round_prefer_floor on every even integer down-sampling factor).
"""
from __future__ import annotations

import ast
import math
from fractions import Fraction
from typing import Dict, List, Optional, Tuple

from ..guards import src
from ..index import Index, call_name, walk_no_nested
from ..report import Results

_UNRES = object()


def _coord(ctm: str, i: int, n_in: int, n_out: int) -> Optional[Fraction]:
    scale = Fraction(n_out, n_in)
    if ctm == "half_pixel":
        return (Fraction(i) + Fraction(1, 2)) / scale - Fraction(1, 2)
    if ctm == "pytorch_half_pixel":
        return (Fraction(i) + Fraction(1, 2)) / scale - Fraction(1, 2) if n_out > 1 else Fraction(0)
    if ctm == "asymmetric":
        return Fraction(i) / scale
    if ctm == "align_corners":
        return Fraction(0) if n_out == 1 else Fraction(i) * Fraction(n_in - 1, n_out - 1)
    return None


def _nearest(mode: str, x: Fraction) -> Optional[int]:
    if mode == "round_prefer_floor":
        return math.ceil(x - Fraction(1, 2))
    if mode == "round_prefer_ceil":
        return math.floor(x + Fraction(1, 2))
    if mode == "floor":
        return math.floor(x)
    if mode == "ceil":
        return math.ceil(x)
    return None


def onnx_nearest_index(ctm: str, mode: str, i: int, n_in: int, n_out: int) -> Optional[int]:
    x = _coord(ctm, i, n_in, n_out)
    if x is None:
        return None
    k = _nearest(mode, x)
    if k is None:
        return None
    return min(max(k, 0), n_in - 1)


def jax_nearest_index(i: int, n_in: int, n_out: int) -> int:
    return min(max(math.floor((Fraction(i) + Fraction(1, 2)) * n_in / n_out), 0), n_in - 1)


def first_disagreement(ctm: str, mode: str, bound: int = 12) -> Optional[Tuple[int, int, int, int, int]]:
    for n_in in range(1, bound + 1):
        for n_out in range(1, bound + 1):
            for i in range(n_out):
                k = onnx_nearest_index(ctm, mode, i, n_in, n_out)
                if k is None:
                    raise ValueError(f"no reference semantics for ({ctm}, {mode})")
                j = jax_nearest_index(i, n_in, n_out)
                if k != j:
                    return (n_in, n_out, i, j, k)
    return None


def _eval(e: ast.AST, env: Dict[str, str]):
    """Evaluate an attribute-value / test expression over string constants and the method name; _UNRES when out of the fragment."""
    if isinstance(e, ast.Constant):
        return e.value
    if isinstance(e, ast.Name):
        return env.get(e.id, _UNRES)
    if isinstance(e, (ast.Set, ast.Tuple, ast.List)):
        vs = [_eval(x, env) for x in e.elts]
        return _UNRES if any(v is _UNRES for v in vs) else set(vs)
    if isinstance(e, ast.IfExp):
        t = _eval(e.test, env)
        if t is _UNRES:
            return _UNRES
        return _eval(e.body if t else e.orelse, env)
    if isinstance(e, ast.Compare) and len(e.ops) == 1:
        l, r = _eval(e.left, env), _eval(e.comparators[0], env)
        if l is _UNRES or r is _UNRES:
            return _UNRES
        op = e.ops[0]
        try:
            if isinstance(op, ast.Eq):
                return l == r
            if isinstance(op, ast.NotEq):
                return l != r
            if isinstance(op, ast.In):
                return l in r
            if isinstance(op, ast.NotIn):
                return l not in r
        except TypeError:
            return _UNRES
        return _UNRES
    if isinstance(e, ast.BoolOp):
        vs = [_eval(v, env) for v in e.values]
        if isinstance(e.op, ast.And):
            if any(v is False for v in vs):
                return False
            return _UNRES if any(v is _UNRES for v in vs) else all(vs)
        if any(v is True for v in vs):
            return True
        return _UNRES if any(v is _UNRES for v in vs) else any(vs)
    if isinstance(e, ast.UnaryOp) and isinstance(e.op, ast.Not):
        v = _eval(e.operand, env)
        return _UNRES if v is _UNRES else (not v)
    return _UNRES


KEYS = ("coordinate_transformation_mode", "nearest_mode")
ONNX_DEFAULTS = {"coordinate_transformation_mode": "half_pixel", "nearest_mode": "round_prefer_floor"}


def run_resize_nearest(res: Results, idx: Index) -> None:
    res.rule("R-C01s", "the (coordinate_transformation_mode, nearest_mode) pair emitted for nearest-neighbour resize selects JAX's source pixel floor((i + 0.5) * in / out) for every in, out <= 12", floor=1)
    n = 0
    for m in idx.product_modules():
        if "/plugins/" not in m.rel:
            continue
        for fi in m.funcs.values():
            calls = [c for c in walk_no_nested(fi.node) if isinstance(c, ast.Call) and (call_name(c) or "").endswith(".Resize")]
            if not calls:
                continue
            # the name the function compares with "nearest"
            mvars = {c.left.id for c in walk_no_nested(fi.node) if isinstance(c, ast.Compare) and isinstance(c.left, ast.Name) and len(c.comparators) == 1
                     and isinstance(c.comparators[0], ast.Constant) and c.comparators[0].value == "nearest"}
            if not mvars:
                continue
            env = {v: "nearest" for v in mvars}
            parents: Dict[int, ast.AST] = {}
            for p in ast.walk(fi.node):
                for ch in ast.iter_child_nodes(p):
                    parents[id(ch)] = p

            def reach(node: ast.AST):
                """True / False / _UNRES: is `node` executed when method == "nearest" (only the enclosing if-tests are looked at)."""
                cur = node
                verdict = True
                while id(cur) in parents:
                    par = parents[id(cur)]
                    if isinstance(par, ast.If) and cur is not par.test:
                        t = _eval(par.test, env)
                        in_body = any(cur is b for b in par.body)
                        if t is _UNRES:
                            # a test that does not mention the method variable does not separate the methods
                            if any(isinstance(x, ast.Name) and x.id in env for x in ast.walk(par.test)):
                                verdict = _UNRES
                        elif bool(t) != in_body:
                            return False
                    cur = par
                return verdict

            for call in calls:
                values: Dict[str, object] = {}
                sites: Dict[str, int] = {}
                unresolved: List[str] = []
                for kw in call.keywords:
                    if kw.arg in KEYS:
                        values[kw.arg] = _eval(kw.value, env); sites[kw.arg] = kw.value.lineno
                    elif kw.arg is None and isinstance(kw.value, ast.Name):
                        dn = kw.value.id
                        for st in walk_no_nested(fi.node):
                            if isinstance(st, (ast.Assign, ast.AnnAssign)):
                                tgts = st.targets if isinstance(st, ast.Assign) else [st.target]
                                val = st.value
                                for t in tgts:
                                    if isinstance(t, ast.Name) and t.id == dn and isinstance(val, ast.Dict):
                                        r = reach(st)
                                        if r is False:
                                            continue
                                        for k, v in zip(val.keys, val.values):
                                            if isinstance(k, ast.Constant) and k.value in KEYS:
                                                values[k.value] = _UNRES if r is _UNRES else _eval(v, env); sites[k.value] = v.lineno
                                            elif k is None:
                                                unresolved.append(f"`**{src(v, 30)}` merged into `{dn}`")
                                    elif isinstance(t, ast.Name) and t.id == dn and val is not None and not isinstance(val, ast.Dict):
                                        unresolved.append(f"`{dn}` bound to `{src(val, 40)}`")
                                    elif isinstance(t, ast.Subscript) and isinstance(t.value, ast.Name) and t.value.id == dn:
                                        k = t.slice
                                        if isinstance(k, ast.Constant) and k.value in KEYS:
                                            r = reach(st)
                                            if r is False:
                                                continue
                                            values[k.value] = _UNRES if r is _UNRES else _eval(val, env); sites[k.value] = st.lineno
                                        elif not isinstance(k, ast.Constant):
                                            unresolved.append(f"`{src(t, 40)}` assigned under a computed key")
                            elif isinstance(st, ast.Call) and isinstance(st.func, ast.Attribute) and isinstance(st.func.value, ast.Name) and st.func.value.id == dn and st.func.attr in ("update", "setdefault", "pop"):
                                unresolved.append(f"`{src(st, 40)}`")
                r = reach(call)
                if r is False:
                    continue
                n += 1
                key = f"{m.rel}::{fi.qualname}::resize-nearest-pair"
                site = f"{m.rel}:{sites.get('nearest_mode', call.lineno)}"
                ctm = values.get(KEYS[0], ONNX_DEFAULTS[KEYS[0]])
                nm = values.get(KEYS[1], ONNX_DEFAULTS[KEYS[1]])
                if unresolved or ctm is _UNRES or nm is _UNRES or r is _UNRES or not isinstance(ctm, str) or not isinstance(nm, str):
                    res.unresolved("R-C01s", site, key, "the attribute values of the nearest path are not constants of the evaluated fragment: " + "; ".join(unresolved or ["computed value"]), fi.qualname)
                    continue
                try:
                    bad = first_disagreement(ctm, nm)
                except ValueError as e:
                    res.unresolved("R-C01s", site, key, str(e), fi.qualname)
                    continue
                if bad:
                    n_in, n_out, i, j, k = bad
                    res.violation("R-C01s", site, key, f"Resize(coordinate_transformation_mode={ctm!r}, nearest_mode={nm!r}) reads source index {k} for output position {i} when resizing {n_in} -> {n_out}; "
                                  f"jax.image.resize(method='nearest') reads floor(({i} + 0.5) * {n_in} / {n_out}) = {j}", fi.qualname)
                else:
                    res.ok("R-C01s", site, key, f"({ctm}, {nm}) agrees with floor((i + 0.5) * in / out) on all 1..12 x 1..12 size pairs", fi.qualname)
    res.analysed["resize_nearest_emissions"] = n
    # positive control: the defect this rule was written for
    res.control("R-C01s", "(half_pixel, round_prefer_floor) is recognised as reading other pixels than JAX (4 -> 2)", first_disagreement("half_pixel", "round_prefer_floor") is not None and first_disagreement("half_pixel", "round_prefer_ceil") is None, "")
