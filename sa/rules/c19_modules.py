"""R-C19n — configuration fields of a library module are honoured by the substitute of its `__call__`.

A library module (`flax.nnx.RMSNorm`, `flax.linen.Dense`, `equinox.nn.Conv`) is configured through fields set by `__init__`
(or dataclass fields).  The fields the library's own `__call__` reads decide what the call computes.  The tracing-time
substitute of `__call__` is a sibling implementation of the same interface (Engler et al.: siblings must agree): a field the
library reads and the substitute never reads is a configuration the export silently ignores — unless the substitute cannot
be affected by it.  Library facts (`inspect.getsource` of the installed class) are the reference; jax2onnx is not imported.
"""
from __future__ import annotations

import ast
import inspect
import textwrap
from typing import Dict, List, Optional, Set, Tuple

from ..guards import src
from ..index import Index
from ..patchspecs import PatchSpec
from ..report import Results
from ..sigs import library_object

# field name -> reason the applied function of an exported (single device, inference, already initialised) module cannot depend on it
INERT_FIELDS: Dict[str, str] = {
    "kernel_init": "parameter initialiser: runs when the parameter is created, not when the module is applied",
    "bias_init": "parameter initialiser",
    "scale_init": "parameter initialiser",
    "embedding_init": "parameter initialiser",
    "negative_slope_init": "parameter initialiser",
    "param_dtype": "dtype of newly created parameters; the exported module's parameters exist",
    "axis_name": "cross-device collective (pmap axis): an export is traced on one device without a mapped axis",
    "axis_index_groups": "cross-device collective groups",
    "rngs": "random stream: exported modules are deterministic (Dropout is exported in inference form)",
    "rng_collection": "random stream name",
    "precision": "XLA matmul precision hint: ONNX operators have no counterpart; IEEE float32 arithmetic is the HIGHEST setting",
    "use_fast_variance": "two algebraically equal formulas for the variance",
    "force_float32_reductions": "accumulation width of the statistics (numerics, not the function)",
}
# (library class, field): shape facts the substitute takes from the parameter arrays themselves
DERIVED_FIELDS: Dict[str, str] = {
    "in_features": "read off the kernel's shape", "out_features": "read off the kernel's shape", "kernel_shape": "the kernel array's shape",
    "num_embeddings": "the embedding table's shape", "features": "read off the parameter shapes", "num_spatial_dims": "rank of the input / kernel",
    "kernel_size": "the kernel array's shape",
}
# confirmed with a witness: (target, field) -> what fails
_DT = "the library casts operands and parameters to `dtype` and returns it; the export computes and returns float32 (triage/witnesses/c19_module_dtype_ignored.py)"
CONFIRMED: Dict[Tuple[str, str], str] = {
    ("flax.nnx.RMSNorm", "reduction_axes"): "Flax takes the mean of squares over `reduction_axes` (default: the last axis) and scales along `feature_axes`; a substitute that reads `feature_axes` alone normalises RMSNorm(4, feature_axes=1) over axis 1 (triage/witnesses/c19_rmsnorm_reduction_axes.py; repaired in fd9ac85)",
    ("flax.nnx.Linear", "dtype"): _DT,
    ("flax.nnx.LinearGeneral", "dtype"): _DT,
    ("flax.nnx.LayerNorm", "dtype"): _DT,
    ("flax.nnx.PReLU", "dtype"): _DT,
    ("flax.nnx.Embed", "dtype"): _DT,
    ("flax.nnx.BatchNorm", "dtype"): _DT,
    ("flax.linen.Dense", "dtype"): _DT,
    ("flax.linen.DenseGeneral", "dtype"): _DT,
    ("flax.linen.LayerNorm", "dtype"): _DT,
}


def _self_reads(fn: ast.AST, selfname: str) -> Set[str]:
    r: Set[str] = set()
    for x in ast.walk(fn):
        if isinstance(x, ast.Attribute) and isinstance(x.value, ast.Name) and x.value.id == selfname and isinstance(x.ctx, ast.Load):
            r.add(x.attr)
        if isinstance(x, ast.Call) and isinstance(x.func, ast.Name) and x.func.id in ("getattr", "hasattr") and len(x.args) >= 2 and isinstance(x.args[0], ast.Name) and x.args[0].id == selfname and isinstance(x.args[1], ast.Constant):
            r.add(str(x.args[1].value))
    return r


def _library_fields(cls_obj) -> Tuple[Set[str], Set[str], str]:
    """(configuration fields, fields read by __call__ — transitively through methods of the class called on self, depth 2 —, error)."""
    fields: Set[str] = set(getattr(cls_obj, "__dataclass_fields__", {}) or {})
    try:
        init_src = textwrap.dedent(inspect.getsource(cls_obj.__init__))
        it = ast.parse(init_src)
        for a in ast.walk(it):
            tg = a.targets if isinstance(a, ast.Assign) else [a.target] if isinstance(a, (ast.AnnAssign, ast.AugAssign)) else []
            for t in tg:
                if isinstance(t, ast.Attribute) and isinstance(t.value, ast.Name) and t.value.id == "self":
                    fields.add(t.attr)
    except (OSError, TypeError, SyntaxError):
        pass
    if not fields:
        return set(), set(), "no configuration fields found (neither dataclass fields nor self.<f> = … in __init__)"
    try:
        ct = ast.parse(textwrap.dedent(inspect.getsource(cls_obj.__call__)))
    except (OSError, TypeError, SyntaxError) as e:
        return fields, set(), f"source of __call__ not available: {e}"
    reads = _self_reads(ct, "self")
    # methods called on self (one level): self._helper(...) reads count as reads of __call__
    for x in ast.walk(ct):
        if isinstance(x, ast.Call) and isinstance(x.func, ast.Attribute) and isinstance(x.func.value, ast.Name) and x.func.value.id == "self":
            meth = getattr(cls_obj, x.func.attr, None)
            if meth is not None and callable(meth) and x.func.attr not in fields:
                try:
                    reads |= _self_reads(ast.parse(textwrap.dedent(inspect.getsource(meth))), "self")
                except (OSError, TypeError, SyntaxError):
                    pass
    return fields, reads & fields, ""


def run_module_fields(res: Results, idx: Index, specs: List[PatchSpec]) -> None:
    res.rule("R-C19n", "every configuration field the library module's __call__ reads is read by its tracing-time substitute, or cannot affect an exported module (listed with the reason)", floor=40)
    n = 0
    seen: Set[Tuple[str, int]] = set()
    for sp in specs:
        if sp.attr != "__call__" or sp.target is None or not isinstance(sp.wrapper, (ast.FunctionDef, ast.AsyncFunctionDef)):
            continue
        w = sp.wrapper
        if (sp.target, id(w)) in seen:
            continue
        seen.add((sp.target, id(w)))
        params = [a.arg for a in w.args.posonlyargs + w.args.args]
        if not params:
            continue
        selfname = params[0]
        parts = sp.target.split(".")
        cls_obj, err = library_object(".".join(parts[:-1]), parts[-1])
        key0 = f"{sp.target}.__call__"
        if cls_obj is None or not inspect.isclass(cls_obj):
            res.unresolved("R-C19n", sp.site, f"{key0}::<class>", f"library class not resolved: {err}", sp.cls.name if sp.cls else "?")
            continue
        fields, lib_reads, ferr = _library_fields(cls_obj)
        if ferr:
            res.unresolved("R-C19n", sp.site, f"{key0}::<fields>", ferr, sp.cls.name if sp.cls else "?")
            continue
        sub_reads = _self_reads(w, selfname)
        whole_self_escapes: List[str] = []
        for c in ast.walk(w):
            if isinstance(c, ast.Call):
                pos = [i for i, a in enumerate(c.args) if isinstance(a, ast.Name) and a.id == selfname]
                if not pos:
                    continue
                cn = src(c.func, 60)
                nm = cn.split(".")[-1]
                if nm in ("getattr", "hasattr", "isinstance", "type", "id"):
                    continue
                # helper of the plugin module / class that receives the module object
                cands = [fi for fi in sp.module.funcs.values() if fi.name == nm]
                if cands:
                    for fi in cands:
                        ps = [a.arg for a in fi.node.args.posonlyargs + fi.node.args.args]  # type: ignore[attr-defined]
                        if ps and ps[0] in ("cls", "self") and "." in cn:
                            ps = ps[1:]
                        if pos[0] < len(ps):
                            sub_reads |= _self_reads(fi.node, ps[pos[0]])
                else:
                    whole_self_escapes.append(cn)
        # calling the original with the module (`orig(self, x)`) is the fallback: the library's own code honours every field there
        fallback = [e for e in whole_self_escapes if e.split(".")[-1] in ("orig", "original", "orig_fn", "orig_call", "_orig", "original_call")]
        other_escapes = [e for e in whole_self_escapes if e not in fallback]
        for f in sorted(lib_reads):
            n += 1
            key = f"{key0}::{f}"
            cname = sp.cls.name if sp.cls else "?"
            if f in sub_reads:
                res.ok("R-C19n", sp.site, key, "read by the substitute", cname)
            elif f in INERT_FIELDS:
                res.ok("R-C19n", sp.site, key, f"not read; inert for an exported module: {INERT_FIELDS[f]}", cname)
            elif f in DERIVED_FIELDS:
                res.ok("R-C19n", sp.site, key, f"not read; derived: {DERIVED_FIELDS[f]}", cname)
            elif (sp.target, f) in CONFIRMED:
                res.violation("R-C19n", sp.site, key, f"`{parts[-1]}.__call__` reads `self.{f}`; the substitute `{w.name}` never does: {CONFIRMED[(sp.target, f)]}", cname)
            elif other_escapes:
                res.unresolved("R-C19n", sp.site, key, f"not read by name; the module object is handed to `{other_escapes[0]}`", cname)
            else:
                res.unresolved("R-C19n", sp.site, key, f"`{parts[-1]}.__call__` reads `self.{f}`; the substitute `{w.name}` never does, and the field is in no table (not triaged: no input is known for which the export differs)", cname)
    res.analysed["module_call_fields"] = n
