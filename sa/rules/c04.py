"""C04 — symbolic-shape exports are correct for every binding of the symbols (structural part).

R-C04a  memo-key domain separation in LowerDimExpr: every producer that memoises under a stringified
        argument tags its key with a producer-specific constant prefix (or separator); no two producers share
        a key shape, so `(factor, power)` and `(term, coefficient)` can never collide
R-C04b  dimension-operation table: each branch of _convert_op emits the operator the reference assigns
        (floordiv->Div plus a floor correction, mod->Mod, max->Max, min->Min) with the operands in order; unknown operations raise
R-C04c  origin pairing: every value that becomes a graph input for a jaxpr variable gets its symbolic
        dimension origins recorded on that same value on every normal path; callers of the
        *_without_origins binder record them explicitly
R-C04d  one symbolic scope: every symbolic_shape(...) call on the export path passes the same scope
        object, created once
R-C04e  the optimizer never treats two different symbols as equal: C02 R-C02c (cross reference)
"""
from __future__ import annotations

import ast
from typing import Dict, List, Optional, Set, Tuple

from ..cfg import cfg_of
from ..flow import defuse, names_in
from ..guards import src
from ..index import AnalysisError, FuncInfo, Index, call_name, dotted, enclosing_stmt, fold_const, is_const, parents, walk_no_nested
from ..report import Results

LD = "jax2onnx/converter/lower_dimexpr.py"
CTX = "jax2onnx/converter/ir_context.py"
CA = "jax2onnx/converter/conversion_api.py"
OP_TABLE = {"floordiv": "Div", "mod": "Mod", "max": "Max", "min": "Min", "add": "Add", "mul": "Mul", "sub": "Sub", "pow": "Pow"}


def _key_shape(e: ast.AST, fi: FuncInfo) -> Tuple[str, str]:
    """classify a memo key expression -> (kind, tag)"""
    du = defuse(fi.node)
    if isinstance(e, ast.Name):
        vals = du.values(e.id)
        if du.only_param(e.id):
            return "raw-param", e.id
        if len(vals) == 1:
            return _key_shape(vals[0], fi)
        return "other", e.id
    if isinstance(e, ast.JoinedStr):
        if e.values and isinstance(e.values[0], ast.Constant) and str(e.values[0].value):
            return "tagged", str(e.values[0].value)
        consts = [str(v.value) for v in e.values if isinstance(v, ast.Constant)]
        if consts:
            return "separated", consts[0]
        return "untagged-str", src(e)
    if isinstance(e, ast.Call) and (call_name(e) or "") in ("str", "repr"):
        return "untagged-str", src(e)
    if isinstance(e, ast.Tuple) and e.elts and isinstance(e.elts[0], ast.Constant):
        return "tagged", repr(e.elts[0].value)
    if isinstance(e, ast.BinOp) and isinstance(e.op, ast.Add) and isinstance(e.left, ast.Constant):
        return "tagged", str(e.left.value)
    return "other", src(e)


def run(res: Results, idx: Index, tier: str) -> None:
    res.rule("R-C04a", "memo keys of different LowerDimExpr producers live in disjoint key domains", floor=4)
    res.rule("R-C04b", "dimension operations map to the reference ONNX operators; unknown ones raise", floor=4)
    res.rule("R-C04c", "graph inputs created for jaxpr variables get their symbolic-dim origins recorded on the same value", floor=3)
    res.rule("R-C04d", "all symbolic_shape calls share one scope object", floor=1)
    res.assumptions += ["broadcasting at size 1, run-time integer results and per-plugin shape arithmetic are not decided"]
    m = idx.module(LD)
    cls = m.classes.get("LowerDimExpr")
    if cls is None:
        raise AnalysisError("LowerDimExpr class not found")
    # ---- R-C04a
    shapes: Dict[str, List[Tuple[str, str, int]]] = {}
    for name, fi in cls.methods.items():
        for n in walk_no_nested(fi.node):
            if isinstance(n, ast.Assign):
                for t in n.targets:
                    if isinstance(t, ast.Subscript) and (dotted(t.value) or "").endswith("compute_cache"):
                        kind, tag = _key_shape(t.slice, fi)
                        shapes.setdefault(name, []).append((kind, tag, n.lineno))
    if len(shapes) < 4:
        raise AnalysisError(f"only {len(shapes)} memoising producers found in LowerDimExpr")
    untagged = [(nm, ln) for nm, lst in shapes.items() for k, t, ln in lst if k == "untagged-str"]
    tags: Dict[str, List[str]] = {}
    for nm, lst in shapes.items():
        for k, t, ln in lst:
            if k == "tagged":
                tags.setdefault(t, []).append(nm)
    for nm, lst in sorted(shapes.items()):
        for k, t, ln in lst:
            key = f"{LD}::LowerDimExpr.{nm}::memo-key"
            site = f"{LD}:{ln}"
            if k == "untagged-str" and len(untagged) > 1:
                others = sorted({o for o, _ in untagged if o != nm})
                res.violation("R-C04a", site, key, f"{nm}() memoises under the bare string of its argument ({t}) in the cache it shares with {', '.join(others)}(): a (factor, power) pair and a (term, coefficient) pair "
                              "both render as '(a, 2)', so 2*a and a*a return one cached value", f"LowerDimExpr.{nm}")
            elif k == "tagged" and len(set(tags[t])) > 1:
                res.violation("R-C04a", site, key, f"producers {sorted(set(tags[t]))} share the key prefix {t!r}", f"LowerDimExpr.{nm}")
            elif k in ("tagged", "separated", "raw-param", "untagged-str"):
                res.ok("R-C04a", site, key, f"key domain: {k} {t!r}", f"LowerDimExpr.{nm}")
            else:
                res.unresolved("R-C04a", site, key, f"key expression `{t}` not classified", f"LowerDimExpr.{nm}")

    # ---- R-C04b
    conv = cls.methods.get("_convert_op")
    if conv is None:
        raise AnalysisError("LowerDimExpr._convert_op not found")
    a = conv.node.args  # type: ignore[attr-defined]
    pname = [x.arg for x in a.args][1] if len(a.args) > 1 else "name"
    cur: Optional[ast.stmt] = next((st for st in conv.node.body if isinstance(st, ast.If)), None)  # type: ignore[attr-defined]
    n_br = 0
    raises_at_end = False
    while isinstance(cur, ast.If):
        t = cur.test
        opname = None
        if isinstance(t, ast.Compare) and isinstance(t.ops[0], ast.Eq) and isinstance(t.left, ast.Name) and t.left.id == pname and isinstance(t.comparators[0], ast.Constant):
            opname = t.comparators[0].value
        emitted = [c for st in cur.body for c in ast.walk(st) if isinstance(c, ast.Call) and isinstance(c.func, ast.Attribute) and c.func.attr[:1].isupper() and (dotted(c.func.value) or "").endswith("builder")]
        key = f"{LD}::LowerDimExpr._convert_op::{opname}"
        if opname is None or not emitted:
            res.unresolved("R-C04b", f"{LD}:{cur.lineno}", key, f"branch `{src(t)}` not understood", conv.qualname)
        else:
            n_br += 1
            op = emitted[0].func.attr  # type: ignore[attr-defined]
            args = emitted[0].args
            in_order = (len(args) == 1 and isinstance(args[0], ast.Starred)) or all(
                isinstance(x, ast.Subscript) and isinstance(x.slice, ast.Constant) and x.slice.value == i for i, x in enumerate(args))
            want = OP_TABLE.get(opname)
            if want is None:
                res.unresolved("R-C04b", f"{LD}:{cur.lineno}", key, f"no reference operator for dimension operation '{opname}'", conv.qualname)
            elif opname == "floordiv" and op == "Div" and in_order and len(emitted) == 1:
                res.violation("R-C04b", f"{LD}:{emitted[0].lineno}", key + "::no-floor-correction", "dimension operation 'floordiv' is lowered to a bare integer Div: ONNX Div truncates toward zero while JAX's `//` floors, so a dimension expression with a negative numerator ((B - 5) // 2 at B = 2 or 4) evaluates one too high; a floor correction (q - (r != 0 and sign(r) != sign(b))) is missing", conv.qualname)
            elif op == want and in_order:
                res.ok("R-C04b", f"{LD}:{emitted[0].lineno}", key, f"{opname} -> {op}, operands in order", conv.qualname)
            else:
                res.violation("R-C04b", f"{LD}:{emitted[0].lineno}", key, f"dimension operation '{opname}' is lowered to {op}({', '.join(src(x, 20) for x in args)}) but must be {want} with the operands in order", conv.qualname)
        nxt = cur.orelse
        if len(nxt) == 1 and isinstance(nxt[0], ast.If):
            cur = nxt[0]
        else:
            raises_at_end = any(isinstance(s, ast.Raise) for s in nxt)
            cur = None
    key = f"{LD}::LowerDimExpr._convert_op::unknown-operation"
    if raises_at_end:
        res.ok("R-C04b", f"{LD}:{conv.node.lineno}", key, "unknown dimension operations raise", conv.qualname)
    else:
        res.violation("R-C04b", f"{LD}:{conv.node.lineno}", key, "an unknown dimension operation does not raise (it would be lowered as something else or as nothing)", conv.qualname)

    # ---- R-C04c
    n_pair = 0
    for mod in idx.product_modules():
        if not mod.rel.startswith("jax2onnx/converter/"):
            continue
        for fi in mod.funcs.values():
            calls = [c for c in walk_no_nested(fi.node) if isinstance(c, ast.Call)]
            adds = [c for c in calls if (call_name(c) or "").endswith("add_graph_input_value") and c.args and isinstance(c.args[0], ast.Name)]
            wo = [c for c in calls if (call_name(c) or "").endswith("bind_value_for_var_without_origins")]
            recs = [c for c in calls if (call_name(c) or "").endswith("record_symbolic_dim_origins") and len(c.args) >= 2]
            if fi.name in ("add_graph_input_value", "bind_value_for_var_without_origins"):
                continue
            g = cfg_of(fi.node)
            for c in adds:
                n_pair += 1
                v = c.args[0].id
                key = f"{mod.rel}::{fi.qualname}::origins::{v}"
                mine = [r for r in recs if isinstance(r.args[1], ast.Name) and r.args[1].id == v]
                # value created for a jaxpr var with an aval?
                du = defuse(fi.node)
                from_aval = any("aval" in ast.unparse(val) for nm in du.closure({v}) for val in du.values(nm))
                if not from_aval:
                    res.ok("R-C04c", f"{mod.rel}:{c.lineno}", key, "input value is not derived from a traced aval (no symbolic dims to record)", fi.qualname)
                    continue
                if mine and not g.paths_to_exit_avoiding({n for r in mine for n in g.nodes_of(enclosing_stmt(r))} | set(), None) or (mine and _must_pass_after(g, c, mine)):
                    res.ok("R-C04c", f"{mod.rel}:{mine[0].lineno}", key, f"record_symbolic_dim_origins(…, {v}) follows on every normal path", fi.qualname)
                else:
                    res.violation("R-C04c", f"{mod.rel}:{c.lineno}", key, f"`{v}` becomes a graph input but its symbolic-dimension origins are not recorded on it on every path: dimension expressions over its symbols cannot be evaluated at run time (or read another tensor)", fi.qualname)
            for c in wo:
                n_pair += 1
                key = f"{mod.rel}::{fi.qualname}::without-origins"
                if recs:
                    res.ok("R-C04c", f"{mod.rel}:{c.lineno}", key, "the caller of the *_without_origins binder records origins itself", fi.qualname)
                else:
                    res.violation("R-C04c", f"{mod.rel}:{c.lineno}", key, "binds a value without origins and never records them", fi.qualname)
    # bind_value_for_var records origins
    b = idx.func(CTX, "IRContext.bind_value_for_var")
    key = f"{CTX}::IRContext.bind_value_for_var::records-origins"
    if any(isinstance(c, ast.Call) and (call_name(c) or "").endswith("record_var_symbolic_dim_origins") for c in walk_no_nested(b.node)):
        res.ok("R-C04c", f"{CTX}:{b.node.lineno}", key, "", b.qualname)
    else:
        res.violation("R-C04c", f"{CTX}:{b.node.lineno}", key, "bind_value_for_var no longer records symbolic-dim origins of the bound value", b.qualname)
    # the recorder keeps (value, axis) together
    r1 = idx.func(CTX, "IRContext.record_symbolic_dim_origins")
    key = f"{CTX}::IRContext.record_symbolic_dim_origins::axis-pairing"
    zips = [c for c in walk_no_nested(r1.node) if isinstance(c, ast.Call) and (call_name(c) or "") == "zip"]
    inner = [c for c in walk_no_nested(r1.node) if isinstance(c, ast.Call) and (call_name(c) or "").endswith("record_symbolic_dim_origin") and len(c.args) == 3]
    lp = next((n for n in walk_no_nested(r1.node) if isinstance(n, ast.For) and isinstance(n.iter, ast.Call) and (call_name(n.iter) or "") == "zip"), None)
    ok = False
    if lp is not None and inner and isinstance(lp.target, ast.Tuple) and len(lp.target.elts) == 2:
        d, ax = [e.id if isinstance(e, ast.Name) else None for e in lp.target.elts]
        c = inner[0]
        ok = isinstance(c.args[0], ast.Name) and c.args[0].id == d and isinstance(c.args[2], ast.Name) and c.args[2].id == ax and isinstance(c.args[1], ast.Name) and c.args[1].id == "value"
    if ok:
        res.ok("R-C04c", f"{CTX}:{r1.node.lineno}", key, "each dim is recorded with its own axis on the given value", r1.qualname)
    else:
        res.violation("R-C04c", f"{CTX}:{r1.node.lineno}", key, "record_symbolic_dim_origins does not pair each dimension with its axis on the given value", r1.qualname)
    res.analysed["origin_pair_sites"] = n_pair

    # ---- R-C04d
    calls = []
    for mod in idx.product_modules():
        if not mod.rel.startswith(("jax2onnx/converter/", "jax2onnx/user_interface.py")):
            continue
        for c in ast.walk(mod.tree):
            if isinstance(c, ast.Call) and (call_name(c) or "").endswith("symbolic_shape"):
                calls.append((mod, c))
    if not calls:
        raise AnalysisError("no symbolic_shape call found on the export path")
    for mod, c in calls:
        fi = mod.func_containing(c)
        key = f"{mod.rel}::{fi.qualname if fi else '<module>'}::symbolic_shape-scope"
        sc = next((k.value for k in c.keywords if k.arg == "scope"), None)
        if sc is None or not isinstance(sc, ast.Name) or fi is None:
            res.violation("R-C04d", f"{mod.rel}:{c.lineno}", key, "symbolic_shape is called without the shared scope: symbols of different inputs cannot be combined in one expression", fi.qualname if fi else "")
            continue
        du = defuse(fi.node)
        defs = [d for d in du.defs.get(sc.id, []) if d.value is not None]
        in_loop = any(any(isinstance(p, (ast.For, ast.While)) for p in parents(d.stmt) if p is not fi.node and _inside(p, fi.node)) for d in defs)
        creates = any(any(isinstance(x, ast.Call) and (call_name(x) or "").endswith("SymbolicScope") for x in ast.walk(d.value)) for d in defs)
        if len(defs) == 1 and creates and not in_loop:
            res.ok("R-C04d", f"{mod.rel}:{c.lineno}", key, f"scope=`{sc.id}` created once per conversion", fi.qualname)
        else:
            res.violation("R-C04d", f"{mod.rel}:{c.lineno}", key, f"scope `{sc.id}` is not a single SymbolicScope created once (defs: {len(defs)}, created in a loop: {in_loop})", fi.qualname)

    rule_f(res, idx)
    rule_g(res, idx)
    rule_h(res, idx)
    # ---- R-C04e: two symbols are never assumed equal outside the dimension lowering either
    # (decided by their own properties' rules; re-decided here because they are C04's clause "equal/unequal symbols")
    if not getattr(res, "_nested_xref", False):
        from . import c02, c07
        res.rule("R-C04e", "symbol identity survives the optimizer's shape guard (C02 R-C02c) and the function dedup key (C07 R-C07a input signature)", floor=2)
        n_x = 0
        from . import c12
        for mod, prop, pick in ((c02, "C02", lambda i_: i_.rule == "R-C02c"), (c07, "C07", lambda i_: i_.rule == "R-C07a" and i_.key.endswith("::input-signature")),
                                # an NCHW graph input: each symbol's origin is the axis of the EXTERNAL (permuted) value it lives on
                                (c12, "C12", lambda i_: i_.rule == "R-C12a" and i_.key.endswith("::origin-on-external-value"))):
            sub = Results(prop, tier)
            setattr(sub, "_nested_xref", True)
            mod.run(sub, idx, tier)
            for inst in sub.instances:
                if pick(inst):
                    n_x += 1
                    res.add("R-C04e", inst.status, inst.site, f"{inst.rule}::{inst.key}", f"[{prop} {inst.rule}] {inst.detail}", inst.func)
        if n_x < 3:
            raise AnalysisError(f"only {n_x} cross-referenced symbol-identity instances found")


def _inside(n: ast.AST, root: ast.AST) -> bool:
    cur: Optional[ast.AST] = n
    while cur is not None:
        if cur is root:
            return True
        cur = getattr(cur, "parent", None)
    return False


def _must_pass_after(g, add_call: ast.AST, recs: List[ast.AST]) -> bool:
    """from the add call every path to the normal exit passes one of the record calls (or they come before it)"""
    src_nodes = g.nodes_of(enclosing_stmt(add_call))
    via = {n for r in recs for n in g.nodes_of(enclosing_stmt(r))}
    r = g.reachable(src_nodes, removed_nodes=via)
    before = all(r_.lineno < add_call.lineno for r_ in recs)
    return g.EXIT not in r or before


# ---------------------------------------------------------------------------------------------- R-C04f
def rule_f(res: Results, idx: Index) -> None:
    """A symbolic dimension is materialised as Shape(origin.value)[origin.axis], where `origin` is looked up per
    dimension.  The Shape has to be taken of *that* dimension's origin: a Shape value created once under an
    `if cache is None:` latch that lives across the iterations of the dimension loop is the first dimension's origin and is
    then indexed with another dimension's axis (two symbols B, N read from one tensor)."""
    res.rule("R-C04f", "the tensor a symbolic dimension is read from is the Shape of that dimension's own origin, never a cross-iteration cached one", floor=2)
    n = 0
    for m in idx.product_modules():
        if "/plugins/" not in m.rel and "lower_dimexpr" not in m.rel:
            continue
        for fi in m.funcs.values():
            du = None
            origins = [st for st in walk_no_nested(fi.node) if isinstance(st, ast.Assign) and len(st.targets) == 1 and isinstance(st.targets[0], ast.Name)
                       and isinstance(st.value, ast.Call) and ("origin" in (call_name(st.value) or "").lower()) and "origin" in st.targets[0].id.lower()]
            origins += [w for w in walk_no_nested(fi.node) if isinstance(w, ast.NamedExpr) and isinstance(w.target, ast.Name) and isinstance(w.value, ast.Call)
                        and "origin" in (call_name(w.value) or src(w.value.func, 80)).lower() and "origin" in w.target.id.lower()]
            for ost in origins:
                oname = ost.target.id if isinstance(ost, ast.NamedExpr) else ost.targets[0].id  # type: ignore[union-attr]
                loop = next((p for p in _parents(ost) if isinstance(p, (ast.For, ast.While))), None)
                if loop is None:
                    continue
                du = du or defuse(fi.node)
                # names carrying origin.value in this iteration
                carriers = {oname}
                for st in ast.walk(loop):
                    if isinstance(st, ast.Assign) and len(st.targets) == 1 and isinstance(st.targets[0], ast.Name) and isinstance(st.value, ast.Attribute) and st.value.attr == "value" and isinstance(st.value.value, ast.Name) and st.value.value.id == oname:
                        carriers.add(st.targets[0].id)
                shape_calls = []
                for c in ast.walk(loop):
                    if isinstance(c, ast.Call) and ("shape" in (call_name(c) or "").lower()) and any((isinstance(a, ast.Name) and a.id in carriers and a.id != oname) or (isinstance(a, ast.Attribute) and a.attr == "value" and isinstance(a.value, ast.Name) and a.value.id == oname) for a in c.args):
                        shape_calls.append(c)
                for c in shape_calls:
                    n += 1
                    key = f"{m.rel}::{fi.qualname}::shape-of-origin::{(call_name(c) or '').split('.')[-1]}"
                    site = f"{m.rel}:{c.lineno}"
                    latch = None
                    for p in _parents(c):
                        if p is loop:
                            break
                        if isinstance(p, ast.If):
                            for cmp in [x for x in ast.walk(p.test) if isinstance(x, ast.Compare) and len(x.ops) == 1 and isinstance(x.ops[0], ast.Is) and isinstance(x.comparators[0], ast.Constant) and x.comparators[0].value is None and isinstance(x.left, ast.Name)]:
                                nm = cmp.left.id
                                outside = [d for d in du.defs.get(nm, []) if d.kind == "assign" and not any(q is loop for q in _parents(d.stmt))]
                                inside = [d for d in du.defs.get(nm, []) if any(q is loop for q in _parents(d.stmt))]
                                if outside and inside and c in list(ast.walk(p)) and any(_in_body(c, p.body) for _ in (0,)):
                                    latch = nm
                    if latch:
                        res.violation("R-C04f", site, key, f"`{src(c, 50)}` is only executed while `{latch}` is None, and `{latch}` is initialised before the loop over the dimensions: the Shape of the FIRST symbolic dimension's origin is reused for every later dimension, so another symbol's axis is read from the wrong tensor", fi.qualname)
                    else:
                        res.ok("R-C04f", site, key, "the Shape is taken of the current dimension's origin in every iteration (or through a cache keyed by the origin value)", fi.qualname)
    res.analysed["shape_of_origin_sites"] = n


def _parents(n: ast.AST):
    cur = getattr(n, "parent", None)
    while cur is not None:
        yield cur
        cur = getattr(cur, "parent", None)


def _in_body(n: ast.AST, body) -> bool:
    ids = {id(x) for st in body for x in ast.walk(st)}
    return id(n) in ids


# ---------------------------------------------------------------------------------------------- R-C04g
def rule_g(res: Results, idx: Index) -> None:
    """Shape rules (abstract_eval and friends) that treat static and symbolic extents in separate branches must compute the
    same function in both: where the static branch aggregates a list of per-operand sizes (`sum(...)`), the symbolic branch
    may not take a single element of that list (`sizes[0]`) — concatenating B and B rows is 2*B rows, not B."""
    res.rule("R-C04g", "static and symbolic branches of a shape rule aggregate the per-operand sizes in the same way; extent helpers do not hand a symbolic extent back unchanged", floor=4)
    n = 0
    for m in idx.product_modules():
        if "/plugins/" not in m.rel:
            continue
        for fi in m.funcs.values():
            for st in walk_no_nested(fi.node):
                if not (isinstance(st, ast.If) and st.orelse):
                    continue
                t = st.test
                if not (isinstance(t, ast.Call) and (call_name(t) or "") == "all" and t.args and isinstance(t.args[0], (ast.GeneratorExp, ast.ListComp))):
                    continue
                gen = t.args[0]
                if not any(isinstance(x, ast.Call) and (call_name(x) or "") == "isinstance" for x in ast.walk(gen.elt)):
                    continue
                lst = dotted(gen.generators[0].iter)
                if not lst:
                    continue
                body_sum = any(isinstance(x, ast.Call) and (call_name(x) or "") in ("sum", "math.prod", "np.sum", "np.prod") and lst in names_in(x) for b in st.body for x in ast.walk(b))
                if not body_sum:
                    continue
                n += 1
                key = f"{m.rel}::{fi.qualname}::static-vs-symbolic::{lst}"
                site = f"{m.rel}:{st.lineno}"
                picks = [x for b in st.orelse for x in ast.walk(b) if isinstance(x, ast.Assign) and isinstance(x.value, ast.Subscript) and isinstance(x.value.value, ast.Name) and x.value.value.id == lst and isinstance(x.value.slice, ast.Constant)]
                aggregates = any((isinstance(x, ast.Call) and (call_name(x) or "") in ("sum", "reduce", "functools.reduce") and lst in names_in(x)) or (isinstance(x, ast.For) and lst in names_in(x.iter)) for b in st.orelse for x in ast.walk(b))
                if picks and not aggregates:
                    res.violation("R-C04g", f"{m.rel}:{picks[0].lineno}", key, f"with static extents the result is the sum over `{lst}`, with symbolic extents it is `{src(picks[0].value, 30)}` alone: the symbolic output dimension ignores all but one operand", fi.qualname)
                else:
                    res.ok("R-C04g", site, key, "both branches aggregate every operand's size", fi.qualname)
    # second form: an extent helper `f(length, window, stride, …)` that computes in the `isinstance(length, int)` branch and hands a
    # symbolic `length` back unchanged: the output is declared with the SAME symbol as the input although it is a function of it
    # (a pooled axis declared `H` whose run-time size is H/2)
    for m in idx.product_modules():
        if "/plugins/" not in m.rel:
            continue
        for fi in m.funcs.values():
            a_ = fi.node.args  # type: ignore[attr-defined]
            pnames = [x.arg for x in a_.posonlyargs + a_.args + a_.kwonlyargs]
            if len(pnames) < 2:
                continue
            body = [b for b in fi.node.body if not (isinstance(b, ast.Expr) and isinstance(b.value, ast.Constant))]  # type: ignore[attr-defined]
            if len(body) < 2 or not isinstance(body[0], ast.If):
                continue
            ifst = body[0]
            t = ifst.test
            if not (isinstance(t, ast.Call) and (call_name(t) or "") == "isinstance" and len(t.args) == 2 and isinstance(t.args[0], ast.Name) and t.args[0].id in pnames and "int" in src(t.args[1], 60)):
                continue
            x = t.args[0].id
            others = set(pnames) - {x, "self", "cls"}
            computed = [r for r in ast.walk(ifst) if isinstance(r, ast.Return) and r.value is not None and names_in(r.value) & others and x in names_in(r.value)]
            tail = [r for b in body[1:] for r in ast.walk(b) if isinstance(r, ast.Return) and r.value is not None]
            if not computed or not tail:
                continue
            n += 1
            key = f"{m.rel}::{fi.qualname}::symbolic-extent-unchanged::{x}"
            bare = [r for r in tail if isinstance(r.value, ast.Name) and r.value.id == x]
            if bare:
                res.violation("R-C04g", f"{m.rel}:{bare[0].lineno}", key, f"`{fi.name}` computes the output extent from {sorted(others)} when `{x}` is an int and returns a symbolic `{x}` unchanged: the output axis is declared with "
                              "the input's symbol although its run-time size is a function of it (window / stride), for every binding", fi.qualname)
            else:
                res.ok("R-C04g", f"{m.rel}:{tail[0].lineno}", key, f"the symbolic branch of `{fi.name}` computes the extent ({'; '.join(src(r.value, 40) for r in tail)}) instead of returning `{x}` unchanged", fi.qualname)
    res.analysed["static_symbolic_shape_branches"] = n
    import textwrap
    from ..index import Module as Mod
    cm = Mod("<control>", "<control>", "control_c04g", textwrap.dedent("""
        def abstract_eval(*arrays, axis=0):
            sizes = [a.shape[axis] for a in arrays]
            out = list(arrays[0].shape)
            if all(isinstance(s, int) for s in sizes):
                out[axis] = int(sum(sizes))
            else:
                out[axis] = sizes[0]
            return out
    """))
    f = cm.funcs["abstract_eval"]
    hit = False
    for st in ast.walk(f.node):
        if isinstance(st, ast.If) and st.orelse:
            hit = any(isinstance(x, ast.Assign) and isinstance(x.value, ast.Subscript) and isinstance(x.value.value, ast.Name) and x.value.value.id == "sizes" for b in st.orelse for x in ast.walk(b))
    res.control("R-C04g", "a symbolic branch that takes sizes[0] where the static branch sums is recognised", hit, "")


# ---------------------------------------------------------------------------------------------- R-C04h
def rule_h(res: Results, idx: Index) -> None:
    """R-C04a keeps the memo keys of DIFFERENT producers apart.  Inside one producer the key still has to determine the
    memoised value: every parameter of the method that the cached value is computed from must be something the key is
    computed from (`_lower_op(name, operands)` keyed by the operands alone returns the Div node of `b // 2` for `b % 2`).
    Instances: methods that test / read and write an instance-level cache (`self.<…cache…>[key]`)."""
    res.rule("R-C04h", "instance-level memo tables of the dimension lowering are keyed by every parameter the cached value depends on", floor=3)
    n = 0
    for m in idx.product_modules():
        if not m.rel.startswith("jax2onnx/converter/"):
            continue
        for fi in m.funcs.values():
            writes = [x for x in walk_no_nested(fi.node) if isinstance(x, ast.Assign) and len(x.targets) == 1 and isinstance(x.targets[0], ast.Subscript) and isinstance(x.targets[0].value, ast.Attribute)
                      and isinstance(x.targets[0].value.value, ast.Name) and x.targets[0].value.value.id == "self" and ("cache" in x.targets[0].value.attr.lower() or "memo" in x.targets[0].value.attr.lower())]
            if not writes:
                continue
            attr = writes[0].targets[0].value.attr
            reads = [x for x in walk_no_nested(fi.node) if (isinstance(x, ast.Subscript) and isinstance(x.ctx, ast.Load) and isinstance(x.value, ast.Attribute) and x.value.attr == attr)
                     or (isinstance(x, ast.Compare) and any(isinstance(c, ast.Attribute) and c.attr == attr for c in x.comparators))
                     or (isinstance(x, ast.Call) and isinstance(x.func, ast.Attribute) and x.func.attr == "get" and isinstance(x.func.value, ast.Attribute) and x.func.value.attr == attr)]
            if not reads:
                continue
            du = defuse(fi.node)
            a = fi.node.args  # type: ignore[attr-defined]
            params = {x.arg for x in a.posonlyargs + a.args + a.kwonlyargs} - {"self", "cls"}
            for w in writes:
                n += 1
                key_e = w.targets[0].slice
                key = f"{m.rel}::{fi.qualname}::memo::self.{attr}"
                site = f"{m.rel}:{w.lineno}"
                key_deps = (du.closure(names_in(key_e)) | names_in(key_e)) & params
                val_names = du.closure(names_in(w.value)) | names_in(w.value)
                # drop what the value reaches only through the key / the table itself
                val_deps = set()
                for nm in val_names & params:
                    val_deps.add(nm)
                missing = sorted(val_deps - key_deps)
                if missing:
                    res.violation("R-C04h", site, key, f"`self.{attr}[{src(key_e, 30)}] = {src(w.value, 40)}`: the cached value is computed from the parameter(s) {missing}, which the key does not contain — the first "
                                  "request's node is returned for every later request that differs only there (another dimension operation on the same operands)", fi.qualname)
                else:
                    res.ok("R-C04h", site, key, f"key `{src(key_e, 40)}` covers {sorted(val_deps) or 'no parameter'}", fi.qualname)
    res.analysed["instance_memo_writes"] = n
