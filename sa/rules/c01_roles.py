"""R-C01d — operand roles of non-commutative binary lowerings.

For plugins of binary primitives whose ONNX counterpart is not commutative (Sub, Div, Pow, Mod, the ordered
comparisons, BitShift), the value that lowers `eqn.invars[0]` must reach the first operand of that operator and
`eqn.invars[1]` the second (or, for the comparisons, the mirrored operator with mirrored operands).  Decided by a
taint analysis (which of the two equation inputs a value is computed from; dtype / shape reads carry no taint)
over lower() and the package helpers it hands the operands to; helper results are attributed through the helper's
own return expressions.  Only emissions whose two operands each derive from exactly one, different, equation
input are judged — composite lowerings (x - y*trunc(x/y)) are skipped where operands mix.
This is a necessary condition of numerical agreement, not the agreement itself."""
from __future__ import annotations

import ast
from typing import Dict, FrozenSet, List, Optional, Set, Tuple

from ..flow import defuse, names_in
from ..guards import src
from ..index import AnalysisError, ClassInfo, FuncInfo, Index, call_name, dotted, walk_no_nested
from ..report import Results

L, R = "lhs", "rhs"
SAME, SWAP = "same", "swapped"
# plugin key (file stem) -> {ONNX operator: expected operand order relative to eqn.invars}
ROLE_TABLE: Dict[str, Dict[str, str]] = {
    "sub": {"Sub": SAME}, "div": {"Div": SAME}, "pow": {"Pow": SAME}, "rem": {"Mod": SAME, "Div": SAME},
    "lt": {"Less": SAME, "Greater": SWAP}, "le": {"LessOrEqual": SAME, "GreaterOrEqual": SWAP},
    "gt": {"Greater": SAME, "Less": SWAP}, "ge": {"GreaterOrEqual": SAME, "LessOrEqual": SWAP},
    "shift_left": {"BitShift": SAME}, "shift_right_logical": {"BitShift": SAME}, "shift_right_arithmetic": {"BitShift": SAME},
    "atan2": {"Div": SAME},
    # jax.numpy plugins with their own primitive (operands bound positionally by the substitute)
    "divide": {"Div": SAME}, "true_divide": {"Div": SAME}, "floor_divide": {"Div": SAME}, "fmod": {"Mod": SAME, "Div": SAME},
    "mod": {"Mod": SAME}, "remainder": {"Mod": SAME}, "subtract": {"Sub": SAME}, "power": {"Pow": SAME}, "float_power": {"Pow": SAME},
    "greater": {"Greater": SAME, "Less": SWAP}, "greater_equal": {"GreaterOrEqual": SAME, "LessOrEqual": SWAP},
    "less": {"Less": SAME, "Greater": SWAP}, "less_equal": {"LessOrEqual": SAME, "GreaterOrEqual": SWAP},
    "left_shift": {"BitShift": SAME}, "right_shift": {"BitShift": SAME},
}
META_ATTRS = {"dtype", "shape", "aval", "type", "ndim", "name", "weak_type", "size"}
META_KW = {"name_hint", "prefer_np_dtype", "dtype", "name", "_outputs", "out_spec", "to", "axis", "direction", "reference", "output_name", "like"}
# helpers that return metadata about a value (a flag, an extent, a shape, a dtype, a name), never a tensor value
META_FUNC_PREFIXES = ("is_", "_is_", "has_", "_has_", "get_axis0_override", "_shape", "_static_dim", "_aval_shape", "_value_name", "_dtype", "_np_dtype", "_rank")
# second positional operand only supplies the target dtype
DTYPE_ONLY_SECOND = {"cast_like", "CastLike", "builder_cast_like"}
Taint = FrozenSet[str]
EMPTY: Taint = frozenset()


_SUB_CACHE: Dict[int, "Tainter"] = {}


class Tainter:
    def __init__(self, idx: Index, fi: FuncInfo, seeds: Dict[str, Taint], depth: int = 0):
        self.idx, self.fi, self.depth = idx, fi, depth
        self.du = defuse(fi.node)
        self.env: Dict[str, Taint] = dict(seeds)
        self.seeds = dict(seeds)
        self._ret_cache: Dict[Tuple[int, int], Optional[List[Set[int]]]] = {}
        for _ in range(6):
            changed = False
            for name, defs in self.du.defs.items():
                if name in self.seeds:
                    continue
                t: Set[str] = set(self.env.get(name, EMPTY))
                for d in defs:
                    if d.value is None or d.kind == "setitem":
                        continue
                    if d.kind == "unpack" and d.index is not None and isinstance(d.value, ast.Call):
                        t |= self.call_result(d.value, d.index)
                    elif d.kind == "unpack" and d.index is not None and isinstance(d.value, (ast.Tuple, ast.List)) and d.index < len(d.value.elts):
                        t |= self.of(d.value.elts[d.index])
                    elif d.kind == "for":
                        t |= self.of(d.value)
                    else:
                        t |= self.of(d.value)
                ft = frozenset(t)
                if ft != self.env.get(name, EMPTY):
                    self.env[name] = ft
                    changed = True
            if not changed:
                break

    def of(self, e: Optional[ast.AST]) -> Taint:
        if e is None:
            return EMPTY
        if isinstance(e, ast.Name):
            return self.env.get(e.id, EMPTY)
        if isinstance(e, ast.Attribute):
            if e.attr in META_ATTRS:
                return EMPTY
            return self.of(e.value)
        if isinstance(e, ast.Call):
            return self.call_result(e, None)
        if isinstance(e, ast.Subscript):
            return self.of(e.value)
        if isinstance(e, (ast.Constant, ast.Lambda, ast.Compare, ast.JoinedStr)):
            return EMPTY
        out: Set[str] = set()
        for ch in ast.iter_child_nodes(e):
            if isinstance(ch, (ast.expr,)):
                out |= self.of(ch)
        return frozenset(out)

    def _args(self, c: ast.Call) -> List[ast.AST]:
        return [a for a in c.args] + [k.value for k in c.keywords if k.arg not in META_KW]

    def call_result(self, c: ast.Call, index: Optional[int]) -> Taint:
        cn = call_name(c) or ""
        last = cn.split(".")[-1]
        if last in ("getattr",) and len(c.args) >= 2 and isinstance(c.args[1], ast.Constant) and c.args[1].value in META_ATTRS:
            return EMPTY
        if last in ("dtype", "result_type", "promote_types", "_dtype_to_ir", "issubdtype", "isinstance", "len", "fresh_name", "int", "bool", "callable", "hasattr") or last.startswith(META_FUNC_PREFIXES):
            return EMPTY
        if last in DTYPE_ONLY_SECOND and c.args:
            return self.of(c.args[0])
        callee = self.idx.resolve_func(self.fi.module, cn, cls=self.fi.cls, scope=self.fi) if cn else None
        if callee is not None and self.depth < 2 and index is not None:
            a = callee.node.args  # type: ignore[attr-defined]
            pnames = [x.arg for x in a.posonlyargs + a.args]
            if pnames and pnames[0] in ("self", "cls") and cn.split(".")[0] in ("self", "cls"):
                pnames = pnames[1:]
            rets = [r.value for r in walk_no_nested(callee.node) if isinstance(r, ast.Return) and isinstance(r.value, ast.Tuple) and index < len(r.value.elts)]
            if rets:
                seeds = {p: frozenset({f"#{i}"}) for i, p in enumerate(pnames)}
                for k in a.kwonlyargs:
                    seeds[k.arg] = frozenset({f"#{k.arg}"})
                sub = _SUB_CACHE.get(id(callee.node))
                if sub is None:
                    sub = Tainter(self.idx, callee, seeds, self.depth + 1)
                    _SUB_CACHE[id(callee.node)] = sub
                out: Set[str] = set()
                for r in rets:
                    for tag in sub.of(r.elts[index]):
                        if tag.startswith("#"):
                            key = tag[1:]
                            if key.isdigit():
                                i = int(key)
                                if i < len(c.args) and not any(isinstance(x, ast.Starred) for x in c.args[: i + 1]):
                                    out |= self.of(c.args[i])
                                else:
                                    kw = next((k.value for k in c.keywords if k.arg == pnames[i]), None) if i < len(pnames) else None
                                    out |= self.of(kw)
                            else:
                                kw = next((k.value for k in c.keywords if k.arg == key), None)
                                out |= self.of(kw)
                return frozenset(out)
        out2: Set[str] = set()
        if isinstance(c.func, ast.Attribute) and not (dotted(c.func.value) or "").endswith(("builder", "ctx", "np", "jnp", "ir")):
            out2 |= self.of(c.func.value)  # method call on a tainted object: x.astype(...)
        for a_ in self._args(c):
            out2 |= self.of(a_.value if isinstance(a_, ast.Starred) else a_)
        return frozenset(out2)


def _seed_names(fi: FuncInfo) -> Dict[str, Taint]:
    """`a, b = eqn.invars` / `a = eqn.invars[0]`: which locals are the two equation inputs."""
    seeds: Dict[str, Taint] = {}
    for st in walk_no_nested(fi.node):
        if not isinstance(st, ast.Assign) or len(st.targets) != 1:
            continue
        t, v = st.targets[0], st.value
        if isinstance(t, ast.Tuple) and len(t.elts) == 2 and all(isinstance(x, ast.Name) for x in t.elts) and (dotted(v) or "").endswith(".invars"):
            seeds[t.elts[0].id] = frozenset({L})  # type: ignore[attr-defined]
            seeds[t.elts[1].id] = frozenset({R})  # type: ignore[attr-defined]
        if isinstance(t, ast.Name) and isinstance(v, ast.Subscript) and (dotted(v.value) or "").endswith(".invars") and isinstance(v.slice, ast.Constant) and v.slice.value in (0, 1):
            seeds[t.id] = frozenset({L if v.slice.value == 0 else R})
    return seeds


def _emissions(fi: FuncInfo, ops: Dict[str, str]):
    for c in walk_no_nested(fi.node):
        if isinstance(c, ast.Call) and isinstance(c.func, ast.Attribute) and c.func.attr in ops and (dotted(c.func.value) or "").lower().endswith("builder") and len(c.args) >= 2:
            yield c


def run_roles(res: Results, idx: Index, plugins: List[Tuple[ClassInfo, ast.expr]]) -> None:
    res.rule("R-C01d", "non-commutative binary lowerings feed eqn.invars[0] / [1] to the operator's first / second operand (or the mirrored comparison)", floor=12)
    n_plugins = 0
    n_em = 0
    for c, _expr in plugins:
        stem = c.module.rel.rsplit("/", 1)[-1][:-3]
        table = ROLE_TABLE.get(stem)
        if table is None:
            continue
        lower = idx.resolve_method(c, "lower")
        if lower is None:
            continue
        # lower() may delegate to a module function that receives the equation
        work: List[Tuple[FuncInfo, Dict[str, Taint]]] = []
        seeds = _seed_names(lower)
        if seeds:
            work.append((lower, seeds))
        else:
            for call in walk_no_nested(lower.node):
                if isinstance(call, ast.Call) and any(isinstance(a, ast.Name) and a.id == "eqn" for a in call.args):
                    g = idx.resolve_func(c.module, call_name(call) or "", cls=c, scope=lower)
                    if g is not None and _seed_names(g):
                        work.append((g, _seed_names(g)))
        if not work:
            continue
        n_plugins += 1
        seen: Set[int] = set()
        while work:
            fi, sd = work.pop()
            if id(fi.node) in seen:
                continue
            seen.add(id(fi.node))
            tn = Tainter(idx, fi, sd)
            for em in _emissions(fi, table):
                a0, a1 = tn.of(em.args[0]), tn.of(em.args[1])
                op = em.func.attr  # type: ignore[union-attr]
                key = f"{fi.module.rel}::{c.name}::{fi.name}::{op}"
                site = f"{fi.module.rel}:{em.lineno}"
                if len(a0) != 1 or len(a1) != 1 or a0 == a1:
                    continue  # composite operand: not judged
                n_em += 1
                got = SAME if (a0, a1) == (frozenset({L}), frozenset({R})) else SWAP
                want = table[op]
                if got == want:
                    res.ok("R-C01d", site, key, f"{op}({src(em.args[0], 20)}, {src(em.args[1], 20)}): operands in {want} order", fi.qualname)
                else:
                    res.violation("R-C01d", site, key, f"`{src(em, 70)}` passes the value of eqn.invars[{1 if want == SAME else 0}] as first operand of {op}: the {stem} lowering computes the operation with its operands exchanged", fi.qualname)
            # helpers that receive both operands
            if len(seen) < 6:
                for call in walk_no_nested(fi.node):
                    if not isinstance(call, ast.Call):
                        continue
                    g = idx.resolve_func(fi.module, call_name(call) or "", cls=fi.cls, scope=fi)
                    if g is None or id(g.node) in seen:
                        continue
                    a = g.node.args  # type: ignore[attr-defined]
                    pn = [x.arg for x in a.posonlyargs + a.args]
                    if pn and pn[0] in ("self", "cls") and (call_name(call) or "").split(".")[0] in ("self", "cls"):
                        pn = pn[1:]
                    sub_seeds: Dict[str, Taint] = {}
                    for i, arg in enumerate(call.args):
                        if i < len(pn) and not isinstance(arg, ast.Starred):
                            t = tn.of(arg)
                            if len(t) == 1:
                                sub_seeds[pn[i]] = t
                    for k in call.keywords:
                        if k.arg:
                            t = tn.of(k.value)
                            if len(t) == 1:
                                sub_seeds[k.arg] = t
                    if {next(iter(v)) for v in sub_seeds.values()} == {L, R}:
                        work.append((g, sub_seeds))
    # substitutes of plugin-owned primitives: the two array parameters must be bound in order
    n_bind = 0
    seen_mod: Set[str] = set()
    for c, _expr in plugins:
        stem = c.module.rel.rsplit("/", 1)[-1][:-3]
        if stem not in ROLE_TABLE or c.module.rel in seen_mod:
            continue
        seen_mod.add(c.module.rel)
        for fi in c.module.funcs.values():
            a = fi.node.args  # type: ignore[attr-defined]
            pn = [x.arg for x in a.posonlyargs + a.args if x.arg not in ("self", "cls")]
            if len(pn) < 2 or a.vararg is not None:
                continue
            binds = [b for b in walk_no_nested(fi.node) if isinstance(b, ast.Call) and isinstance(b.func, ast.Attribute) and b.func.attr == "bind" and len(b.args) >= 2
                     and not any(isinstance(x, ast.Starred) for x in b.args[:2]) and ("_PRIM" in (dotted(b.func.value) or "") or (dotted(b.func.value) or "").endswith("_p"))]
            if not binds:
                continue
            tn = Tainter(idx, fi, {pn[0]: frozenset({L}), pn[1]: frozenset({R})})
            for b in binds:
                a0, a1 = tn.of(b.args[0]), tn.of(b.args[1])
                if len(a0) != 1 or len(a1) != 1 or a0 == a1:
                    continue
                n_bind += 1
                key = f"{fi.module.rel}::{fi.qualname}::bind-order"
                site = f"{fi.module.rel}:{b.lineno}"
                if (a0, a1) == (frozenset({L}), frozenset({R})):
                    res.ok("R-C01d", site, key, f"`{src(b, 50)}` binds ({pn[0]}, {pn[1]}) in order", fi.qualname)
                else:
                    res.violation("R-C01d", site, key, f"`{src(b, 60)}` binds the substitute's parameters ({pn[0]}, {pn[1]}) in exchanged order: the lowering then sees the operands of {stem} swapped", fi.qualname)
    res.analysed["role_checked_binds"] = n_bind
    res.analysed["role_checked_plugins"] = n_plugins
    res.analysed["role_checked_emissions"] = n_em
    # positive control
    import textwrap
    from ..index import Module as Mod
    cm = Mod("<control>", "<control>", "control_c01d", textwrap.dedent("""
        def lower(self, ctx, eqn):
            x_var, y_var = eqn.invars
            a = ctx.get_value_for_var(x_var, name_hint=ctx.fresh_name("a"))
            b = ctx.get_value_for_var(y_var, prefer_np_dtype=x_var.aval.dtype)
            good = ctx.builder.Sub(a, b, _outputs=["o"])
            bad = ctx.builder.Sub(b, a, _outputs=["o2"])
    """))
    f = cm.funcs["lower"]
    tn = Tainter(idx, f, _seed_names(f))
    got = [(tuple(sorted(tn.of(e.args[0]))), tuple(sorted(tn.of(e.args[1])))) for e in sorted(_emissions(f, {"Sub": SAME}), key=lambda e: e.lineno)]
    res.control("R-C01d", "Sub(a, b) is attributed (lhs, rhs) and Sub(b, a) (rhs, lhs); a dtype hint carries no taint", got == [((L,), (R,)), ((R,), (L,))], str(got))


# ---------------------------------------------------------------------------------------------- R-C01f
SHAPE_CHANGING = {"Reshape", "Expand", "Squeeze", "Unsqueeze", "Transpose", "Flatten"}
SHAPE_READS = {"_shape_tuple", "_shape_dims", "_shape_dims_seq", "_static_shape", "shape_of", "_rank"}


def shape_blind_unwrappers(idx: Index):
    """Plugin helpers that walk back along producers through a fixed set of ops that includes shape-changing ones."""
    out = []
    for m in idx.product_modules():
        if "/plugins/" not in m.rel or m.rel.endswith("_post_check_onnx_graph.py"):
            continue
        for fi in m.funcs.values():
            loops = [w for w in walk_no_nested(fi.node) if isinstance(w, (ast.While, ast.For))]
            if not loops:
                continue
            walks = any(isinstance(c, ast.Call) and ((isinstance(c.func, ast.Attribute) and c.func.attr == "producer") or (call_name(c) or "").split(".")[-1] in ("_producer", "_producer_node")) for c in walk_no_nested(fi.node))
            if not walks:
                continue
            sets = [x for x in walk_no_nested(fi.node) if isinstance(x, ast.Set) and all(isinstance(e, ast.Constant) and isinstance(e.value, str) for e in x.elts)]
            ops = {e.value for x in sets for e in x.elts}  # type: ignore[union-attr]
            tested = any(isinstance(c, ast.Compare) and any(isinstance(o, (ast.In, ast.NotIn)) for o in c.ops) and "op_type" in src(c.left, 80) for c in walk_no_nested(fi.node))
            if ops & SHAPE_CHANGING and tested:
                out.append((fi, sorted(ops & SHAPE_CHANGING)))
    return out


def run_pattern_shape_checks(res: Results, idx: Index) -> None:
    """A lowering that recognises `f(x) / g(reduce(x))`-style patterns by walking the denominator back through
    Reshape / Expand forgets how the reduced value was broadcast.  Whoever consumes such a walk to pick an axis-
    parameterised operator must look at a static shape on the broadcast path."""
    from ..callgraph import get_callgraph
    res.rule("R-C01f", "pattern matchers that walk back through Reshape / Expand consult a static shape before choosing an axis-parameterised operator", floor=1)
    cg = get_callgraph(idx)
    unwrappers = shape_blind_unwrappers(idx)
    res.analysed["shape_blind_unwrappers"] = [f"{fi.module.rel}::{fi.qualname}" for fi, _ in unwrappers]
    n = 0
    for u, ops in unwrappers:
        for cs in cg.callers_of(u):
            f = cs.caller
            if f is None or f is u:
                continue
            n += 1
            key = f"{f.module.rel}::{f.qualname}::uses::{u.name}"
            site = f"{f.module.rel}:{cs.call.lineno}"
            reads_shape = any((isinstance(x, ast.Attribute) and x.attr == "shape") or (isinstance(x, ast.Call) and (call_name(x) or "").split(".")[-1] in SHAPE_READS) for x in walk_no_nested(f.node))
            returns_axis = any("axis" in src(r.value, 200) or "axes" in src(r.value, 200) for r in walk_no_nested(f.node) if isinstance(r, ast.Return) and r.value is not None) or \
                any(isinstance(c, ast.Call) and any(k.arg in ("axis", "axes") for k in c.keywords) for c in walk_no_nested(f.node))
            if not returns_axis:
                res.ok("R-C01f", site, key, "the walk's result does not select an axis", f.qualname)
            elif reads_shape:
                res.ok("R-C01f", site, key, f"walks through {ops} and checks a static shape before committing to an axis", f.qualname)
            else:
                res.violation("R-C01f", site, key, f"`{f.name}` matches a pattern by walking producers through {ops} (via {u.name}) and derives an operator axis from it without reading any static shape: how the reduced value was broadcast back (keepdims or trailing-axis alignment) is lost, so e.g. x / norm(x, axis=1) without keepdims is lowered as a per-row normalisation", f.qualname)
    if n == 0 and unwrappers:
        res.ok("R-C01f", f"{unwrappers[0][0].module.rel}:{unwrappers[0][0].node.lineno}", "unwrappers::unused", "shape-blind unwrap helpers exist but no caller derives an axis", "")


# ---------------------------------------------------------------------------------------------- R-C01g
INT_ONLY_JNP = {"bitwise_and", "bitwise_or", "bitwise_xor", "bitwise_not", "bitwise_left_shift", "bitwise_right_shift", "left_shift", "right_shift", "gcd", "lcm", "invert"}


def run_mixed_dtype_operands(res: Results, idx: Index, plugins) -> None:
    """jax.numpy-level binary plugins bind the user's raw arguments on their own primitive, so the two operands can
    have different dtypes (an int32 array and the Python scalar 2.5) and abstract_eval returns the promoted dtype.
    A lowering that materialises one operand with `prefer_np_dtype=<dtype of the OTHER operand>` forces the scalar into
    the array's integer dtype: jnp.add(x_i32, 2.5) exports an int32 Add.  (For lax primitives both operands already
    share a dtype, so the same code is harmless there.)"""
    res.rule("R-C01g", "jax.numpy-level binary lowerings do not force one operand into the other operand's dtype", floor=3)
    n = 0
    for c, _expr in plugins:
        if "/plugins/jax/numpy/" not in c.module.rel:
            continue
        if c.module.rel.rsplit("/", 1)[-1][:-3] in INT_ONLY_JNP:
            continue  # integer-only functions: jax itself gives a weak Python int the array's dtype and rejects floats
        lower = idx.resolve_method(c, "lower")
        if lower is None:
            continue
        cands: List[FuncInfo] = []
        if _seed_names(lower):
            cands.append(lower)
        else:
            for call in walk_no_nested(lower.node):
                if isinstance(call, ast.Call) and any(isinstance(a, ast.Name) and a.id == "eqn" for a in call.args):
                    g = idx.resolve_func(c.module, call_name(call) or "", cls=c, scope=lower)
                    if g is not None and _seed_names(g):
                        cands.append(g)
        for fi in cands:
            seeds = _seed_names(fi)
            if len(seeds) != 2:
                continue
            du = defuse(fi.node)
            lhs_name = next(k for k, v in seeds.items() if v == frozenset({L}))
            rhs_name = next(k for k, v in seeds.items() if v == frozenset({R}))
            for call in walk_no_nested(fi.node):
                if not (isinstance(call, ast.Call) and (call_name(call) or "").endswith("get_value_for_var") and call.args and isinstance(call.args[0], ast.Name)):
                    continue
                kw = next((k.value for k in call.keywords if k.arg == "prefer_np_dtype"), None)
                if kw is None:
                    continue
                own = call.args[0].id
                other = lhs_name if own == rhs_name else (rhs_name if own == lhs_name else None)
                if other is None:
                    continue
                n += 1
                names = du.closure(names_in(kw)) | names_in(kw)
                key = f"{c.module.rel}::{c.name}::operand-dtype-forced::{own}"
                site = f"{fi.module.rel}:{call.lineno}"
                if other in names and own not in names:
                    res.violation("R-C01g", site, key, f"{c.name}: `{src(call, 70)}` materialises `{own}` with the dtype of `{other}`; the jax.numpy-level primitive is bound with the caller's raw operands, so an integer array combined with a Python float (jnp.{c.module.rel.rsplit('/', 1)[-1][:-3]}(x_int32, 2.5)) is computed in the integer dtype although abstract_eval promised the promoted dtype", fi.qualname)
                else:
                    res.ok("R-C01g", site, key, "dtype preference does not come from the other operand alone", fi.qualname)
    # explicit casts of one operand to ANOTHER operand's own dtype (jnp.clip bounds cast to x's integer dtype)
    for c, _expr in plugins:
        if "/plugins/jax/numpy/" not in c.module.rel or c.module.rel.rsplit("/", 1)[-1][:-3] in INT_ONLY_JNP:
            continue
        lower = idx.resolve_method(c, "lower")
        if lower is None:
            continue
        unpack = next((st for st in walk_no_nested(lower.node) if isinstance(st, ast.Assign) and isinstance(st.targets[0], ast.Tuple) and len(st.targets[0].elts) >= 2
                       and all(isinstance(e, ast.Name) for e in st.targets[0].elts) and (dotted(st.value) or "").endswith(".invars")), None)
        if unpack is None:
            continue
        ops = [e.id for e in unpack.targets[0].elts]  # type: ignore[union-attr]
        du = defuse(lower.node)
        for call in walk_no_nested(lower.node):
            if not (isinstance(call, ast.Call) and "cast" in (call_name(call) or "").lower() and len(call.args) >= 3):
                continue
            arg_ops = [o for a_ in call.args for o in ops if isinstance(a_, ast.Name) and a_.id == o]
            if len(arg_ops) != 1:
                continue
            own = arg_ops[0]
            # a dtype-valued argument that derives from exactly one other operand
            for a_ in call.args:
                if isinstance(a_, ast.Name) and a_.id not in ops and "dtype" in a_.id.lower():
                    cl = du.closure({a_.id}) | {a_.id}
                    srcs = [o for o in ops if o in cl]
                    if len(srcs) == 1 and srcs[0] != own:
                        n += 1
                        key = f"{c.module.rel}::{c.name}::operand-cast-to-other-dtype::{own}"
                        res.violation("R-C01g", f"{c.module.rel}:{call.lineno}", key, f"{c.name}: `{src(call, 70)}` casts `{own}` to the dtype of `{srcs[0]}` alone; with an integer `{srcs[0]}` and a floating `{own}` (jnp.{c.module.rel.rsplit('/', 1)[-1][:-3]}(x_int32, …float bounds…)) the floating operand is truncated and the result stays integer although JAX promotes", lower.qualname)
    res.analysed["jnp_binary_dtype_preferences"] = n


# ---------------------------------------------------------------------------------------------- R-C01h
def run_promotion_overrides(res: Results, idx: Index) -> None:
    """A dtype obtained as the promotion of two operand dtypes (`np.promote_types(a, b)` / `result_type`) is the
    type both operands are cast to before they are combined.  Re-assigning that name on some path from the dtype of
    ONE of the operands makes the other operand be cast down to it (float queries truncated to an integer table …)."""
    res.rule("R-C01h", "a promoted operand dtype is not overridden by one operand's own dtype", floor=10)
    n = 0
    for m in idx.product_modules():
        if "/plugins/" not in m.rel or ".examples" in m.name:
            continue
        for fi in m.funcs.values():
            du = defuse(fi.node)
            for name, defs in du.defs.items():
                pro = [d for d in defs if d.value is not None and isinstance(d.value, ast.Call) and (call_name(d.value) or "").split(".")[-1] in ("promote_types", "result_type") and len(d.value.args) >= 2]
                if not pro:
                    continue
                n += 1
                a0 = names_in(pro[0].value.args[0])
                a1 = names_in(pro[0].value.args[1])
                key = f"{m.rel}::{fi.qualname}::{name}"
                site = f"{m.rel}:{pro[0].stmt.lineno}"
                bad = None
                for o in defs:
                    if o in pro or o.value is None or o.kind not in ("assign", "walrus"):
                        continue
                    cl = du.closure(names_in(o.value)) | names_in(o.value)
                    cl.discard(name)
                    h0, h1 = bool(a0 & cl), bool(a1 & cl)
                    if h0 != h1 and a0 and a1 and not (a0 & a1):
                        bad = o
                        break
                if bad is not None:
                    res.violation("R-C01h", f"{m.rel}:{bad.stmt.lineno}", key, f"`{name}` is the promotion `{src(pro[0].value, 50)}` of both operand dtypes, but on another path it becomes `{src(bad.value, 50)}`, which depends on one operand only: the other operand is then cast to a type that cannot hold its values", fi.qualname)
                else:
                    res.ok("R-C01h", site, key, f"`{src(pro[0].value, 50)}` is not replaced by a single operand's dtype", fi.qualname)
    res.analysed["dtype_promotions"] = n


# ---------------------------------------------------------------------------------------------- R-C01j
# Functions whose parameters describe the ROLE of each operand axis (contracting / batch axes of both operands).
# (file, function, role parameters, matrix operators whose operand layout is fixed by the ONNX specification)
ROLE_PARAM_TABLE = [
    ("jax2onnx/plugins/jax/lax/dot_general.py", "DotGeneralPlugin._try_lower_matmul", ("lhs_contract", "rhs_contract", "lhs_batch", "rhs_batch"), ("MatMul", "Gemm")),
]


def _outside_len(expr: ast.AST, name: str) -> bool:
    """`name` occurs in expr other than as the sole argument of len()"""
    inside = set()
    for c in ast.walk(expr):
        if isinstance(c, ast.Call) and (call_name(c) or "") == "len" and len(c.args) == 1 and isinstance(c.args[0], ast.Name) and c.args[0].id == name:
            inside.add(id(c.args[0]))
    return any(isinstance(x, ast.Name) and x.id == name and id(x) not in inside for x in ast.walk(expr))


def run_axis_role_params(res: Results, idx: Index) -> None:
    """MatMul / Gemm contract a fixed pair of axes.  A fast path that emits one of them for a dot_general has to make sure
    BOTH operands' contracting (and batch) axes are where the operator expects them: each role parameter is either empty
    on the path to the emission, or one of its ELEMENTS (not just its length) decides the path or flows into the
    emission's operands / attributes (a Transpose permutation, transA / transB)."""
    from ..guards import path_conditions
    res.rule("R-C01j", "every axis-role parameter of a matrix fast path is consulted element-wise (or empty) on the way to the MatMul / Gemm it emits", floor=4)
    for rel, fq, params, ops in ROLE_PARAM_TABLE:
        f = idx.find_func(rel, fq)
        if f is None:
            raise AnalysisError(f"role-parameter anchor missing: {rel}::{fq}")
        du = defuse(f.node)
        emits = [c for c in walk_no_nested(f.node) if isinstance(c, ast.Call) and isinstance(c.func, ast.Attribute) and c.func.attr in ops]
        if not emits:
            res.unresolved("R-C01j", f.site, f"{rel}::{fq}::no-emission", f"no {'/'.join(ops)} emission found", f.qualname)
            continue
        from ..cfg import cfg_of
        from ..index import enclosing_stmt
        g = cfg_of(f.node)
        for e in emits:
            conds = path_conditions(e)
            e_nodes = g.nodes_of(enclosing_stmt(e))
            # names the emission depends on: operands / attributes and everything they are computed from, plus the
            # conditions under which those definitions happen (control dependence)
            used_exprs: List[ast.AST] = list(e.args) + [k.value for k in e.keywords]
            n_operand_exprs = None
            seen: Set[str] = set()
            todo = [n for x in used_exprs for n in names_in(x)]
            while todo:
                nm = todo.pop()
                if nm in seen:
                    continue
                seen.add(nm)
                for d in du.defs.get(nm, []):
                    # only definitions that can reach the emission (another fast path that returns does not count)
                    if d.kind != "param" and d.stmt is not None and g.nodes_of(enclosing_stmt(d.stmt)) and e_nodes and not g.can_reach(g.nodes_of(enclosing_stmt(d.stmt)), e_nodes):
                        continue
                    if d.value is not None:
                        used_exprs.append(d.value)
                        todo.extend(names_in(d.value))
                    if d.stmt is not None and d.kind != "param":
                        # control dependence: the tests of the if statements the definition sits in (not the early
                        # returns before it: those hold for every later statement alike)
                        from ..index import parents as _parents
                        for anc in _parents(d.stmt):
                            if anc is f.node:
                                break
                            if isinstance(anc, (ast.If, ast.While, ast.IfExp)):
                                used_exprs.append(anc.test)
                                todo.extend(names_in(anc.test))
            flow_names = set(seen)            # what the operands / attributes are computed from (incl. control dependence)
            flow_exprs = list(used_exprs)
            used_exprs = used_exprs + [c for c, _w in conds]
            for p in params:
                # an element of p that the path admits with two or more values has to reach the operands / attributes
                elems = {d.name for ds in du.defs.values() for d in ds if d.value is not None and isinstance(d.value, ast.Subscript) and isinstance(d.value.value, ast.Name) and d.value.value.id == p
                         and (d.stmt is None or not e_nodes or g.can_reach(g.nodes_of(enclosing_stmt(d.stmt)), e_nodes))}
                multi = None
                for c, want in conds:
                    if isinstance(c, ast.Compare) and len(c.ops) == 1 and isinstance(c.left, ast.Name) and c.left.id in elems and isinstance(c.comparators[0], (ast.Tuple, ast.List, ast.Set)) and len(c.comparators[0].elts) >= 2:
                        if (isinstance(c.ops[0], ast.In) and want) or (isinstance(c.ops[0], ast.NotIn) and not want):
                            multi = (c.left.id, c)
                if multi is not None and multi[0] not in flow_names and not any(_outside_len(x, p) for x in flow_exprs):
                    res.violation("R-C01j", f"{rel}:{e.lineno}", f"{rel}::{fq}::{e.func.attr}@{_nth(emits, e)}::{p}::admitted-values", f"the path to this {e.func.attr} admits `{src(multi[1], 50)}` "
                                  f"(want {'true' if isinstance(multi[1].ops[0], ast.In) else 'false'}), i.e. several positions of the `{p}` axis, but neither an operand nor an attribute of the node depends on `{multi[0]}`: "
                                  "all of them are lowered like one", f.qualname)
            for p in params:
                key = f"{rel}::{fq}::{e.func.attr}@{_nth(emits, e)}::{p}"
                site = f"{rel}:{e.lineno}"
                empty = False
                for c, want in conds:
                    if isinstance(c, ast.Name) and c.id == p and not want:
                        empty = True
                    if isinstance(c, ast.Compare) and len(c.ops) == 1 and isinstance(c.left, ast.Call) and (call_name(c.left) or "") == "len" and c.left.args and isinstance(c.left.args[0], ast.Name) \
                            and c.left.args[0].id == p and isinstance(c.comparators[0], ast.Constant) and c.comparators[0].value == 0:
                        if (isinstance(c.ops[0], ast.NotEq) and not want) or (isinstance(c.ops[0], ast.Eq) and want) or (isinstance(c.ops[0], ast.Gt) and not want):
                            empty = True
                elementwise = any(_outside_len(x, p) for x in used_exprs)
                if empty:
                    res.ok("R-C01j", site, key, f"`{p}` is empty on every path to this {e.func.attr}", f.qualname)
                elif elementwise:
                    res.ok("R-C01j", site, key, f"an element of `{p}` decides the path to, or an operand / attribute of, this {e.func.attr}", f.qualname)
                else:
                    res.violation("R-C01j", site, key, f"{e.func.attr} is emitted without looking at the elements of `{p}` (only its length, if anything): whichever axis it names, the operator contracts / batches its fixed axes, so e.g. a contraction over the operand's FIRST axis is computed as one over its last", f.qualname)


def _nth(seq: List[ast.AST], x: ast.AST) -> int:
    return next(i for i, y in enumerate(seq) if y is x)


# ---------------------------------------------------------------------------------------------- R-C01k
def run_irfft_length_conservation(res: Results, idx: Index) -> None:
    """The inverse real FFT rebuilds the full spectrum from the one-sided one (n//2 + 1 bins) by appending `mirror_count`
    conjugated bins and declares the result `target_len` long before running a DFT of that length.  The index
    arithmetic that chooses the mirrored bins is evaluated for every target length 2..40: one-sided length + mirror
    count must equal the target length (a shorter spectrum is silently zero-padded by DFT: right shape, wrong values)."""
    from ..symeval import EvalRaise, Evaluator, Unsupported
    FFT = "jax2onnx/plugins/jax/lax/fft.py"
    res.rule("R-C01k", "IRFFT: one-sided bins + mirrored bins = transform length, for every length 2..40 (finite-domain evaluation of the index arithmetic)", floor=1)
    f = idx.find_func(FFT, "FFTPlugin._lower_irfft")
    key = f"{FFT}::FFTPlugin._lower_irfft::spectrum-length"
    if f is None:
        raise AnalysisError("FFTPlugin._lower_irfft not found")
    blk = next((n for n in walk_no_nested(f.node) if isinstance(n, ast.If) and names_in(n.test) >= {"target_len", "onesided_len"}
                and any(isinstance(x, ast.Name) and x.id == "mirror_count" and isinstance(x.ctx, ast.Store) for x in ast.walk(n))), None)
    if blk is None:
        res.unresolved("R-C01k", f.site, key, "the `if target_len > onesided_len:` reconstruction block with `mirror_count` was not found", f.qualname)
        return
    bad = []
    n_eval = 0
    for n in range(2, 41):
        ev = Evaluator(idx, {})
        env = {"target_len": n, "onesided_len": n // 2 + 1}
        try:
            if not ev.truth(ev.eval(blk.test, env, f, 0)):
                mc = 0
            else:
                for st in blk.body:
                    try:
                        ev.block([st], env, f, 0)
                    except (Unsupported, EvalRaise):
                        if "mirror_count" in env:
                            break
                        raise
                    if "mirror_count" in env:
                        break
                mc = env.get("mirror_count")
        except (Unsupported, EvalRaise) as e:
            res.unresolved("R-C01k", f"{FFT}:{blk.lineno}", key, f"index arithmetic not evaluable: {e}", f.qualname)
            return
        n_eval += 1
        if not isinstance(mc, int) or (n // 2 + 1) + mc != n:
            bad.append((n, mc))
    if bad:
        res.violation("R-C01k", f"{FFT}:{blk.lineno}", key, f"for transform length {bad[0][0]} the one-sided spectrum ({bad[0][0] // 2 + 1} bins) is extended by {bad[0][1]} mirrored bins: {bad[0][0] // 2 + 1 + (bad[0][1] or 0)} != {bad[0][0]} "
                      f"({len(bad)} of {n_eval} lengths wrong: {[b[0] for b in bad][:8]}); the DFT pads the missing bins with zeros", f.qualname)
    else:
        res.ok("R-C01k", f"{FFT}:{blk.lineno}", key, f"one-sided + mirrored = transform length for {n_eval} lengths (even and odd)", f.qualname)


# ---------------------------------------------------------------------------------------------- R-C01r
def run_operand_role_separation(res: Results, idx: Index) -> None:
    """`dot_general` describes each operand by its OWN axis lists (lhs_batch / rhs_batch, lhs_contract / rhs_contract).  Paired
    axes need not have equal indices.  A permutation applied to one operand may therefore be computed from that operand's
    lists only: `rhs_perm = list(lhs_batch) + …` transposes the right operand by the left operand's batch order, which is the
    same only while both orders agree (then the call is exported as `lhs[a,b] @ rhs[a,b]` for `rhs[b,a]`).  For every call in
    the dot_general lowering that hands an operand value and a permutation to a helper, the lhs_* / rhs_* names the
    permutation is computed from must all belong to that operand."""
    res.rule("R-C01r", "a permutation applied to one dot_general operand is computed from that operand's axis lists only", floor=2)
    rel = "jax2onnx/plugins/jax/lax/dot_general.py"
    m = idx.module(rel)
    n = 0
    for fi in m.funcs.values():
        du = None
        for c in walk_no_nested(fi.node):
            if not (isinstance(c, ast.Call) and len(c.args) >= 2 and isinstance(c.args[0], ast.Name) and c.args[0].id.split("_")[0] in ("lhs", "rhs")):
                continue
            role = c.args[0].id.split("_")[0]
            perm_args = [a for a in c.args[1:] if isinstance(a, ast.Name) and "perm" in a.id]
            if not perm_args:
                continue
            du = du or defuse(fi.node)
            for pa in perm_args:
                n += 1
                key = f"{rel}::{fi.qualname}::{role}-operand-permutation::{pa.id}"
                site = f"{rel}:{c.lineno}"
                # role-named sources of the permutation: follow un-prefixed helper names (`batch_axes`) through their textually
                # nearest binding, stop at lhs_* / rhs_* names (the function-wide closure would mix both operands through
                # shared loop variables)
                clo: Set[str] = set()
                todo = [(pa.id, c.lineno)]
                seen_n: Set[str] = set()
                while todo:
                    nm_, line_ = todo.pop()
                    if nm_ in seen_n:
                        continue
                    seen_n.add(nm_)
                    ds_ = [d for d in du.defs.get(nm_, []) if d.value is not None and getattr(d.stmt, "lineno", 0) <= line_]
                    if not ds_:
                        continue
                    last_ = max(getattr(d.stmt, "lineno", 0) for d in ds_)
                    for d in ds_:
                        if getattr(d.stmt, "lineno", 0) != last_:
                            continue
                        for x in names_in(d.value):
                            if x.split("_")[0] in ("lhs", "rhs"):
                                clo.add(x)
                            else:
                                todo.append((x, last_))
                foreign = sorted(x for x in clo if x.split("_")[0] != role)
                if foreign:
                    res.violation("R-C01r", site, key, f"`{src(c, 60)}` permutes the {role} operand with `{pa.id}`, which is computed from {foreign}: the other operand's axis order is applied to this operand — "
                                  "right only while both orders coincide (batch dims paired as ((0,1),(1,0)) are exported as a batched MatMul of the untransposed operand)", fi.qualname)
                else:
                    res.ok("R-C01r", site, key, f"`{pa.id}` is computed from {role}_* names only", fi.qualname)
    res.analysed["operand_permutation_calls"] = n
