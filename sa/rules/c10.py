"""C10 — JAX transformations commute with export (wiring part only).

The property is about values computed under vmap / jit / grad / remat / custom_jvp.  What is visible in the shape
of the code, and is a necessary condition of it, is the *wiring* of the transformation machinery:

R-C10a  inline-call plugins (jit, custom_jvp_call, custom_vjp_call, remat2 …) export T(f) by inlining the primal
        sub-jaxpr: the jaxpr is read from the primal key of the reference table, every inner input variable is bound to
        the value of the corresponding outer input *before* the body is lowered through the checked dispatcher, and every
        outer output variable is bound to the inner output's value *after* it — all three on the same jaxpr object
R-C10b  transformation rules are installed on the module's own primitive: every `batching.primitive_batchers[P._PRIM] = r`,
        `ad.primitive_jvps[…]`, `register_*( P._PRIM, r )` names a plugin class defined in the same module, and a rule /
        impl function passed by name is defined in that module (a rule registered on another plugin's primitive replaces
        that plugin's rule)
R-C10c  forwarded rules come from the matching JAX primitive: `register_*_forwarding(orig_prim=lax.X_p, new_prim=P._PRIM)`
        and `register_reduction_batch_rule(P._PRIM, lax.X_p)` pair a jax.numpy function with the lax primitive the
        reference table assigns to it (unknown functions: UNRESOLVED)
R-C10d  rules that bind the primitive again hand on every parameter (the instances of C19 R-C19e)
Not decided: whether any batching / JVP / transpose rule computes the right values.
"""
from __future__ import annotations

import ast
from typing import Dict, List, Optional, Set, Tuple

from ..cfg import cfg_of
from ..flow import defuse, names_in
from ..guards import src
from ..index import AnalysisError, ClassInfo, FuncInfo, Index, call_name, dotted, enclosing_stmt, walk_no_nested
from ..report import Results

# primitive (registry name) -> parameter keys that hold the PRIMAL computation
INLINE_TABLE: Dict[str, Set[str]] = {
    "jit": {"jaxpr", "call_jaxpr", "call_jaxpr_thunk"}, "pjit": {"jaxpr", "call_jaxpr"},
    "custom_jvp_call": {"call_jaxpr"}, "custom_vjp_call": {"call_jaxpr", "fun_jaxpr"}, "custom_vjp_call_jaxpr": {"fun_jaxpr", "call_jaxpr"},
    "remat2": {"jaxpr"}, "remat": {"jaxpr"}, "checkpoint": {"jaxpr"}, "closed_call": {"call_jaxpr"}, "core_call": {"call_jaxpr"},
    "custom_lin": set(),
}
DERIVATIVE_KEYS = {"jvp_jaxpr_fun", "jvp_jaxpr_thunk", "jvp", "fwd_jaxpr_thunk", "bwd", "fwd", "jvp_jaxpr"}
# jax.numpy / jax.nn function (file stem) -> lax primitives whose rules may be forwarded to it
FORWARD_TABLE: Dict[str, Set[str]] = {
    "add": {"add_p"}, "concatenate": {"concatenate_p"}, "squeeze": {"squeeze_p"}, "transpose": {"transpose_p"}, "moveaxis": {"transpose_p"},
    "swapaxes": {"transpose_p"}, "permute_dims": {"transpose_p"}, "matrix_transpose": {"transpose_p"},
    "split": {"split_p"}, "tile": {"tile_p"}, "reshape": {"reshape_p"}, "ravel": {"reshape_p"}, "expand_dims": {"reshape_p", "broadcast_in_dim_p", "expand_dims_p"},
    "sum": {"reduce_sum_p"}, "prod": {"reduce_prod_p"}, "max": {"reduce_max_p"}, "amax": {"reduce_max_p"}, "min": {"reduce_min_p"}, "amin": {"reduce_min_p"},
    "any": {"reduce_or_p"}, "all": {"reduce_and_p"}, "mean": {"reduce_sum_p"}, "multiply": {"mul_p"}, "subtract": {"sub_p"}, "divide": {"div_p"},
    "maximum": {"max_p"}, "minimum": {"min_p"}, "select": {"select_n_p"}, "where": {"select_n_p"}, "clip": {"clamp_p"}, "pad": {"pad_p"},
    "cumsum": {"cumsum_p"}, "cumprod": {"cumprod_p"}, "sort": {"sort_p"}, "flip": {"rev_p"}, "take": {"gather_p"}, "stack": {"concatenate_p"},
    "broadcast_to": {"broadcast_in_dim_p"}, "dot": {"dot_general_p"}, "matmul": {"dot_general_p"}, "einsum": {"dot_general_p"}, "tensordot": {"dot_general_p"},
    "power": {"pow_p"}, "pow": {"pow_p"}, "negative": {"neg_p"}, "abs": {"abs_p"}, "exp": {"exp_p"}, "log": {"log_p"}, "sqrt": {"sqrt_p"},
}
REGISTRARS_PRIM_FIRST = {"register_unary_elementwise_batch_rule", "register_jvp_rule", "register_jvp_via_jax_jvp", "register_fallback_jvp_rule",
                         "register_transpose_via_linear_transpose", "register_reduction_batch_rule", "register_batch_rule", "register_vmap_rule"}
REGISTRY_TABLES = {"primitive_batchers", "primitive_jvps", "primitive_transposes", "fancy_primitive_batchers", "axis_primitive_batchers"}


def _plugin_classes(m) -> Dict[str, ClassInfo]:
    return {n: c for n, c in m.classes.items()}


def _prim_owner(e: ast.AST) -> Optional[str]:
    """`Cls._PRIM` / `Cls.primitive` -> 'Cls'; a module-level name `_FOO_PRIM` -> that name."""
    d = dotted(e) or ""
    parts = d.split(".")
    if len(parts) == 2 and parts[1] in ("_PRIM", "primitive", "_prim", "PRIM"):
        return parts[0]
    if len(parts) == 1 and parts[0].isupper() is False and parts[0].endswith(("_PRIM", "_P", "_p")):
        return parts[0]
    if len(parts) == 1 and parts[0].upper() == parts[0] and "PRIM" in parts[0]:
        return parts[0]
    return None


def rule_a(res: Results, idx: Index) -> None:
    res.rule("R-C10a", "inline-call plugins bind inner inputs before, lower the primal sub-jaxpr through the checked dispatcher, and bind outer outputs after", floor=8)
    from .c01 import registered_plugins
    n = 0
    for c, expr in registered_plugins(idx):
        from ..index import fold_const, is_const
        v = fold_const(expr, c.module.class_env(c))
        name = v if is_const(v) and isinstance(v, str) else None
        if name not in INLINE_TABLE:
            continue
        lower = idx.resolve_method(c, "lower")
        if lower is None:
            continue
        n += 1
        du = defuse(lower.node)
        g = cfg_of(lower.node)
        rel = c.module.rel
        # (1) keys read
        reads: Set[str] = set()
        for x in walk_no_nested(lower.node):
            if isinstance(x, ast.Call) and isinstance(x.func, ast.Attribute) and x.func.attr == "get" and x.args and isinstance(x.args[0], ast.Constant) and "params" in (dotted(x.func.value) or ""):
                reads.add(x.args[0].value)
            if isinstance(x, ast.Subscript) and isinstance(x.slice, ast.Constant) and "params" in (dotted(x.value) or ""):
                reads.add(x.slice.value)
        key = f"{rel}::{c.name}::primal-key"
        bad_keys = sorted(reads & DERIVATIVE_KEYS)
        prim_keys = sorted(reads & INLINE_TABLE[name])
        if bad_keys:
            res.violation("R-C10a", f"{rel}:{lower.node.lineno}", key, f"{c.name} lowers `{name}` from {bad_keys}: that is a derivative rule of the function, not the function the exported model has to compute", lower.qualname)
        elif prim_keys:
            res.ok("R-C10a", f"{rel}:{lower.node.lineno}", key, f"reads the primal computation from {prim_keys}", lower.qualname)
        else:
            res.unresolved("R-C10a", f"{rel}:{lower.node.lineno}", key, f"none of {sorted(INLINE_TABLE[name])} is read", lower.qualname)
        # (2)-(4) wiring
        lowers = [x for x in walk_no_nested(lower.node) if isinstance(x, ast.Call) and (call_name(x) or "").split(".")[-1] in ("lower_jaxpr_eqns", "lower_jaxpr_with_plugins") and len(x.args) >= 2]
        key = f"{rel}::{c.name}::wiring"
        if not lowers:
            res.violation("R-C10a", f"{rel}:{lower.node.lineno}", key, "the sub-jaxpr is not lowered through lower_jaxpr_eqns (checked dispatcher)", lower.qualname)
            continue
        lw = lowers[0]
        inner = dotted(lw.args[1]) or ""
        loops = [lp for lp in walk_no_nested(lower.node) if isinstance(lp, ast.For) and isinstance(lp.iter, ast.Call) and (call_name(lp.iter) or "") == "zip" and len(lp.iter.args) == 2
                 and isinstance(lp.target, ast.Tuple) and len(lp.target.elts) == 2 and all(isinstance(e, ast.Name) for e in lp.target.elts)]

        def role(lp: ast.For) -> Optional[Tuple[str, str, bool]]:
            """('in'|'out', jaxpr name, direction ok?)"""
            a, b = (dotted(x) or "" for x in lp.iter.args)
            outer_t, inner_t = lp.target.elts[0].id, lp.target.elts[1].id  # type: ignore[attr-defined]
            kind = None
            if a.endswith("eqn.invars") and b.endswith(".invars"):
                kind = "in"
            elif a.endswith("eqn.outvars") and b.endswith(".outvars"):
                kind = "out"
            elif a.endswith(".invars") and b.endswith("eqn.invars"):
                kind, outer_t, inner_t = "in", inner_t, outer_t
                a, b = b, a
            elif a.endswith(".outvars") and b.endswith("eqn.outvars"):
                kind, outer_t, inner_t = "out", inner_t, outer_t
                a, b = b, a
            if kind is None:
                return None
            binds = [x for st in lp.body for x in ast.walk(st) if isinstance(x, ast.Call) and (call_name(x) or "").endswith("bind_value_for_var") and len(x.args) >= 2]
            if not binds:
                return kind, b.rsplit(".", 1)[0], False
            bd = binds[0]
            dst = names_in(bd.args[0])
            srcn = names_in(bd.args[1])
            good = (dst == {inner_t} and outer_t in srcn) if kind == "in" else (dst == {outer_t} and inner_t in srcn)
            return kind, b.rsplit(".", 1)[0], good
        ins = [(lp, role(lp)) for lp in loops if role(lp) and role(lp)[0] == "in"]
        outs = [(lp, role(lp)) for lp in loops if role(lp) and role(lp)[0] == "out"]
        problems = []
        if not ins:
            problems.append("no loop binds the inner input variables from eqn.invars")
        if not outs:
            problems.append("no loop binds eqn.outvars from the inner output variables")
        for lp, r in ins + outs:
            if not r[2]:
                problems.append(f"line {lp.lineno}: the binding direction is reversed ({'inner <- outer' if r[0] == 'in' else 'outer <- inner'} expected)")
            if r[1] != inner:
                problems.append(f"line {lp.lineno}: binds the variables of `{r[1]}` but `{inner}` is what gets lowered")
        lw_stmt = enclosing_stmt(lw)
        for lp, r in ins:
            if not g.dominates(lp, lw_stmt):
                problems.append("inner inputs are not bound on every path before the body is lowered")
        for lp, r in outs:
            if not g.dominates(lw_stmt, lp):
                problems.append("outer outputs are bound before / without the body having been lowered")
        if problems:
            res.violation("R-C10a", f"{rel}:{lw.lineno}", key, f"{c.name}: " + "; ".join(problems), lower.qualname)
        else:
            res.ok("R-C10a", f"{rel}:{lw.lineno}", key, f"inner inputs <- outer values, lower_jaxpr_eqns({inner}), outer outputs <- inner values, in this order", lower.qualname)
    res.analysed["inline_call_plugins"] = n


def rule_bc(res: Results, idx: Index) -> None:
    res.rule("R-C10b", "transformation rules are installed on a primitive of the same module, with rule / impl functions of that module", floor=150)
    res.rule("R-C10c", "rules are forwarded from the lax primitive that implements the same function", floor=5)
    n_b = n_c = 0
    for m in idx.product_modules():
        if "/plugins/" not in m.rel or m.rel.endswith(("_autodiff_utils.py", "_batching_utils.py", "_batching_compat.py", "plugin_system.py", "_builder_utils.py", "_reduction_utils.py", "_common.py")):
            continue
        classes = set(m.classes)
        mod_names = classes | {t.id for st in m.tree.body if isinstance(st, (ast.Assign, ast.AnnAssign)) for t in (st.targets if isinstance(st, ast.Assign) else [st.target]) if isinstance(t, ast.Name)}
        local_funcs = {f.name for f in m.funcs.values()} | set(m.imports)
        stem = m.rel.rsplit("/", 1)[-1][:-3]
        for st in m.tree.body:
            regs: List[Tuple[ast.AST, Optional[ast.AST], str, int]] = []  # (prim expr, rule expr, how, line)
            if isinstance(st, ast.Assign) and len(st.targets) == 1 and isinstance(st.targets[0], ast.Subscript):
                t = st.targets[0]
                tab = (dotted(t.value) or "").split(".")[-1]
                if tab in REGISTRY_TABLES:
                    regs.append((t.slice, st.value, tab, st.lineno))
            elif isinstance(st, ast.Expr) and isinstance(st.value, ast.Call):
                c = st.value
                cn = (call_name(c) or "").split(".")[-1]
                if cn in REGISTRARS_PRIM_FIRST and c.args:
                    regs.append((c.args[0], c.args[1] if len(c.args) > 1 else None, cn, st.lineno))
                elif cn.endswith("rule_forwarding"):
                    kw = {k.arg: k.value for k in c.keywords}
                    newp, orig = kw.get("new_prim"), kw.get("orig_prim")
                    if newp is not None:
                        regs.append((newp, None, cn, st.lineno))
                    if newp is not None and orig is not None:
                        n_c += 1
                        _judge_forward(res, m, stem, orig, st.lineno)
                if cn == "register_reduction_batch_rule" and len(c.args) >= 2:
                    n_c += 1
                    _judge_forward(res, m, stem, c.args[1], st.lineno)
            for prim_e, rule_e, how, line in regs:
                owner = _prim_owner(prim_e)
                n_b += 1
                key = f"{m.rel}::{how}::{src(prim_e, 40)}"
                site = f"{m.rel}:{line}"
                if owner is None:
                    res.unresolved("R-C10b", site, key, f"primitive expression `{src(prim_e, 40)}` not recognised", "<module>")
                    continue
                if owner not in mod_names:
                    res.violation("R-C10b", site, key, f"`{how}` installs a transformation rule on `{src(prim_e, 40)}`, which is not a primitive of this module: it replaces the rule of another plugin's primitive", "<module>")
                    continue
                if isinstance(rule_e, ast.Name) and rule_e.id not in local_funcs and rule_e.id not in mod_names:
                    res.violation("R-C10b", site, key, f"the rule `{rule_e.id}` passed to `{how}` is not defined or imported in this module", "<module>")
                    continue
                # an impl / rule named after another function in a module that defines its own one
                if isinstance(rule_e, ast.Name) and rule_e.id.startswith("_") and stem.replace("_", "") not in rule_e.id.replace("_", "") and any(
                        f.startswith("_") and f.endswith(rule_e.id.rsplit("_", 2)[-2] + "_" + rule_e.id.rsplit("_", 1)[-1]) and stem.replace("_", "") in f.replace("_", "") for f in local_funcs if f != rule_e.id):
                    res.unresolved("R-C10b", site, key, f"`{rule_e.id}` is registered although the module also defines a rule named after `{stem}`", "<module>")
                    continue
                res.ok("R-C10b", site, key, f"{how} on this module's `{owner}`" + (f" with `{src(rule_e, 30)}`" if rule_e is not None else ""), "<module>")
    res.analysed["rule_registrations"] = n_b
    res.analysed["forwarded_rules"] = n_c


def _judge_forward(res: Results, m, stem: str, orig: ast.AST, line: int) -> None:
    d = dotted(orig) or ""
    prim = d.split(".")[-1]
    key = f"{m.rel}::forward::{prim}"
    site = f"{m.rel}:{line}"
    want = FORWARD_TABLE.get(stem)
    if want is None:
        res.unresolved("R-C10c", site, key, f"no reference primitive for `{stem}` in the checker's table", "<module>")
    elif prim in want:
        res.ok("R-C10c", site, key, f"{stem} <- {prim}", "<module>")
    else:
        res.violation("R-C10c", site, key, f"the transformation rules of `{stem}` are taken from `{d}`, but {stem} is implemented by {sorted(want)}: vmap / grad of this function follow another operation's rule", "<module>")


def run(res: Results, idx: Index, tier: str) -> None:
    res.assumptions += ["the VALUES computed by batching / JVP / transpose rules are not decided; only their wiring is",
                        "frozen tables: INLINE_TABLE (primal parameter keys per call-like primitive), FORWARD_TABLE (lax primitive per jax.numpy function)"]
    rule_a(res, idx)
    rule_bc(res, idx)
    from . import c19
    res.rule("R-C10d", "transformation rules that bind the primitive again forward every parameter (C19 R-C19e)", floor=10)
    sub = Results("C19", tier)
    setattr(sub, "_nested_xref", True)
    c19.rule_e(sub, idx)
    for inst in sub.instances:
        if inst.rule == "R-C19e":
            res.add("R-C10d", inst.status, inst.site, f"R-C19e::{inst.key}", f"[C19 R-C19e] {inst.detail}", inst.func)
    from .c10_batch import run_batch_rules, run_forwarded_param_domains, run_forwarded_rule_params, run_generic_batchers, run_param_fallbacks
    run_batch_rules(res, idx, tier)
    run_generic_batchers(res, idx, tier)
    run_param_fallbacks(res, idx)
    run_forwarded_rule_params(res, idx)
    run_forwarded_param_domains(res, idx)
    # vmap of lax.while_loop: the batched predicate is carried through the Loop and every body output is masked with Where so
    # that finished examples keep their state.  The next predicate must be evaluated on the MASKED state (C06 R-C06f): on
    # the raw body outputs a finished example is judged on body(final_state) and can be revived.
    from . import c06
    res.rule("R-C10i", "vmapped while_loop: the next predicate is evaluated on the masked (carried) state (C06 R-C06f)", floor=1)
    sub6 = Results("C06", tier)
    setattr(sub6, "_nested_xref", True)
    c06.rule_f(sub6, idx)
    for inst in sub6.instances:
        if inst.rule == "R-C06f":
            res.add("R-C10i", inst.status, inst.site, f"R-C06f::{inst.key}", f"[C06 R-C06f] {inst.detail}", inst.func)
