"""C03 — every export is a well-formed, loadable ONNX model (structural part).

R-C03a  name provenance: every value name given in lowering / optimizer code (`_outputs=[…]`,
        ir.Value(name=…)) is FRESH (from a fresh_name allocator), EXISTING (the name of a pre-allocated value),
        DERIVED from those, a PARAMETER (the obligation moves to the caller) or an INTERFACE name carrying a
        unique index; a plain LITERAL name at a site that can execute more than once per graph scope defines
        the same value twice
R-C03b  scope construction: lowering contexts are created only by the three scope constructors, and
        make_subgraph_context installs the parent-derived prefix on BOTH the context's and the builder's
        fresh_name on every path (disjoint names at any nesting depth)
R-C03c  initializer ownership: `.initializers` of a builder / graph is written only by the function-mode
        aware entry points (or under a function-mode test); optimizer passes: C02 R-C02e
R-C03d  function attach: every ir.Function collected in ctx.ir_functions is stored into the model and every
        non-default domain gets an opset import, both at attach time and in FunctionScope.to_ir_function
R-C03e  output layout agreement: where a multi-output node's outputs are declared through a locally
        assembled name list (`output_names=names`, built by append / extend sections) and the returned tuple
        is then cut into slices that are stamped with types, every slice must coincide with whole sections of
        that list (its bounds equal consecutive symbolic prefix sums) and be zipped with the collection its
        section was generated from.  A slice that is off by the optional leading section stamps the
        types of one group of outputs onto another: the declared type then contradicts the body graph
"""
from __future__ import annotations

import ast
from typing import Dict, List, Optional, Set, Tuple

from ..cfg import cfg_of
from ..flow import defuse, names_in
from ..guards import path_conditions, src
from ..index import AnalysisError, FuncInfo, Index, Module, call_name, dotted, enclosing_stmt, parents, walk_no_nested
from ..report import Results

INTERFACE_PREFIXES = ("in_", "out_", "f_in_", "f_out_", "x")
CTX_CTORS = {"IRContext"}
ALLOWED_CTX_CREATORS = {"_create_ir_context", "FunctionScope.__init__", "make_subgraph_context"}
INIT_WRITERS_OK = {"IRContext._handle_initializer_append", "IRContext.bind_const_for_var", "IRBuilder.add_initializer_from_scalar", "IRBuilder.__init__", "IRBuilder.to_ir_model",
                   "IRBuilder._to_ir_graph", "IRBuilder.add_initializer_from_array",
                   # the list facade every entry point writes through
                   "_InitializerList._add", "_InitializerList.append", "_InitializerList.extend", "_InitializerList.__setitem__", "_InitializerList.insert"}


def classify_name(e: ast.AST, fi: Optional[FuncInfo], depth: int = 0, _seen: Optional[Set[str]] = None) -> Tuple[str, str]:
    _seen = _seen or set()
    if depth > 6:
        return "UNKNOWN", "depth"
    if isinstance(e, ast.Call):
        cn = call_name(e) or ""
        last = cn.split(".")[-1]
        if last == "fresh_name" or last.endswith("fresh_name") or last in ("_fresh_name", "_unique_name", "unique_name", "_fresh_value_name"):
            return "FRESH", cn
        if cn == "getattr" and len(e.args) >= 2 and isinstance(e.args[1], ast.Constant) and e.args[1].value == "name":
            return "EXISTING", "getattr(…, 'name')"
        if cn in ("cast", "str") and e.args:
            return classify_name(e.args[-1], fi, depth + 1, _seen)
        if fi is not None and cn:
            from ..index import get_index
            g = get_index().resolve_func(fi.module, cn, cls=fi.cls, scope=fi)
            if g is not None:
                rets = [r for r in walk_no_nested(g.node) if isinstance(r, ast.Return) and r.value is not None]
                ks = {classify_name(r.value, g, depth + 1, set())[0] for r in rets}
                if ks and ks <= {"FRESH", "EXISTING", "DERIVED"}:
                    return "FRESH", f"{cn}() returns a fresh/existing name"
        return "UNKNOWN", f"result of {cn or '?'}()"
    if isinstance(e, ast.Attribute) and e.attr == "name":
        return "EXISTING", src(e)
    if isinstance(e, ast.BoolOp):
        ks = [classify_name(v, fi, depth + 1, _seen) for v in e.values]
        if isinstance(e.op, ast.Or) and ks and ks[0][0] == "EXISTING" and all(k == "LITERAL" for k, _ in ks[1:]) and depth > 0:
            # `node.name or "fallback"` inside a derived name: node names are made unique by the name-fix pass that runs first
            return "EXISTING", "existing name (literal fallback only for unnamed nodes)"
        kinds = {k for k, _ in ks} - {"EXISTING"}
        if not kinds:
            return "EXISTING", "existing name"
        if kinds <= {"FRESH", "PARAM", "DERIVED"} and "PARAM" in kinds:
            return "PARAM", "caller-supplied name or a fresh one"
        if len(kinds) == 1:
            k = kinds.pop()
            return k, next(d for kk, d in ks if kk == k)
        return ("LITERAL", "mixed") if "LITERAL" in kinds else ("UNKNOWN", "mixed")
    if isinstance(e, ast.IfExp):
        a, b = classify_name(e.body, fi, depth + 1, _seen), classify_name(e.orelse, fi, depth + 1, _seen)
        if {a[0], b[0]} <= {"FRESH", "EXISTING", "DERIVED", "PARAM"}:
            return "FRESH", "conditional of fresh/existing names"
        return a if a[0] in ("LITERAL", "UNKNOWN") else b
    if isinstance(e, ast.Constant) and isinstance(e.value, str):
        return "LITERAL", repr(e.value)
    if isinstance(e, ast.Constant) and e.value is None:
        return "EXISTING", "None (anonymous; named later)"
    if isinstance(e, ast.JoinedStr):
        subs = [classify_name(v.value, fi, depth + 1, _seen) for v in e.values if isinstance(v, ast.FormattedValue)]
        if any(k in ("FRESH", "EXISTING", "DERIVED") for k, _ in subs):
            return "DERIVED", "f-string over a fresh/existing name"
        first = e.values[0].value if e.values and isinstance(e.values[0], ast.Constant) else ""
        if subs and str(first).startswith(INTERFACE_PREFIXES):
            return "INTERFACE", f"interface pattern {src(e)}"
        if any(k == "PARAM" for k, _ in subs):
            return "PARAM", "f-string over a parameter"
        if subs and all(k == "UNKNOWN" for k, _ in subs):
            return "UNKNOWN", f"f-string {src(e)}"
        return "LITERAL", src(e)
    if isinstance(e, ast.BinOp) and isinstance(e.op, (ast.Add, ast.Mod)):
        a, b = classify_name(e.left, fi, depth + 1, _seen), classify_name(e.right, fi, depth + 1, _seen)
        if a[0] in ("FRESH", "EXISTING", "DERIVED") or b[0] in ("FRESH", "EXISTING", "DERIVED"):
            return "DERIVED", "concatenation with a fresh/existing name"
        if "PARAM" in (a[0], b[0]):
            return "PARAM", "concatenation with a parameter"
        return ("LITERAL", src(e)) if a[0] == b[0] == "LITERAL" else ("UNKNOWN", src(e))
    if isinstance(e, ast.Name):
        if e.id in _seen:
            return "UNKNOWN", f"cyclic {e.id}"
        _seen = _seen | {e.id}
        cur = fi
        while cur is not None:
            du = defuse(cur.node)
            if e.id in du.defs:
                ks = []
                for d in du.defs[e.id]:
                    if d.kind == "param":
                        ks.append(("PARAM", f"parameter {e.id}"))
                    elif d.kind in ("for", "comp") and d.value is not None:
                        ks.append(classify_name(d.value, cur, depth + 1, _seen))
                    elif d.value is not None:
                        ks.append(classify_name(d.value, cur, depth + 1, _seen))
                kinds = {k for k, _ in ks}
                if kinds <= {"FRESH", "EXISTING", "DERIVED"}:
                    return "FRESH", f"`{e.id}` holds fresh/existing names"
                for want in ("LITERAL", "UNKNOWN", "PARAM", "INTERFACE"):
                    for k, d in ks:
                        if k == want:
                            return k, d
                return ks[0] if ks else ("UNKNOWN", e.id)
            cur = cur.parent_func
        return "UNKNOWN", f"free variable {e.id}"
    if isinstance(e, ast.Subscript):
        return classify_name(e.value, fi, depth + 1, _seen)
    if isinstance(e, (ast.List, ast.Tuple)):
        ks = [classify_name(v, fi, depth + 1, _seen) for v in e.elts]
        for want in ("LITERAL", "UNKNOWN", "PARAM"):
            for k, d in ks:
                if k == want:
                    return k, d
        return ks[0] if ks else ("FRESH", "empty")
    if isinstance(e, (ast.ListComp, ast.GeneratorExp)):
        return classify_name(e.elt, fi, depth + 1, _seen)
    if isinstance(e, ast.Starred):
        return classify_name(e.value, fi, depth + 1, _seen)
    return "UNKNOWN", type(e).__name__


def _single_shot(site: ast.AST, fi: Optional[FuncInfo]) -> Optional[str]:
    """Reasons a literal name cannot be defined twice in one scope."""
    if fi is None:
        return None
    # lazy single-initialisation: `if X is None: X = <value>`
    for e, want in path_conditions(site):
        if isinstance(e, ast.Compare) and isinstance(e.ops[0], ast.Is) and isinstance(e.comparators[0], ast.Constant) and e.comparators[0].value is None and want and isinstance(e.left, ast.Name):
            du = defuse(fi.node)
            if any(d.stmt.lineno >= getattr(site, "lineno", 0) or True for d in du.defs.get(e.left.id, [])):
                return f"created once under `if {e.left.id} is None`"
    # not inside a loop and the function is only called for scope setup (name hints)
    in_loop = any(isinstance(p, (ast.For, ast.While, ast.ListComp, ast.GeneratorExp, ast.comprehension)) for p in parents(site) if p is not fi.node)
    if not in_loop and fi.name in ("__init__", "begin", "_create_ir_context", "make_subgraph_context", "to_ir_function", "to_ir_model"):
        return f"scope constructor {fi.qualname} runs once per scope"
    return None


def rule_e(res: Results, idx: Index) -> None:
    from ..layout import atoms, index_range, lin_add, lin_of, list_layout, locate_slice, prefix_sums, show
    n_sites = 0
    n_slices = 0
    IFACE_KW = {"output_names", "_outputs", "outputs", "inputs"}
    for m in idx.product_modules():
        if "/plugins/" not in m.rel:
            continue
        for fi in m.funcs.values():
            du = None
            # (sequence name accessed, layout list name, first line the accesses count from)
            targets: List[Tuple[str, str, int]] = []
            for c in walk_no_nested(fi.node):
                if isinstance(c, ast.Call):
                    kw = next((k for k in c.keywords if k.arg in ("output_names", "_outputs") and isinstance(k.value, ast.Name)), None)
                    st = enclosing_stmt(c)
                    if kw is not None and isinstance(st, ast.Assign) and len(st.targets) == 1 and isinstance(st.targets[0], ast.Name) and st.value is c:
                        targets.append((st.targets[0].id, kw.value.id, c.lineno))
                    for k in c.keywords:
                        if k.arg in IFACE_KW and isinstance(k.value, ast.Name):
                            targets.append((k.value.id, k.value.id, 0))
                elif isinstance(c, ast.Assign) and isinstance(c.value, ast.Name) and any(isinstance(t, ast.Attribute) and t.attr in ("outputs", "inputs") for t in c.targets):
                    targets.append((c.value.id, c.value.id, 0))
            seen_t = set()
            for seq, lst, from_line in targets:
                if (seq, lst) in seen_t:
                    continue
                seen_t.add((seq, lst))
                du = du or defuse(fi.node)
                secs = list_layout(fi.node, du, lst)
                if secs is None or len(secs) < 3:
                    continue
                ps = prefix_sums(secs)
                layout_atoms = set()
                for x_ in secs:
                    layout_atoms |= atoms(x_.length)
                accesses = [x for x in walk_no_nested(fi.node) if isinstance(x, ast.Subscript) and isinstance(x.value, ast.Name) and x.value.id == seq and x.lineno > from_line]
                if not accesses:
                    continue
                n_sites += 1
                bounds = ", ".join(show(p_) for p_ in ps)
                for sl in accesses:
                    site = f"{m.rel}:{sl.lineno}"
                    if isinstance(sl.slice, ast.Slice):
                        if sl.slice.step is not None:
                            continue
                        n_slices += 1
                        lo = lin_of(sl.slice.lower, du)
                        hi = lin_of(sl.slice.upper, du) if sl.slice.upper is not None else ps[-1]
                        key = f"{m.rel}::{fi.qualname}::{seq}[{src(sl.slice.lower) if sl.slice.lower is not None else ''}:{src(sl.slice.upper) if sl.slice.upper is not None else ''}]"
                        if lo is None or hi is None:
                            res.unresolved("R-C03e", site, key, "slice bounds are not linear in section lengths", fi.qualname)
                            continue
                        loc = locate_slice(secs, lo, hi)
                        if loc is None:
                            if not (atoms(lo) | atoms(hi)) <= layout_atoms:
                                res.unresolved("R-C03e", site, key, f"slice [{show(lo)} : {show(hi)}] uses quantities the layout of `{lst}` is not expressed in ({bounds})", fi.qualname)
                            else:
                                res.violation("R-C03e", site, key, f"slice [{show(lo)} : {show(hi)}] of `{seq}` does not coincide with sections of `{lst}` (section boundaries: {bounds}): the values taken from it belong to a different group of the node's / body's values", fi.qualname)
                            continue
                        a, b = loc
                        covered = [x for x in secs[a:b] if x.length]
                        tgt = None
                        pst = enclosing_stmt(sl)
                        if isinstance(pst, ast.Assign) and len(pst.targets) == 1 and isinstance(pst.targets[0], ast.Name) and pst.value is sl:
                            tgt = pst.targets[0].id
                        partners = []
                        for z in walk_no_nested(fi.node):
                            if isinstance(z, ast.Call) and (call_name(z) or "") == "zip" and len(z.args) == 2:
                                for i in (0, 1):
                                    if (isinstance(z.args[i], ast.Name) and z.args[i].id == tgt) or z.args[i] is sl:
                                        d = dotted(z.args[1 - i])
                                        if d:
                                            partners.append(d)
                        srcs = [x.source for x in covered]
                        bad = [p_ for p_ in partners if srcs and (len(srcs) != 1 or (not srcs[0].startswith("<") and "[" not in srcs[0] and "(" not in srcs[0] and p_ != srcs[0]))]
                        if bad:
                            res.violation("R-C03e", site, key, f"the slice covers the values declared for {srcs} but is zipped item by item with `{bad[0]}`", fi.qualname)
                        else:
                            res.ok("R-C03e", site, key, f"covers section(s) {srcs}" + (f", zipped with {sorted(set(partners))}" if partners else ""), fi.qualname)
                    else:
                        r = index_range(sl, du, fi.node)
                        key = f"{m.rel}::{fi.qualname}::{seq}[{src(sl.slice, 50)}]"
                        if r is None:
                            continue  # not an offset + loop-index access
                        n_slices += 1
                        lo, trip, loop_txt = r
                        ks = [i for i, p_ in enumerate(ps) if p_ == lo]
                        if not ks:
                            if not atoms(lo) <= layout_atoms:
                                res.unresolved("R-C03e", site, key, f"offset {show(lo)} uses quantities the layout of `{lst}` is not expressed in ({bounds})", fi.qualname)
                            else:
                                res.violation("R-C03e", site, key, f"`{seq}[{src(sl.slice, 40)}]` starts at {show(lo)}, which is not a section boundary of `{lst}` ({bounds}): it addresses values of a different group", fi.qualname)
                            continue
                        if trip is None or not atoms(trip) <= layout_atoms:
                            res.ok("R-C03e", site, key, f"starts at the boundary of section {secs[min(ks)].source if min(ks) < len(secs) else 'end'}; extent of `{loop_txt}` not comparable", fi.qualname)
                            continue
                        hi = lin_add(lo, trip)
                        ke = [i for i, p_ in enumerate(ps) if p_ == hi]
                        if ke and max(ke) >= min(ks):
                            res.ok("R-C03e", site, key, f"covers section(s) {[x.source for x in secs[min(ks):max(ke)] if x.length]}", fi.qualname)
                        else:
                            res.violation("R-C03e", site, key, f"`{seq}[{src(sl.slice, 40)}]` over `{loop_txt}` covers [{show(lo)} : {show(hi)}], which does not end at a section boundary of `{lst}` ({bounds})", fi.qualname)
    # Loop contract: the node's loop-carried inputs (after trip count and condition) and its declared outputs are
    # the same sequence of groups: where both lists are assembled locally, their sections must agree pairwise
    n_pairs = 0
    for m in idx.product_modules():
        if "/plugins/" not in m.rel:
            continue
        for fi in m.funcs.values():
            for c in walk_no_nested(fi.node):
                if not (isinstance(c, ast.Call) and (call_name(c) or "").split(".")[-1] in ("builder_loop", "Loop")):
                    continue
                star = next((a.value.id for a in c.args if isinstance(a, ast.Starred) and isinstance(a.value, ast.Name)), None)
                outs = next((k.value.id for k in c.keywords if k.arg in ("output_names", "_outputs") and isinstance(k.value, ast.Name)), None)
                if not star or not outs:
                    continue
                du = defuse(fi.node)
                a, b = list_layout(fi.node, du, star), list_layout(fi.node, du, outs)
                if not a or not b or len(a) < 3:
                    continue
                a = a[2:]  # trip count, condition
                n_pairs += 1
                key = f"{m.rel}::{fi.qualname}::carried-layout::{star}~{outs}"
                site = f"{m.rel}:{c.lineno}"
                common = set()
                for x_ in a:
                    common |= atoms(x_.length)
                bad = None
                for i, (x_, y_) in enumerate(zip(a, b)):
                    if x_.length == y_.length:
                        continue
                    if atoms(y_.length) <= common and atoms(x_.length) <= {k for z in b for k in atoms(z.length)}:
                        bad = (i, x_, y_)
                        break
                if bad:
                    i, x_, y_ = bad
                    res.violation("R-C03e", site, key, f"group {i} of the Loop's carried inputs `{star}` has {show(x_.length)} values ({x_.source}) but group {i} of its declared outputs `{outs}` has {show(y_.length)} ({y_.source}): the loop-carried positions no longer line up", fi.qualname)
                else:
                    res.ok("R-C03e", site, key, f"carried inputs and declared outputs have the same groups in the same order ({', '.join(x_.source for x_ in a)})", fi.qualname)
    res.analysed["loop_carried_layout_pairs"] = n_pairs
    res.analysed["sliced_output_layout_sites"] = n_sites
    res.analysed["output_slices"] = n_slices
    # positive control
    import textwrap
    from ..index import Module as Mod
    from ..flow import DefUse
    cm = Mod("<control>", "<control>", "control_c03e", textwrap.dedent("""
        def lower(ctx, flag, a, b):
            names = []
            if flag:
                names.append(ctx.fresh_name("p"))
            names.extend(ctx.fresh_name("a") for _ in a)
            names.extend(ctx.fresh_name("b") for _ in b)
            outs = loop(ctx, output_names=names)
            off = int(flag)
            good = outs[off : off + len(a)]
            bad = outs[: len(a)]
            rest = outs[off + len(a) :]
    """))
    f = cm.funcs["lower"]
    du = DefUse(f.node)
    secs = list_layout(f.node, du, "names")
    got = []
    if secs:
        ps = prefix_sums(secs)
        for x in ast.walk(f.node):
            if isinstance(x, ast.Subscript) and isinstance(x.slice, ast.Slice):
                lo = lin_of(x.slice.lower, du)
                hi = lin_of(x.slice.upper, du) if x.slice.upper is not None else ps[-1]
                got.append(locate_slice(secs, lo, hi))
    res.control("R-C03e", "slices aligned with the flag-dependent leading section are located, the one ignoring it is not", got == [(1, 2), None, (2, 3)], str(got))


def run(res: Results, idx: Index, tier: str) -> None:
    rule_f(res, idx)
    rule_g(res, idx)
    rule_h(res, idx)
    rule_i(res, idx)
    res.rule("R-C03e", "slices and offset+index accesses into a node's result tuple / a body graph's interface list coincide with the sections the list was assembled from", floor=15)
    rule_e(res, idx)
    res.rule("R-C03a", "value names are fresh / existing / derived / interface; a literal name must be single-shot per scope", floor=1500)
    res.rule("R-C03b", "contexts are created by the scope constructors only; nested scopes prefix both name allocators", floor=3)
    res.rule("R-C03c", "initializer lists are written only through the function-mode aware entry points", floor=3)
    res.rule("R-C03d", "collected ONNX functions are attached and every function domain gets an opset import", floor=3)
    res.assumptions += ["onnx.checker / strict shape inference / ORT load results, def-before-use of every value and call-node arity are not decided"]
    n_sites = 0
    helper_literal: Dict[int, Tuple[str, str]] = {}
    for m in idx.product_modules():
        if m.rel.endswith(("_post_check_onnx_graph.py", "test_utils.py")) or ".plugins.examples" in m.name or ".sandbox" in m.name:
            continue
        for n in ast.walk(m.tree):
            if not isinstance(n, ast.Call):
                continue
            fi = m.func_containing(n)
            exprs: List[Tuple[str, ast.AST]] = []
            cn = call_name(n) or ""
            for k in n.keywords:
                if k.arg == "_outputs":
                    if isinstance(k.value, (ast.List, ast.Tuple)):
                        exprs += [("_outputs", el) for el in k.value.elts]
                    else:
                        exprs.append(("_outputs", k.value))
                if k.arg == "name" and cn in ("ir.Value", "ir.val"):
                    exprs.append(("ir.Value(name=)", k.value))
            if cn == "ir.val" and n.args:
                exprs.append(("ir.val(name)", n.args[0]))
            for what, e in exprs:
                n_sites += 1
                kind, detail = classify_name(e, fi)
                fn = fi.qualname if fi else "<module>"
                key = f"{m.rel}::{fn}::{what}::{src(e, 40)}"
                site = f"{m.rel}:{e.lineno}"
                if kind in ("FRESH", "EXISTING", "DERIVED", "INTERFACE"):
                    res.ok("R-C03a", site, key, f"{kind}: {detail}", fn)
                elif kind == "PARAM":
                    res.ok("R-C03a", site, key, f"PARAM: {detail} (callers supply the name)", fn)
                elif kind == "LITERAL":
                    why = _single_shot(n, fi)
                    if why is None and fi is not None and fi.parent_func is None and not any(isinstance(p, (ast.For, ast.While)) for p in parents(n) if p is not fi.node):
                        # a helper returning a value with a literal name: single-shot if every call site is
                        from ..callgraph import get_callgraph
                        cs = get_callgraph(idx).callers_of(fi)
                        if cs and all(_single_shot(c.call, c.caller) for c in cs):
                            why = f"helper {fi.qualname}() is only called from single-shot sites"
                    if why:
                        res.ok("R-C03a", site, key, f"LITERAL {detail}, but {why}", fn)
                    else:
                        res.violation("R-C03a", site, key, f"value name {detail} is a plain literal at a site that can run more than once per graph scope: the second value redefines the first (duplicate SSA name)", fn)
                else:
                    res.unresolved("R-C03a", site, key, f"name provenance not resolved ({detail})", fn)
    res.analysed["name_sites"] = n_sites

    # ---- R-C03b
    for m in idx.product_modules():
        for n in ast.walk(m.tree):
            if isinstance(n, ast.Call) and (call_name(n) or "").split(".")[-1] in CTX_CTORS and not (m.rel.endswith("ir_context.py") and m.func_containing(n) is None):
                fi = m.func_containing(n)
                fn = fi.qualname if fi else "<module>"
                key = f"{m.rel}::{fn}::creates-context"
                if fn in ALLOWED_CTX_CREATORS or fn.split(".")[-1] in {a.split(".")[-1] for a in ALLOWED_CTX_CREATORS}:
                    res.ok("R-C03b", f"{m.rel}:{n.lineno}", key, "scope constructor", fn)
                else:
                    res.violation("R-C03b", f"{m.rel}:{n.lineno}", key, f"{fn}() creates a lowering context outside the scope constructors: its name counters restart without a scope prefix", fn)
    ms = idx.func("jax2onnx/plugins/jax/lax/_control_flow_utils.py", "make_subgraph_context")
    g = cfg_of(ms.node)
    sets = [c for c in walk_no_nested(ms.node) if isinstance(c, ast.Call) and (call_name(c) or "") == "setattr" and len(c.args) >= 2 and isinstance(c.args[1], ast.Constant) and c.args[1].value == "fresh_name"]
    sets += [a for a in walk_no_nested(ms.node) if isinstance(a, ast.Assign) and any(isinstance(t, ast.Attribute) and t.attr == "fresh_name" for t in a.targets)]
    du = defuse(ms.node)
    targets = set()
    prefixed = 0
    for c in sets:
        tgt = c.args[0] if isinstance(c, ast.Call) else [t.value for t in c.targets if isinstance(t, ast.Attribute)][0]
        nm = dotted(tgt) or ""
        targets.add("builder" if "builder" in nm.lower() else "ctx")
        val = c.args[2] if isinstance(c, ast.Call) and len(c.args) > 2 else (c.value if isinstance(c, ast.Assign) else None)
        if val is not None and any(isinstance(x, ast.Call) and (call_name(x) or "").endswith("fresh_name") for nm2 in du.closure(names_in(val)) for v in du.values(nm2) for x in ast.walk(v)):
            prefixed += 1
    key = "jax2onnx/plugins/jax/lax/_control_flow_utils.py::make_subgraph_context::prefix-both-allocators"
    rets = [n for n in g.return_nodes()]
    every_path = all(g.must_pass_nodes([g.EXIT], g.nodes_of(enclosing_stmt(c))) for c in sets) if sets else False
    if targets == {"builder", "ctx"} and prefixed == len(sets) and every_path:
        res.ok("R-C03b", f"{ms.module.rel}:{ms.node.lineno}", key, "ctx.fresh_name and builder.fresh_name are both wrapped with a prefix allocated from the parent, on every path", ms.qualname)
    else:
        res.violation("R-C03b", f"{ms.module.rel}:{ms.node.lineno}", key, f"nested graphs do not prefix both name allocators with a parent-derived prefix (wrapped: {sorted(targets)}, parent-derived: {prefixed}/{len(sets)}, on every path: {every_path}): Loop/If body names can collide with the enclosing scope", ms.qualname)

    # ---- R-C03c
    for m in idx.product_modules():
        if m.rel.endswith(("_post_check_onnx_graph.py", "ir_optimizations.py", "test_utils.py")) or ".plugins.examples" in m.name or ".sandbox" in m.name:
            continue
        for n in ast.walk(m.tree):
            w = None
            if isinstance(n, ast.Call) and isinstance(n.func, ast.Attribute) and n.func.attr in ("append", "add", "extend", "insert", "__setitem__") and isinstance(n.func.value, ast.Attribute) and n.func.value.attr == "initializers":
                w = n
            elif isinstance(n, ast.Assign) and any(isinstance(t, ast.Subscript) and isinstance(t.value, ast.Attribute) and t.value.attr == "initializers" for t in n.targets):
                w = n
            if w is None:
                continue
            fi = m.func_containing(w)
            fn = fi.qualname if fi else "<module>"
            key = f"{m.rel}::{fn}::writes-initializers"
            site = f"{m.rel}:{w.lineno}"
            if fn in INIT_WRITERS_OK:
                res.ok("R-C03c", site, key, "function-mode aware entry point", fn)
                continue
            conds = path_conditions(w)
            if any("function_mode" in ast.unparse(e) or "_function_mode" in ast.unparse(e) for e, _ in conds):
                res.ok("R-C03c", site, key, "under a function-mode test", fn)
            elif m.rel == "jax2onnx/user_interface.py":
                res.ok("R-C03c", site, key, "post-conversion materialisation on the top graph", fn)
            else:
                res.violation("R-C03c", site, key, f"`{src(w, 60)}` writes an initializer list directly, bypassing the function-mode aware entry points: inside a function / Loop / If body the value would be an initializer the scope cannot own", fn)

    # ---- R-C03d
    CA = "jax2onnx/converter/conversion_api.py"
    at = idx.func(CA, "_attach_ir_functions")
    key = f"{CA}::_attach_ir_functions::stores-every-function"
    loops = [n for n in walk_no_nested(at.node) if isinstance(n, ast.For)]
    stores = [a for lp in loops for a in ast.walk(lp) if isinstance(a, ast.Assign) and any(isinstance(t, ast.Subscript) for t in a.targets) and isinstance(lp.target, ast.Name) and lp.target.id in names_in(a.value)]
    if stores:
        res.ok("R-C03d", f"{CA}:{stores[0].lineno}", key, "every collected function is stored into model.functions", at.qualname)
    else:
        res.violation("R-C03d", f"{CA}:{at.node.lineno}", key, "collected functions are not all stored into the model: call nodes would reference undefined functions", at.qualname)
    key = f"{CA}::_attach_ir_functions::domain-imports"
    txt = ast.unparse(at.node)
    if "opset_imports" in txt and ("domain" in txt) and any(isinstance(n, ast.For) for n in walk_no_nested(at.node)):
        res.ok("R-C03d", f"{CA}:{at.node.lineno}", key, "function domains are added to the model's opset imports", at.qualname)
    else:
        res.violation("R-C03d", f"{CA}:{at.node.lineno}", key, "function domains are not registered in the model's opset imports", at.qualname)
    # the call site: the attach dominates model delivery
    callers = [c for mm in idx.product_modules() for c in ast.walk(mm.tree) if isinstance(c, ast.Call) and (call_name(c) or "") == "_attach_ir_functions"]
    key = f"{CA}::_attach_ir_functions::called"
    res.add("R-C03d", "OK" if callers else "VIOLATION", f"{CA}:{(callers[0].lineno if callers else at.node.lineno)}", key, "called during model finalisation" if callers else "_attach_ir_functions is never called", at.qualname)
    tf = idx.func("jax2onnx/converter/function_scope.py", "FunctionScope.to_ir_function")
    key = "jax2onnx/converter/function_scope.py::FunctionScope.to_ir_function::opset-imports"
    txt = ast.unparse(tf.node)
    if "opset_imports" in txt and "domain" in txt:
        res.ok("R-C03d", f"{tf.module.rel}:{tf.node.lineno}", key, "the function body's graph imports its own domain and the default opset", tf.qualname)
    else:
        res.violation("R-C03d", f"{tf.module.rel}:{tf.node.lineno}", key, "to_ir_function no longer sets opset imports on the function body", tf.qualname)


# ---------------------------------------------------------------------------------------------- R-C03f
VALUE_TABLES_EXTRA = {"compute_cache": "LowerDimExpr memo: dimension expression -> ir.Value emitted in the scope"}


def rule_f(res: Results, idx: Index) -> None:
    """Per-scope tables that map something to an ir.Value of the scope (symbolic-dim origins) are written on every
    binding.  A nested Loop / If body context that *shares* such a table with its parent (alias instead of copy) leaks
    body-local values into the enclosing scope: a later outer node then reads a value that only exists inside the body."""
    res.rule("R-C03f", "nested contexts receive copies, never aliases, of the parent's value-bearing scope tables", floor=2)
    CTX = "jax2onnx/converter/ir_context.py"
    m = idx.module(CTX)
    cls = m.classes.get("IRContext")
    if cls is None:
        raise AnalysisError("IRContext not found")
    tables: Set[str] = set()
    for fi in cls.methods.values():
        du = defuse(fi.node)
        for st in walk_no_nested(fi.node):
            if isinstance(st, ast.Assign):
                for t in st.targets:
                    if isinstance(t, ast.Subscript) and isinstance(t.value, ast.Attribute) and isinstance(t.value.value, ast.Name) and t.value.value.id == "self":
                        vals = [st.value] + [v for nm in du.closure(names_in(st.value)) for v in du.values(nm)]
                        if any(isinstance(x, ast.Call) and (call_name(x) or "").split(".")[-1] == "SymbolicDimOrigin" for v in vals for x in ast.walk(v)):
                            tables.add(t.value.attr)
    if not tables:
        raise AnalysisError("no value-bearing scope table (self.<table>[k] = SymbolicDimOrigin(...)) found in IRContext")
    # memo tables of per-context helper objects whose entries are ir.Values of the scope (confirmed by reading)
    tables |= VALUE_TABLES_EXTRA.keys()
    res.analysed["value_bearing_scope_tables"] = sorted(tables)
    n = 0
    for mod in idx.product_modules():
        for fi in mod.funcs.values():
            if fi.cls is cls:
                continue
            for st in walk_no_nested(fi.node):
                if not isinstance(st, ast.Assign):
                    continue
                for t in st.targets:
                    if not (isinstance(t, ast.Attribute) and t.attr in tables):
                        continue
                    v = st.value
                    from_other = any((isinstance(x, ast.Attribute) and x.attr == t.attr) or (isinstance(x, ast.Constant) and x.value == t.attr) for x in ast.walk(v))
                    if not from_other:
                        continue
                    n += 1
                    key = f"{mod.rel}::{fi.qualname}::{t.attr}"
                    site = f"{mod.rel}:{st.lineno}"
                    copied = (isinstance(v, ast.Call) and ((call_name(v) or "") in ("dict", "copy.copy", "copy.deepcopy") or (isinstance(v.func, ast.Attribute) and v.func.attr == "copy"))) \
                        or isinstance(v, ast.DictComp) or (isinstance(v, ast.Dict) and any(k is None for k in v.keys))
                    if mod.rel.endswith("function_scope.py"):
                        # a FunctionProto cannot capture outer-scope values at all: not even a copy may be handed over
                        res.violation("R-C03f", site, key, f"`{src(st, 80)}` gives the function-body context the parent's `{t.attr}` entries: they point at values of the enclosing graph, and an ONNX function cannot read "
                                      "outer-scope values — a body that needs such a symbol must fail ('no origin registered') instead of emitting Shape(<parent value>) inside the function", fi.qualname)
                    elif copied:
                        res.ok("R-C03f", site, key, f"`{src(v, 50)}` copies the parent's table", fi.qualname)
                    else:
                        res.violation("R-C03f", site, key, f"`{src(st, 80)}` makes the nested context share the parent's `{t.attr}` table: every binding inside the body overwrites the enclosing scope's entries with body-local values, which outer nodes then reference", fi.qualname)
    res.analysed["scope_table_handovers"] = n


# ---------------------------------------------------------------------------------------------- R-C03g (shared with C09 / C11)
def inherited_settings(idx: Index):
    """(site, key, status, detail, func, setting) for every `getattr(parent_ctx[.builder], "<attr>", default)` in the
    scope constructors: the attribute must exist on IRContext / IRBuilder, otherwise the default is what every nested
    scope gets (a Loop / If body lowered for another opset or precision than the model declares)."""
    CTX, BLD = "jax2onnx/converter/ir_context.py", "jax2onnx/converter/ir_builder.py"

    def attrs_of(rel: str, cname: str) -> Set[str]:
        m = idx.module(rel)
        c = m.classes.get(cname)
        if c is None:
            raise AnalysisError(f"{cname} not found in {rel}")
        out: Set[str] = set()
        for k in idx.class_mro(c):
            for st in k.node.body:
                if isinstance(st, (ast.Assign, ast.AnnAssign)):
                    for t in (st.targets if isinstance(st, ast.Assign) else [st.target]):
                        if isinstance(t, ast.Name):
                            out.add(t.id)
                if isinstance(st, (ast.FunctionDef, ast.AsyncFunctionDef)):
                    out.add(st.name)
            for f in k.methods.values():
                for x in ast.walk(f.node):
                    if isinstance(x, ast.Attribute) and isinstance(x.ctx, ast.Store) and isinstance(x.value, ast.Name) and x.value.id == "self":
                        out.add(x.attr)
        return out
    ctx_attrs, bld_attrs = attrs_of(CTX, "IRContext"), attrs_of(BLD, "IRBuilder")
    out = []
    for rel, fn in (("jax2onnx/plugins/jax/lax/_control_flow_utils.py", "make_subgraph_context"), ("jax2onnx/converter/function_scope.py", "FunctionScope.__init__")):
        f = idx.find_func(rel, fn)
        if f is None:
            continue
        for c in walk_no_nested(f.node):
            if not (isinstance(c, ast.Call) and (call_name(c) or "") == "getattr" and len(c.args) == 3 and isinstance(c.args[1], ast.Constant) and isinstance(c.args[1].value, str)):
                continue
            obj = dotted(c.args[0]) or ""
            attr = c.args[1].value
            if not obj.split(".")[0].startswith(("parent", "ctx", "outer")):
                continue
            on_builder = obj.endswith(".builder")
            pool = bld_attrs if on_builder else ctx_attrs
            key = f"{rel}::{fn}::inherits::{obj}.{attr}"
            site = f"{rel}:{c.lineno}"
            if attr in pool:
                out.append((site, key, "OK", f"`{obj}.{attr}` exists on {'IRBuilder' if on_builder else 'IRContext'}", f.qualname, attr))
            elif attr.startswith("_") and not on_builder:
                out.append((site, key, "OK", f"optional private marker `{attr}` (set by plugins at run time)", f.qualname, attr))
            else:
                out.append((site, key, "VIOLATION", f"`{src(c, 70)}`: neither IRContext nor its bases define `{attr}`{' on the builder' if on_builder else ''}, so every nested scope silently gets the default {src(c.args[2], 20)} instead of the parent's setting", f.qualname, attr))
    # the converter facade handed to function lowerings: SimpleNamespace(<keywords>) built by make_converter_facade — a setting
    # read from it with a default (`getattr(converter, "enable_double_precision", False)`) must name one of those keywords
    LD_ = "jax2onnx/converter/lowering_dispatch.py"
    mf = idx.find_func(LD_, "make_converter_facade")
    facade: Set[str] = set()
    if mf is not None:
        for c in ast.walk(mf.node):
            if isinstance(c, ast.Call) and (call_name(c) or "").endswith("SimpleNamespace"):
                facade |= {k.arg for k in c.keywords if k.arg}
    if facade:
        for m in idx.product_modules():
            if "converter" not in m.src:
                continue
            for f in m.funcs.values():
                a_ = f.node.args  # type: ignore[attr-defined]
                if "converter" not in [x.arg for x in a_.posonlyargs + a_.args + a_.kwonlyargs]:
                    continue
                for c in ast.walk(f.node):
                    if not (isinstance(c, ast.Call) and (call_name(c) or "") == "getattr" and len(c.args) == 3 and isinstance(c.args[1], ast.Constant) and isinstance(c.args[1].value, str)):
                        continue
                    obj = dotted(c.args[0]) or ""
                    if obj.split(".")[0] != "converter":
                        continue
                    attr = c.args[1].value
                    pool = facade if obj == "converter" else (bld_attrs if obj.endswith(".builder") else ctx_attrs if obj.endswith(".ctx") else None)
                    if pool is None:
                        continue
                    key = f"{m.rel}::{f.qualname}::inherits::{obj}.{attr}"
                    site = f"{m.rel}:{c.lineno}"
                    if attr in pool:
                        out.append((site, key, "OK", f"`{obj}.{attr}` exists", f.qualname, attr))
                    else:
                        out.append((site, key, "VIOLATION", f"`{src(c, 70)}`: the converter facade is SimpleNamespace({', '.join(sorted(facade))}) and has no `{attr}`, so the default {src(c.args[2], 20)} is used "
                                    "whatever the export's setting is", f.qualname, attr))
    return out


def rule_g(res: Results, idx: Index) -> None:
    res.rule("R-C03g", "settings a nested scope inherits with getattr(parent, name, default) name attributes that exist", floor=4)
    for site, key, status, detail, func, _ in inherited_settings(idx):
        res.add("R-C03g", status, site, key, detail, func)


# ---------------------------------------------------------------------------------------------- R-C03h
def rule_h(res: Results, idx: Index) -> None:
    """An ONNX function whose output is one of its own inputs (callee returns an argument unchanged: a body without a
    producing node) passes the checker but ONNX Runtime refuses to load the model.  Between collecting the body's output
    values and sealing the scope, outputs that are function inputs have to be routed through a node (Identity)."""
    res.rule("R-C03h", "function outputs that alias a function input are routed through a node before the scope is sealed", floor=1)
    PSF = "jax2onnx/plugins/plugin_system.py"
    f = idx.find_func(PSF, "FunctionPlugin._lower_and_call")
    if f is None:
        raise AnalysisError("FunctionPlugin._lower_and_call not found")
    du = defuse(f.node)
    ends = [c for c in walk_no_nested(f.node) if isinstance(c, ast.Call) and isinstance(c.func, ast.Attribute) and c.func.attr == "end" and any(k.arg == "outputs" for k in c.keywords)]
    begins = [d for ds in du.defs.values() for d in ds if d.value is not None and isinstance(d.value, ast.Call) and isinstance(d.value.func, ast.Attribute) and d.value.func.attr == "begin"]
    key = f"{PSF}::FunctionPlugin._lower_and_call::output-aliases-input"
    if not ends or not begins:
        raise AnalysisError("_lower_and_call: fscope.begin(...) / fscope.end(outputs=...) not found")
    out_name = next((k.value.id for k in ends[0].keywords if k.arg == "outputs" and isinstance(k.value, ast.Name)), None)
    in_names = {d.name for d in begins}
    fixes = []
    for lp in walk_no_nested(f.node):
        if isinstance(lp, ast.For) and out_name and out_name in names_in(lp.iter) and lp.lineno < ends[0].lineno:
            emits = [x for st in lp.body for x in ast.walk(st) if isinstance(x, ast.Call) and isinstance(x.func, ast.Attribute) and x.func.attr == "Identity"]
            tests = [x for st in lp.body for x in ast.walk(st) if isinstance(x, ast.If)]
            cl = set()
            for t in tests:
                cl |= du.closure(names_in(t.test)) | names_in(t.test)
            stores = [x for st in lp.body for x in ast.walk(st) if isinstance(x, ast.Assign) and any(isinstance(t, ast.Subscript) and isinstance(t.value, ast.Name) and t.value.id == out_name for t in x.targets)]
            g = cfg_of(f.node)
            live = g.live_nodes()
            reach = [s for s in stores if any(n in live for n in g.nodes_of(s))]
            if emits and reach and (cl & in_names):
                fixes.append(lp)
    if fixes:
        res.ok("R-C03h", f"{PSF}:{fixes[0].lineno}", key, f"outputs in `{out_name}` that are function inputs ({sorted(in_names)}) are replaced by an Identity of them before fscope.end()", f.qualname)
    else:
        res.violation("R-C03h", f"{PSF}:{ends[0].lineno}", key, f"`{src(ends[0], 50)}` seals the function with the body's output values as they are: when the callee returns an argument unchanged the function output is the function input itself (no node in the body), which ONNX Runtime rejects at load time", f.qualname)


# ---------------------------------------------------------------------------------------------- R-C03i
def rule_i(res: Results, idx: Index) -> None:
    """R-C03h holds when the function is built; the optimizer then runs its folds on every function body with
    `replace_graph_outputs=True` (required by C02 R-C02a).  An inverse Reshape / Transpose / Cast pair that spans a whole body
    leaves the function with output == input (or one value at two output positions), which ONNX Runtime refuses to load.  In
    `optimize_graph`, the loop over the function bodies has to end — for every function — in a step that walks the body's
    outputs, tests them against its inputs / earlier outputs and routes the offenders through an Identity node."""
    res.rule("R-C03i", "after the optimizer has run on a function body, outputs that are inputs (or repeated) are given a producing node", floor=1)
    OPTF = "jax2onnx/converter/ir_optimizations.py"
    f = idx.find_func(OPTF, "optimize_graph")
    if f is None:
        raise AnalysisError("optimize_graph not found")
    key = f"{OPTF}::optimize_graph::function-outputs-have-producers"
    loops = [lp for lp in walk_no_nested(f.node) if isinstance(lp, ast.For) and "function" in src(lp.iter, 80).lower()]
    if not loops:
        res.unresolved("R-C03i", f.site, key, "the loop over the function bodies was not found", f.qualname)
        return
    lp = loops[0]
    mod = idx.module(OPTF)
    ok = None
    protected = False
    for st in lp.body:                       # statements of the loop body itself: executed for every function
        for c in ast.walk(st) if not isinstance(st, (ast.For, ast.While)) else []:
            if not isinstance(c, ast.Call):
                continue
            g = idx.resolve_func(mod, call_name(c) or "", scope=f)
            if g is None:
                continue
            txt_nodes = list(ast.walk(g.node))
            reads_outputs = any(isinstance(x, ast.Attribute) and x.attr == "outputs" for x in txt_nodes)
            reads_inputs = any(isinstance(x, ast.Attribute) and x.attr == "inputs" for x in txt_nodes)
            makes_identity = any(isinstance(x, ast.Constant) and x.value == "Identity" for x in txt_nodes) or any(isinstance(x, ast.Attribute) and x.attr == "Identity" for x in txt_nodes)
            writes_output = any(isinstance(x, ast.Assign) and any(isinstance(t, ast.Subscript) and isinstance(t.value, ast.Attribute) and t.value.attr == "outputs" for t in x.targets) for x in txt_nodes)
            if reads_outputs and reads_inputs and makes_identity and writes_output:
                ok = (c, g)
                # the passes can raise and the default policy keeps the graph: the repair has to sit in the `finally:` of the try
                # that runs the passes
                protected = isinstance(st, ast.Try) and any(c in list(ast.walk(fb)) for fb in st.finalbody) and any(isinstance(x, (ast.For, ast.While)) for b in st.body for x in ast.walk(b))
    if ok is not None and not protected:
        res.violation("R-C03i", f"{OPTF}:{ok[0].lineno}", key, f"{ok[1].name}() repairs function outputs only after ALL passes of the body succeeded: when a pass raises, the default (non-strict) policy returns the "
                      "half-optimized model, whose folded function body has output == input (does not load in ONNX Runtime); the repair belongs in the `finally:` of the try that runs the passes", f.qualname)
    elif ok is not None:
        res.ok("R-C03i", f"{OPTF}:{ok[0].lineno}", key, f"{ok[1].name}() runs for every function body — in the finally of the try that runs its passes — : outputs that are inputs / repeated get an Identity", f.qualname)
    else:
        res.violation("R-C03i", f"{OPTF}:{lp.lineno}", key, "the folds re-route function outputs (`replace_graph_outputs=True`) and nothing afterwards gives an output that has become a function input a producing node: "
                      "`x.reshape(1, 3).reshape(3)` as a whole @onnx_function body leaves a function without nodes whose output is its input — ONNX Runtime refuses to load the model", f.qualname)
