"""C05 — the model interface mirrors the callable's signature (structural part).

R-C05a  writer/reader agreement on positional-input names: every name pattern the converter writes for a
        positional graph input (f"in_{i}", f"in_{i}_nchw") is accepted by every reader that decides keeping
        or mapping positional inputs (prune pass `_should_always_keep`, `_POSITIONAL_INPUT_NAME_RE`)
R-C05b  graph inputs are only ever removed by the prune pass, which is registered for the top graph only,
        keeps the original order, and consults the always-keep rule first
R-C05c  naming checks dominate renaming: length, one-value-two-names, uniqueness and collision checks
        raise before rename_values; input_params collision checks raise before the converter is called
"""
from __future__ import annotations

import ast
import re
from typing import Dict, List, Optional, Set, Tuple

from ..cfg import cfg_of
from ..flow import defuse, names_in
from ..guards import path_conditions, rejects, src
from ..index import AnalysisError, FuncInfo, Index, Module, call_name, dotted, enclosing_stmt, fold_const, is_const, parents, walk_no_nested
from ..optflow import registered_passes
from ..report import Results
from ..symeval import EvalRaise, Evaluator, Unsupported

OPT = "jax2onnx/converter/ir_optimizations.py"
UI = "jax2onnx/user_interface.py"
SCOPE = ("jax2onnx/converter/", "jax2onnx/user_interface.py", "jax2onnx/ir_utils.py")


def positional_name_writers(idx: Index) -> List[Tuple[Module, ast.JoinedStr, List[str]]]:
    """f-strings `in_{…}…` used as the name of an ir.Value in the converter."""
    out = []
    for m in idx.product_modules():
        if not m.rel.startswith("jax2onnx/converter/"):
            continue
        for n in ast.walk(m.tree):
            if isinstance(n, ast.Call) and (call_name(n) or "") in ("ir.Value", "ir.val"):
                for k in n.keywords:
                    if k.arg == "name" and isinstance(k.value, ast.JoinedStr):
                        js = k.value
                        if js.values and isinstance(js.values[0], ast.Constant) and str(js.values[0].value).startswith("in_"):
                            samples = []
                            for fill in ("0", "7", "12"):
                                s = ""
                                for v in js.values:
                                    s += str(v.value) if isinstance(v, ast.Constant) else fill
                                samples.append(s)
                            out.append((m, js, samples))
    return out


def run(res: Results, idx: Index, tier: str) -> None:
    res.rule("R-C05a", "every positional-input name pattern written by the converter is accepted by every keep/map reader", floor=4)
    res.rule("R-C05b", "only the top-graph prune pass removes graph inputs; it keeps order and honours the always-keep rule", floor=3)
    res.rule("R-C05c", "name validation raises before renaming / before the converter runs", floor=5)
    res.assumptions += ["declared element types / shapes vs jax.eval_shape and output ordering for pytrees are not decided"]
    writers = positional_name_writers(idx)
    res.analysed["positional_name_writers"] = [f"{m.rel}:{js.lineno} {src(js)}" for m, js, _ in writers]
    if len(writers) < 2:
        raise AnalysisError(f"only {len(writers)} positional input-name writers found (in_<i>, in_<i>_nchw expected)")

    # ---- readers
    keep = idx.find_func(OPT, "prune_unused_graph_inputs_ir.<locals>._should_always_keep")
    if keep is None:
        raise AnalysisError("prune_unused_graph_inputs_ir._should_always_keep not found")
    ui = idx.module(UI)
    regex_src = None
    for st in ui.tree.body:
        if isinstance(st, ast.Assign) and len(st.targets) == 1 and isinstance(st.targets[0], ast.Name) and st.targets[0].id == "_POSITIONAL_INPUT_NAME_RE" and isinstance(st.value, ast.Call) and st.value.args:
            v = fold_const(st.value.args[0], ui.consts)
            if is_const(v) and isinstance(v, str):
                regex_src = (v, st.lineno)
    if regex_src is None:
        raise AnalysisError("_POSITIONAL_INPUT_NAME_RE not found as a constant regular expression")
    ev = Evaluator(idx, {})
    for m, js, samples in writers:
        pat = src(js)
        # reader 1: always-keep predicate (finite-domain evaluation of its expression tree on the sample names)
        key = f"{m.rel}::writer::{pat}::reader::_should_always_keep"
        try:
            verdicts = [bool(ev.call(keep, [s])) for s in samples]
            if all(verdicts):
                res.ok("R-C05a", f"{OPT}:{keep.node.lineno}", key, f"keeps {samples}", keep.qualname)
            else:
                bad = [s for s, v in zip(samples, verdicts) if not v]
                res.violation("R-C05a", f"{OPT}:{keep.node.lineno}", key, f"the converter names positional inputs `{pat}` ({m.rel}:{js.lineno}) but _should_always_keep rejects {bad}: an unused positional input of that form is pruned", keep.qualname)
        except (Unsupported, EvalRaise) as e:
            res.unresolved("R-C05a", f"{OPT}:{keep.node.lineno}", key, f"_should_always_keep uses a construct outside the evaluator's subset: {e}", keep.qualname)
        # reader 2: positional-name regex
        key = f"{m.rel}::writer::{pat}::reader::_POSITIONAL_INPUT_NAME_RE"
        rx = re.compile(regex_src[0])
        ms = [rx.fullmatch(s) for s in samples]
        good = all(mm is not None for mm in ms) and all(mm.group(1) == fill for mm, fill in zip(ms, ("0", "7", "12")) if mm is not None and mm.groups())
        if good:
            res.ok("R-C05a", f"{UI}:{regex_src[1]}", key, f"regex {regex_src[0]!r} maps {samples} to their indices", "")
        else:
            res.violation("R-C05a", f"{UI}:{regex_src[1]}", key, f"regex {regex_src[0]!r} does not recognise `{pat}` names (or extracts the wrong index): custom input_names are mapped to the wrong graph inputs", "")
    # non-positional names must not be always-kept blindly (otherwise pruning is a no-op: allowed but suspicious) — informational
    # ---- R-C05b
    m = idx.module(OPT)
    prune = idx.func(OPT, "prune_unused_graph_inputs_ir")
    removers: List[Tuple[Module, ast.AST, Optional[FuncInfo]]] = []
    for mod in idx.product_modules():
        if not mod.rel.startswith(SCOPE):
            continue
        for n in ast.walk(mod.tree):
            tgt = None
            if isinstance(n, ast.Call) and isinstance(n.func, ast.Attribute) and n.func.attr in ("clear", "remove", "pop", "sort", "reverse") and isinstance(n.func.value, ast.Attribute) and n.func.value.attr == "inputs":
                tgt = n.func.value.value
            elif isinstance(n, (ast.Assign, ast.Delete)):
                for t in (n.targets):
                    if isinstance(t, ast.Attribute) and t.attr == "inputs":
                        tgt = t.value
                    if isinstance(t, ast.Subscript) and isinstance(t.value, ast.Attribute) and t.value.attr == "inputs":
                        tgt = t.value.value
            if tgt is None:
                continue
            d = dotted(tgt) or ""
            if d.split(".")[-1] in ("graph",) or d.endswith(".graph") or d == "graph":
                removers.append((mod, n, mod.func_containing(n)))
    for mod, n, fi in removers:
        fn = fi.qualname if fi else "<module>"
        key = f"{mod.rel}::{fn}::removes-graph-inputs"
        if fi is not None and fi.node is prune.node:
            res.ok("R-C05b", f"{mod.rel}:{n.lineno}", key, "the prune pass", fn)
        else:
            res.violation("R-C05b", f"{mod.rel}:{n.lineno}", key, f"`{src(n, 60)}` removes / reorders graph inputs outside prune_unused_graph_inputs_ir", fn)
    if not any(fi is not None and fi.node is prune.node for _, _, fi in removers):
        res.unresolved("R-C05b", f"{OPT}:{prune.node.lineno}", f"{OPT}::prune_unused_graph_inputs_ir::removes-graph-inputs", "prune pass does not clear graph.inputs in a recognised form", prune.qualname)
    # registered top-graph only
    regs = [p for p in registered_passes(idx, m) if p[1].node is prune.node]
    key = f"{OPT}::prune_unused_graph_inputs_ir::top-graph-only"
    if regs and all(not fb for _, _, fb, _ in regs):
        res.ok("R-C05b", f"{OPT}:{prune.node.lineno}", key, "registered with function_bodies=False", prune.qualname)
    else:
        res.violation("R-C05b", f"{OPT}:{prune.node.lineno}", key, "the input-pruning pass also runs on ONNX function bodies: it would change function signatures", prune.qualname)
    # order + always-keep first
    du = defuse(prune.node)
    key = f"{OPT}::prune_unused_graph_inputs_ir::order-and-keep"
    loops = [n for n in walk_no_nested(prune.node) if isinstance(n, ast.For)]
    ok = False
    detail = "no loop over the original inputs"
    for lp in loops:
        if not du.derived_from(lp.iter, {"graph"}):
            continue
        appends = [c for c in ast.walk(lp) if isinstance(c, ast.Call) and isinstance(c.func, ast.Attribute) and c.func.attr == "append" and isinstance(c.func.value, ast.Name)]
        keep_lists = {c.func.value.id for c in appends if c.args and isinstance(c.args[0], ast.Name) and isinstance(lp.target, ast.Name) and c.args[0].id == lp.target.id}
        # the first test of the loop body consults the always-keep predicate and keeps
        first = lp.body[0] if lp.body else None
        consults = isinstance(first, ast.If) and any(isinstance(c, ast.Call) and (call_name(c) or "") == "_should_always_keep" for c in ast.walk(first.test)) and any(
            isinstance(c, ast.Call) and isinstance(c.func, ast.Attribute) and c.func.attr == "append" for st in first.body for c in ast.walk(st))
        extended = any(isinstance(c, ast.Call) and isinstance(c.func, ast.Attribute) and c.func.attr == "extend" and (dotted(c.func.value) or "").endswith("inputs") and c.args and isinstance(c.args[0], ast.Name) and c.args[0].id in keep_lists for c in walk_no_nested(prune.node))
        if keep_lists and consults and extended:
            ok = True
        else:
            detail = f"keep list {sorted(keep_lists)} / always-keep first: {consults} / inputs.extend(keep): {extended}"
    if ok:
        res.ok("R-C05b", f"{OPT}:{prune.node.lineno}", key, "inputs are kept in their original order and the always-keep rule is consulted first", prune.qualname)
    else:
        res.violation("R-C05b", f"{OPT}:{prune.node.lineno}", key, f"the prune pass does not rebuild graph.inputs from the kept originals in order with the always-keep rule first ({detail})", prune.qualname)

    # ---- R-C05c
    f = idx.func(UI, "_apply_custom_io_names_on_ir")
    g = cfg_of(f.node)
    renames = [c for c in walk_no_nested(f.node) if isinstance(c, ast.Call) and (call_name(c) or "").endswith("rename_values")]
    if not renames:
        raise AnalysisError("_apply_custom_io_names_on_ir no longer calls rename_values")
    rn = [n for c in renames for n in g.nodes_of(enclosing_stmt(c))]
    guards = [n for n in walk_no_nested(f.node) if isinstance(n, ast.If) and any(isinstance(s, ast.Raise) for s in n.body)]
    wanted = {
        "input-count": lambda t: isinstance(t, ast.Compare) and isinstance(t.ops[0], ast.NotEq) and "input_names" in names_in(t) and any(isinstance(c, ast.Call) and (call_name(c) or "") == "len" for c in ast.walk(t)),
        "output-count": lambda t: isinstance(t, ast.Compare) and isinstance(t.ops[0], ast.NotEq) and "output_names" in names_in(t) and any(isinstance(c, ast.Call) and (call_name(c) or "") == "len" for c in ast.walk(t)),
        "one-value-two-names": lambda t: isinstance(t, ast.Compare) and isinstance(t.ops[0], ast.NotEq) and "target" in names_in(t),
        "unique-targets": lambda t: isinstance(t, ast.Compare) and isinstance(t.ops[0], ast.NotEq) and any(isinstance(c, ast.Call) and (call_name(c) or "") == "set" for c in ast.walk(t)) and any(isinstance(c, ast.Call) and (call_name(c) or "") == "len" for c in ast.walk(t)),
        "collision-with-existing": lambda t: isinstance(t, ast.Name) and "collision" in t.id.lower(),
    }
    for wname, pred in wanted.items():
        key = f"{UI}::_apply_custom_io_names_on_ir::{wname}"
        cands = [gd for gd in guards if rejects(gd.test, pred)]
        if not cands:
            res.violation("R-C05c", f"{UI}:{f.node.lineno}", key, f"the `{wname}` check (an `if …: raise`) is gone: invalid custom names reach rename_values", f.qualname)
            continue
        gd = cands[0]
        # every path to rename takes the guard's F edge, or bypasses the enclosing optional block / loop
        via = [(n, "F") for n in g.nodes_of(gd)]
        for p in parents(gd):
            if p is f.node:
                break
            if isinstance(p, ast.If):
                via += [(n, "F") for n in g.nodes_of(p)] if gd in _descend(p.body) else [(n, "T") for n in g.nodes_of(p)]
            if isinstance(p, (ast.For, ast.While)):
                via += [(n, "F") for n in g.nodes_of(p)]
        if g.must_pass_edges(rn, via) and gd.lineno < renames[0].lineno:
            res.ok("R-C05c", f"{UI}:{gd.lineno}", key, f"`if {src(gd.test, 60)}: raise` precedes rename_values on every path", f.qualname)
        else:
            res.violation("R-C05c", f"{UI}:{gd.lineno}", key, f"rename_values can be reached without passing `if {src(gd.test, 60)}: raise`", f.qualname)
    rule_collision_universe(res, idx)
    # to_onnx: collisions raise before the converter call
    t = idx.func(UI, "to_onnx")
    gt = cfg_of(t.node)
    impl = [c for c in walk_no_nested(t.node) if isinstance(c, ast.Call) and (call_name(c) or "").split(".")[-1] == "to_onnx_impl"]
    cguards = [n for n in walk_no_nested(t.node) if isinstance(n, ast.If) and isinstance(n.test, ast.Name) and "collision" in n.test.id.lower() and any(isinstance(s, ast.Raise) for s in n.body)]
    key = f"{UI}::to_onnx::input_params-collisions"
    if impl and cguards:
        impl_nodes = [n for c in impl for n in gt.nodes_of(enclosing_stmt(c))]
        bad = []
        for gd in cguards:
            via = [(n, "F") for n in gt.nodes_of(gd)]
            for p in parents(gd):
                if p is t.node:
                    break
                if isinstance(p, ast.If):
                    via += [(n, "F") for n in gt.nodes_of(p)]
            if not gt.must_pass_edges(impl_nodes, via):
                bad.append(gd.lineno)
        if not bad:
            res.ok("R-C05c", f"{UI}:{cguards[0].lineno}", key, f"{len(cguards)} collision checks raise before the converter is called", t.qualname)
        else:
            res.violation("R-C05c", f"{UI}:{bad[0]}", key, "the converter can be called without the input_params name-collision check having passed", t.qualname)
    else:
        res.violation("R-C05c", f"{UI}:{t.node.lineno}", key, "no input_params / io-name collision check raises before the converter call", t.qualname)

    # ---- R-C05e: declared element type and shape of every graph input / output derive from the aval of the traced
    # variable it stands for (through the float policy `_dtype_to_ir` and `_to_ir_shape`), never from a constant
    res.rule("R-C05e", "interface values take their declared element type and shape from the traced variable's aval", floor=3)
    CTX = "jax2onnx/converter/ir_context.py"
    fin = idx.func(CTX, "IRContext.add_input_for_invar")
    du_i = defuse(fin.node)
    ctor = [c for c in walk_no_nested(fin.node) if isinstance(c, ast.Call) and (call_name(c) or "") in ("ir.Value", "ir.val")]
    if not ctor:
        raise AnalysisError("add_input_for_invar: no ir.Value construction found")
    for c in ctor:
        for kw_name, accessor in (("type", "_maybe_dtype"), ("shape", "_maybe_shape")):
            kw = next((k.value for k in c.keywords if k.arg == kw_name), None)
            key = f"{CTX}::IRContext.add_input_for_invar::{kw_name}-from-aval"
            site = f"{CTX}:{c.lineno}"
            if kw is None:
                res.violation("R-C05e", site, key, f"the graph input is created without a declared {kw_name}", fin.qualname)
                continue
            cl = du_i.closure(names_in(kw)) | names_in(kw)
            vals = [v for n_ in cl for v in du_i.values(n_)] + [kw]
            via = any(isinstance(x, ast.Call) and (call_name(x) or "").split(".")[-1] == accessor for v in vals for x in ast.walk(v))
            if via and "var" in cl:
                res.ok("R-C05e", site, key, f"`{src(kw, 50)}` derives from {accessor}(aval of var)", fin.qualname)
            else:
                res.violation("R-C05e", site, key, f"the declared {kw_name} `{src(kw, 50)}` of a graph input does not derive from the traced variable's aval ({accessor})", fin.qualname)
    fout = idx.func(CTX, "IRContext.add_outputs_from_vars")
    du_o = defuse(fout.node)
    key = f"{CTX}::IRContext.add_outputs_from_vars::target-type-from-aval"
    tdefs = [d for d in du_o.defs.get("target_enum", []) if d.value is not None and not (isinstance(d.value, ast.Constant) and d.value.value is None)]
    loop = next((lp for lp in walk_no_nested(fout.node) if isinstance(lp, ast.For) and "outvars" in names_in(lp.iter)), None)
    if not tdefs or loop is None:
        raise AnalysisError("add_outputs_from_vars: target_enum / loop over outvars not found")
    loop_vars = names_in(loop.target)
    bad = []
    for d in tdefs:
        if isinstance(d.value, ast.Name) and d.value.id == "current_enum":
            continue  # keeps the element type the lowering produced (policy branches)
        cl = du_o.closure(names_in(d.value)) | names_in(d.value)
        vals = [v for n_ in cl for v in du_o.values(n_)] + [d.value]
        via = any(isinstance(x, ast.Call) and (call_name(x) or "").split(".")[-1] == "_maybe_dtype" for v in vals for x in ast.walk(v))
        if not (via and (cl & loop_vars)):
            bad.append(d)
    if bad:
        res.violation("R-C05e", f"{CTX}:{bad[0].stmt.lineno}", key, f"the declared output element type `{src(bad[0].value, 50)}` does not derive from the aval dtype of the output variable", fout.qualname)
    else:
        res.ok("R-C05e", f"{CTX}:{tdefs[0].stmt.lineno}", key, f"{len(tdefs)} definitions of the output's target type derive from _maybe_dtype(aval of the output variable) or keep the produced type", fout.qualname)

    # sibling agreement: every creator of a graph input value maps the aval dtype through the float-policy mapper with the
    # export's precision flag (`_dtype_to_ir(dtype, <flag>)`), as add_input_for_invar does
    cg_sites = []
    for mod in idx.product_modules():
        if not mod.rel.startswith("jax2onnx/converter/"):
            continue
        for fi in mod.funcs.values():
            adds = [c for c in walk_no_nested(fi.node) if isinstance(c, ast.Call) and (call_name(c) or "").endswith("add_graph_input_value") and c.args and isinstance(c.args[0], ast.Name)]
            if not adds:
                continue
            du_f = defuse(fi.node)
            for a in adds:
                for v in du_f.values(a.args[0].id):
                    if isinstance(v, ast.Call) and (call_name(v) or "") in ("ir.Value", "ir.val"):
                        cg_sites.append((mod, fi, v))
    for mod, fi, v in cg_sites:
        kw = next((k.value for k in v.keywords if k.arg == "type"), None)
        key = f"{mod.rel}::{fi.qualname}::graph-input-type-policy"
        site = f"{mod.rel}:{v.lineno}"
        if kw is None:
            continue
        du_f = defuse(fi.node)
        exprs = [kw] + [x for nm in du_f.closure(names_in(kw)) for x in du_f.values(nm)]
        mappers = {(call_name(c) or "").split(".")[-1] for e in exprs for c in ast.walk(e) if isinstance(c, ast.Call)} & {"_dtype_to_ir", "numpy_dtype_to_ir_with_float_policy", "_to_ir_dtype_from_np", "numpy_dtype_to_ir"}
        policy = mappers & {"_dtype_to_ir", "numpy_dtype_to_ir_with_float_policy"}
        if policy:
            res.ok("R-C05e", site, key, f"graph input typed through {sorted(policy)[0]}(dtype, precision flag)", fi.qualname)
        elif mappers:
            res.violation("R-C05e", site, key, f"the graph input is typed through {sorted(mappers)[0]}(), which ignores enable_double_precision and maps every narrow float to FLOAT; plain inputs use _dtype_to_ir(dtype, flag), so the same argument is declared with a different element type depending on the layout flag", fi.qualname)
        else:
            res.unresolved("R-C05e", site, key, f"type expression `{src(kw, 50)}` uses no known dtype mapper", fi.qualname)

    # ---- R-C05d: the optimizer's annotation refresh can land on a value that is (or is re-routed to) a graph output,
    # so the declared element type / shape of the interface depends on it: the refresh rules of C08 are re-decided here
    if not getattr(res, "_nested_xref", False):
        from . import c08
        res.rule("R-C05d", "annotation refresh in the optimizer keeps declared element types and visits producers first (C08 R-C08c / R-C08d)", floor=5)
        sub = Results("C08", tier)
        setattr(sub, "_nested_xref", True)
        c08.run(sub, idx, tier)
        for inst in sub.instances:
            if inst.rule in ("R-C08c", "R-C08d"):
                res.add("R-C05d", inst.status, inst.site, f"{inst.rule}::{inst.key}", f"[C08 {inst.rule}] {inst.detail}", inst.func)
    rule_f(res, idx)
    rule_g(res, idx)
    rule_i(res, idx)
    rule_j(res, idx)
    rule_k(res, idx)
    if not getattr(res, "_nested_xref", False):
        # the declared element type of an input follows the dtype the input specification is normalised to: a normalisation
        # step that consults the ambient x64 flag (outside the export's precision scope) narrows 64-bit example arrays in a
        # default process although the export itself traces them as 64-bit (C09 R-C09c, instances under to_onnx)
        from . import c09
        res.rule("R-C05h", "input specifications and interface names are prepared without x64-sensitive JAX calls outside the export's precision scope (C09 R-C09c)", floor=5)
        sub9 = Results("C09", tier)
        setattr(sub9, "_nested_xref", True)
        c09.rule_c(sub9, idx)
        for inst in sub9.instances:
            if inst.rule == "R-C09c" and "user_interface.py::to_onnx::" in inst.key:
                res.add("R-C05h", inst.status, inst.site, f"R-C09c::{inst.key}", f"[C09 R-C09c] {inst.detail}", inst.func)


def _descend(body: List[ast.stmt]) -> List[ast.AST]:
    return [x for st in body for x in ast.walk(st)]


def rule_collision_universe(res: Results, idx: Index) -> None:
    """The name-collision check must see every named value of the top graph (intermediate node outputs too):
    follow the `collisions` guard back to the function that enumerates the occupied names."""
    f = idx.func(UI, "_apply_custom_io_names_on_ir")
    du = defuse(f.node)
    key = f"{UI}::_apply_custom_io_names_on_ir::collision-universe"
    providers = []
    for nm in du.closure({"collisions"}) | {"collisions"}:
        for v in du.values(nm):
            for c in ast.walk(v):
                if isinstance(c, ast.Call):
                    g = idx.resolve_func(idx.module(UI), call_name(c) or "", scope=f)
                    if g is not None and g.module.rel == UI and g.node is not f.node and any(a.arg == "graph" for a in g.node.args.args):
                        providers.append(g)
    direct = [c for nm in du.closure({"collisions"}) | {"collisions"} for d in du.defs.get(nm, []) if d.value is not None for c in ast.walk(d.value)
              if isinstance(c, ast.Call) and (call_name(c) or "").endswith("create_value_mapping")]
    if not direct and not providers:
        # the universe may be spelled out in place: the loop that fills the occupied-name set
        clo = du.closure({"collisions"}) | {"collisions"}
        for lp in walk_no_nested(f.node):
            if isinstance(lp, ast.For) and any(isinstance(c, ast.Call) and isinstance(c.func, ast.Attribute) and c.func.attr == "add" and isinstance(c.func.value, ast.Name) and c.func.value.id in clo for c in ast.walk(lp)):
                attrs = {x.attr for x in ast.walk(lp.iter) if isinstance(x, ast.Attribute)}
                walks = any(isinstance(x, ast.comprehension) and isinstance(x.iter, ast.Name) and x.iter.id == "graph" for x in ast.walk(lp.iter)) or "all_nodes" in attrs
                if attrs & {"inputs", "outputs", "initializers"} and not walks:
                    res.violation("R-C05c", f"{UI}:{lp.lineno}", key, f"the collision check enumerates only {sorted(attrs & {'inputs', 'outputs', 'initializers'})} of the graph: a custom name equal to an intermediate value's name "
                                  "defines that name twice", f.qualname)
                    return
    if direct and not providers:
        c = direct[0]
        kw = {k.arg: k.value for k in c.keywords}
        top_only = "include_subgraphs" in kw and isinstance(kw["include_subgraphs"], ast.Constant) and kw["include_subgraphs"].value is False
        if top_only:
            res.violation("R-C05c", f"{UI}:{c.lineno}", key, "the collision check enumerates the top graph only (`include_subgraphs=False`): a custom name equal to a value name inside a Loop / If body is accepted and the body then "
                          "shadows or redefines it (checker / ORT reject the model for input names)", f.qualname)
        else:
            res.ok("R-C05c", f"{UI}:{c.lineno}", key, "occupied names come from a mapping over every named value of the graph and its nested graphs", f.qualname)
        return
    if not providers:
        res.unresolved("R-C05c", f"{UI}:{f.node.lineno}", key, "the enumeration of occupied names was not found", f.qualname)
        return
    ok = False
    why = ""
    for g in providers:
        txt_calls = [call_name(c) or "" for c in ast.walk(g.node) if isinstance(c, ast.Call)]
        walks_nodes = any(isinstance(n, ast.For) and isinstance(n.iter, ast.Name) and n.iter.id == "graph" for n in ast.walk(g.node)) and any(isinstance(x, ast.Attribute) and x.attr == "outputs" and not (isinstance(x.value, ast.Name) and x.value.id == "graph") for x in ast.walk(g.node))
        cvm = [c for c in ast.walk(g.node) if isinstance(c, ast.Call) and (call_name(c) or "").endswith("create_value_mapping")]
        top_only = any(isinstance(k.value, ast.Constant) and k.value.value is False for c in cvm for k in c.keywords if k.arg == "include_subgraphs")
        if cvm and top_only:
            why = f"{g.qualname}() enumerates the top graph only (include_subgraphs=False): names inside Loop / If bodies are not seen"
        elif cvm or walks_nodes:
            ok = True
        else:
            why = f"{g.qualname}() enumerates only " + ", ".join(sorted({x.attr for x in ast.walk(g.node) if isinstance(x, ast.Attribute) and isinstance(x.value, ast.Name) and x.value.id == "graph"}))
    if ok:
        res.ok("R-C05c", f"{UI}:{providers[0].node.lineno}", key, "occupied names come from a mapping over every named value of the top graph", f.qualname)
    else:
        res.violation("R-C05c", f"{UI}:{providers[0].node.lineno}", key, f"the collision check does not see intermediate value names ({why}): a custom input/output name equal to a node output's name defines that name twice", f.qualname)


# ---------------------------------------------------------------------------------------------- R-C05f
CONV_FILES = ("jax2onnx/converter/conversion_api.py", "jax2onnx/converter/ir_context.py", "jax2onnx/converter/ir_builder.py", "jax2onnx/converter/function_scope.py")
ORDER_KEEPING = {"append", "extend", "clear", "copy", "index", "count"}
ORDER_CHANGING = {"insert", "pop", "sort", "reverse", "remove"}
OUTPUT_ADDERS = {"add_outputs_from_vars", "bind_output", "add_graph_output_value"}


def rule_f(res: Results, idx: Index) -> None:
    """One graph output per result leaf, IN ORDER: the converter's list of graph outputs may only grow at its end, in the
    order of `jpr.outvars`.  (i) every method call / store on `<…>.outputs` of a builder (or a local alias of it) in the
    converter is order-keeping (`append`, `extend`, `clear`) — `insert` / `pop` / `sort` / `reverse` / item or slice stores
    place a value by position; (ii) in `_LayoutAdapter.bind_outputs` outputs are added either by one call over the whole
    `jpr.outvars` or inside a loop over `jpr.outvars` in which every path through the body adds the loop's own variable."""
    from ..cfg import cfg_of
    res.rule("R-C05f", "graph outputs are appended in the order of the result leaves (no positional placement, no filtered bulk add)", floor=5)
    n = 0
    for rel in CONV_FILES:
        m = idx.by_rel.get(rel)
        if m is None:
            continue
        for fi in m.funcs.values():
            du = defuse(fi.node)
            aliases = {nm for nm, ds in du.defs.items() for d in ds if d.value is not None and isinstance(d.value, ast.Attribute) and d.value.attr == "outputs" and "builder" in (dotted(d.value) or "")}
            for c in walk_no_nested(fi.node):
                tgt = None
                meth = None
                if isinstance(c, ast.Call) and isinstance(c.func, ast.Attribute):
                    recv = c.func.value
                    d = dotted(recv) or ""
                    if (isinstance(recv, ast.Attribute) and recv.attr == "outputs" and ("builder" in d or d == "self.outputs" and "ir_builder" in rel)) or (isinstance(recv, ast.Name) and recv.id in aliases):
                        tgt, meth = d, c.func.attr
                elif isinstance(c, (ast.Assign, ast.Delete)):
                    for t in (c.targets if isinstance(c, (ast.Assign, ast.Delete)) else []):
                        if isinstance(t, ast.Subscript):
                            d = dotted(t.value) or ""
                            if (d.endswith(".outputs") and "builder" in d) or (isinstance(t.value, ast.Name) and t.value.id in aliases):
                                tgt, meth = d, "item/slice store" if isinstance(c, ast.Assign) else "del"
                if tgt is None or meth is None:
                    continue
                n += 1
                key = f"{rel}::{fi.qualname}::outputs-list::{meth}"
                site = f"{rel}:{c.lineno}"
                if meth in ORDER_KEEPING:
                    res.ok("R-C05f", site, key, f"`{tgt}.{meth}` keeps the order of the outputs", fi.qualname)
                elif meth in ORDER_CHANGING or meth in ("item/slice store", "del"):
                    res.violation("R-C05f", site, key, f"`{src(c, 60)}` places or removes a graph output by position: the i-th output is no longer the i-th result leaf for some selections", fi.qualname)
                else:
                    res.unresolved("R-C05f", site, key, f"`{tgt}.{meth}`: effect on the order not known", fi.qualname)
    # (ii) bind_outputs
    rel = "jax2onnx/converter/conversion_api.py"
    f = idx.find_func(rel, "_LayoutAdapter.bind_outputs")
    if f is None:
        raise AnalysisError("_LayoutAdapter.bind_outputs not found")
    g = cfg_of(f.node)
    adders = [c for c in walk_no_nested(f.node) if isinstance(c, ast.Call) and (call_name(c) or "").split(".")[-1] in OUTPUT_ADDERS]
    key = f"{rel}::_LayoutAdapter.bind_outputs::leaf-order"
    bad = None
    for c in adders:
        loop = next((p for p in parents(c) if isinstance(p, ast.For)), None)
        arg0 = c.args[0] if c.args else None
        if loop is None:
            whole = arg0 is not None and (dotted(arg0) or "").endswith(".outvars")
            if not whole:
                bad = (c, "adds a subset of the result leaves in one call outside the loop over `outvars`: the remaining leaves can only be placed by position afterwards")
            continue
        it_ok = "outvars" in src(loop.iter, 80)
        lvars = names_in(loop.target)
        if not it_ok:
            bad = (c, f"the enclosing loop iterates `{src(loop.iter, 40)}`, not the result leaves in order")
        elif arg0 is None or not (names_in(arg0) & lvars):
            bad = (c, "does not add the loop's own leaf")
    loops = [n_ for n_ in walk_no_nested(f.node) if isinstance(n_, ast.For) and "outvars" in src(n_.iter, 80)]
    for lp in loops:
        body_adders = [enclosing_stmt(c) for c in adders if any(p is lp for p in parents(c))]
        if not body_adders:
            continue
        first = lp.body[0]
        # every path through the body passes an adder: remove adder nodes, the loop header must not be reachable from the body start
        hdr = g.nodes_of(lp)
        reach = g.reachable(g.nodes_of(first), removed_nodes={n_ for st in body_adders for n_ in g.nodes_of(st)})
        if set(hdr) & reach and not all(n_ in {x for st in body_adders for x in g.nodes_of(st)} for n_ in g.nodes_of(first)):
            bad = bad or (lp, "some path through the loop body adds no output for its leaf")
    n += 1
    if not adders:
        res.unresolved("R-C05f", f.site, key, "no output-adding call found", f.qualname)
    elif bad:
        res.violation("R-C05f", f"{rel}:{bad[0].lineno}", key, f"`{src(bad[0], 60)}` {bad[1]}", f.qualname)
    else:
        res.ok("R-C05f", f.site, key, f"{len(adders)} adding calls: whole-list call or one per leaf inside the loop over `outvars`", f.qualname)
    res.analysed["output_list_sites"] = n


# ---------------------------------------------------------------------------------------------- R-C05g
def rule_g(res: Results, idx: Index) -> None:
    """User-supplied output names are applied exactly: a result leaf that IS a positional input, or that repeats an
    earlier leaf, is one ir.Value listed as input and output (or as two outputs) — renaming it renames the input too, or the
    two requested names conflict.  Before the (value, name) pairs for the outputs are formed in
    `_apply_custom_io_names_on_ir`, a loop over the outputs must (i) test each value against a set seeded from the graph's
    inputs and extended with the outputs seen so far, (ii) on a hit create an Identity node and (iii) store its output both in
    `graph.outputs[i]` and in the list the pairs are zipped from."""
    f = idx.func(UI, "_apply_custom_io_names_on_ir")
    res.rule("R-C05g", "result leaves that alias a graph input or an earlier leaf get an output value of their own before custom names are applied", floor=1)
    key = f"{UI}::_apply_custom_io_names_on_ir::distinct-output-values"
    du = defuse(f.node)
    zips = [c for c in walk_no_nested(f.node) if isinstance(c, ast.Call) and (call_name(c) or "") == "zip" and len(c.args) == 2 and isinstance(c.args[1], ast.Name) and c.args[1].id == "output_names"]
    if not zips:
        res.unresolved("R-C05g", f.site, key, "the (output value, output name) pairing `zip(…, output_names)` was not found", f.qualname)
        return
    z = zips[0]
    lst = z.args[0].id if isinstance(z.args[0], ast.Name) else None
    loops = [n for n in walk_no_nested(f.node) if isinstance(n, ast.For) and lst is not None and lst in names_in(n.iter) and n.lineno < z.lineno]
    good = None
    why = "no loop over the outputs precedes the pairing"
    for lp in loops:
        tests = [n for n in ast.walk(lp) if isinstance(n, ast.If) and any(isinstance(c, ast.Compare) and isinstance(c.ops[0], ast.In) for c in ast.walk(n.test))]
        sets = {nm for t_ in tests for c in ast.walk(t_.test) if isinstance(c, ast.Compare) and isinstance(c.ops[0], ast.In) for nm in names_in(c.comparators[0])}
        seeded = any("inputs" in src(v, 120) for nm in sets for v in du.values(nm))
        grows = any(isinstance(c, ast.Call) and isinstance(c.func, ast.Attribute) and c.func.attr in ("add", "update") and isinstance(c.func.value, ast.Name) and c.func.value.id in sets for c in ast.walk(lp))
        ident = any(isinstance(x, ast.Constant) and x.value == "Identity" for t_ in tests for x in ast.walk(t_))
        stores = [x for t_ in tests for x in ast.walk(t_) if isinstance(x, ast.Assign) and isinstance(x.targets[0], ast.Subscript)]
        into_graph = any((dotted(s.targets[0].value) or "").endswith(".outputs") for s in stores)
        into_list = any(isinstance(s.targets[0].value, ast.Name) and s.targets[0].value.id == lst for s in stores)
        miss = [w for w, ok in (("a membership test", bool(tests)), ("a set seeded from the graph inputs", seeded), ("the set growing with the outputs seen", grows), ("an Identity node", ident),
                                ("a store into graph.outputs[i]", into_graph), (f"a store into `{lst}`", into_list)) if not ok]
        if not miss:
            good = lp
            break
        why = "the loop over the outputs lacks " + ", ".join(miss)
    if good is not None:
        res.ok("R-C05g", f"{UI}:{good.lineno}", key, "aliasing leaves are routed through Identity before the names are paired with the outputs", f.qualname)
    else:
        res.violation("R-C05g", f"{UI}:{z.lineno}", key, f"`{src(z, 50)}` pairs the requested names with the graph's output values as they are ({why}): when a leaf is a positional input the name given to the "
                      "output renames the input as well (or conflicts with its own custom name), and a repeated leaf cannot get two names", f.qualname)


# ---------------------------------------------------------------------------------------------- R-C05i
def rule_i(res: Results, idx: Index) -> None:
    """Helpers that create a top-level graph input on request (`ensure_external_flag(name, var)`: written for the BOOL flag
    `deterministic`) declare it with a fixed element type.  A caller that passes an arbitrary call-parameter name — the
    function plugin routes every `input_params` entry of an @onnx_function through it — gets a BOOL input for a float
    parameter (the model does not type-check).  Every call site whose name argument is not a string literal has to hand the
    parameter's own element type to the helper; the helper has to use it."""
    res.rule("R-C05i", "graph inputs created on behalf of a caller-named call parameter take their element type from the caller", floor=2)
    n = 0
    helpers = []
    for m in idx.product_modules():
        if not m.rel.startswith("jax2onnx/converter/"):
            continue
        for fi in m.funcs.values():
            a = fi.node.args  # type: ignore[attr-defined]
            pnames = [x.arg for x in a.posonlyargs + a.args + a.kwonlyargs]
            if "name" not in pnames:
                continue
            for c in walk_no_nested(fi.node):
                if isinstance(c, ast.Call) and isinstance(c.func, ast.Attribute) and c.func.attr == "append" and src(c.func.value, 40).endswith("inputs") and c.args and isinstance(c.args[0], ast.Name):
                    du = defuse(fi.node)
                    for d in du.defs.get(c.args[0].id, []):
                        if d.value is not None and isinstance(d.value, ast.Call) and (call_name(d.value) or "").endswith("ir.Value") and any(k.arg == "name" and isinstance(k.value, ast.Name) and k.value.id == "name" for k in d.value.keywords):
                            ty = next((k.value for k in d.value.keywords if k.arg == "type"), None)
                            helpers.append((m, fi, d.value, ty, pnames))
    for m, fi, vcall, ty, pnames in helpers:
        n += 1
        key = f"{m.rel}::{fi.qualname}::created-input-type"
        site = f"{m.rel}:{vcall.lineno}"
        ty_names = names_in(ty) if ty is not None else set()
        param_typed = bool(ty_names & set(pnames))
        if param_typed:
            res.ok("R-C05i", site, key, f"the created input is typed `{src(ty, 50)}` from the helper's parameter {sorted(ty_names & set(pnames))}", fi.qualname)
        else:
            res.ok("R-C05i", site, key, f"the created input has the fixed type `{src(ty, 50) if ty is not None else '?'}` (every caller must then name a flag of that type)", fi.qualname)
        # call sites
        for m2 in idx.product_modules():
            if fi.name not in m2.src:
                continue
            for f2 in m2.funcs.values():
                for c in walk_no_nested(f2.node):
                    if not (isinstance(c, ast.Call) and isinstance(c.func, ast.Attribute) and c.func.attr == fi.name and c.args):
                        continue
                    n += 1
                    k2 = f"{m2.rel}::{f2.qualname}::{fi.name}({src(c.args[0], 30)})"
                    s2 = f"{m2.rel}:{c.lineno}"
                    literal = isinstance(c.args[0], ast.Constant) and isinstance(c.args[0].value, str)
                    flagvar = isinstance(c.args[0], ast.Name) and "flag" in c.args[0].id.lower()
                    passes_type = any(k.arg in ("dtype", "type", "elem_type") for k in c.keywords)
                    if literal or flagvar:
                        res.ok("R-C05i", s2, k2, "names a fixed flag", f2.qualname)
                    elif passes_type and param_typed:
                        res.ok("R-C05i", s2, k2, "passes the parameter's element type and the helper uses it", f2.qualname)
                    else:
                        res.violation("R-C05i", s2, k2, f"`{src(c, 60)}` asks {fi.name}() for a graph input named after an arbitrary call parameter, " + ("but passes no element type" if not passes_type else "but the helper ignores the type")
                                      + f": the input is declared `{src(ty, 40) if ty is not None else '?'}` whatever the parameter's dtype (a float `input_params` entry routed into an @onnx_function becomes a BOOL input; the model is invalid)", f2.qualname)
    res.analysed["input_creating_helpers"] = len(helpers)
    if not helpers:
        raise AnalysisError("no helper that creates a named graph input was found (ensure_external_flag moved?)")


# ---------------------------------------------------------------------------------------------- R-C05j
def rule_j(res: Results, idx: Index) -> None:
    """The precision flag governs FLOATING widths.  An integer result keeps the type JAX computed (int16 stays int16; consumers
    are typed from their avals).  A lowering that picks an integer element type from the flag alone (`INT64 if
    enable_double_precision else INT32`) retypes every integer width: scan results of int16 met int16 operands as INT32 and
    the model did not load.  Every conditional on the precision flag inside the plugins is an instance; its branches may not
    both be literal integer element types."""
    res.rule("R-C05j", "no integer element type is chosen from the precision flag alone (integers follow the aval's dtype)", floor=5)
    n = 0
    for m in idx.product_modules():
        if "/plugins/" not in m.rel or ".examples" in m.name:
            continue
        for fi in m.funcs.values():
            for x in walk_no_nested(fi.node):
                if not (isinstance(x, ast.IfExp) and "double" in src(x.test, 120).lower()):
                    continue
                n += 1
                key = f"{m.rel}::{fi.qualname}::flag-chosen-type#{sum(1 for y in walk_no_nested(fi.node) if isinstance(y, ast.IfExp) and 'double' in src(y.test, 120).lower() and y.lineno < x.lineno)}"
                site = f"{m.rel}:{x.lineno}"
                lit = lambda e: isinstance(e, ast.Attribute) and e.attr.startswith(("INT", "UINT")) and "DataType" in src(e, 40)
                if lit(x.body) and lit(x.orelse):
                    res.violation("R-C05j", site, key, f"`{src(x, 70)}` picks an integer element type from the precision flag: results whose JAX type is another integer width (int8 / int16 / uint8, or int32 in a "
                                  "double-precision export) are retyped and no longer match the operands typed from their avals", fi.qualname)
                else:
                    res.ok("R-C05j", site, key, f"`{src(x, 60)}`: not a pair of literal integer types", fi.qualname)
    res.analysed["precision_flag_conditionals"] = n


# ---------------------------------------------------------------------------------------------- R-C05k
def _mentions_complex(n: ast.AST) -> bool:
    t = src(n, 4000)
    return "COMPLEX64" in t or "COMPLEX128" in t or "complexfloating" in t or "iscomplexobj" in t


def rule_k(res: Results, idx: Index) -> None:
    """"complex as a trailing pair of reals" is a statement about the interface, not about the plugins that happen to consume a
    complex tensor: plugins re-type a complex graph input in place when they use it, so an input nobody uses (or a complex
    constant returned as a result leaf, which no plugin ever sees) needs a step of its own.  Decided:
      (inputs)  the function that lowers the equations of the top-level jaxpr and then binds the outputs calls, between the two and
                unconditionally, a function that loops over `<…>.builder.inputs`, tests for a complex element type and assigns
                `.type` and `.shape`;
      (outputs) in `add_outputs_from_vars`, the branch that declares a complex result as a pair also handles the payload of a
                constant (a call to a function that reads and assigns `const_value`, or such an assignment in the branch)."""
    res.rule("R-C05k", "complex tensors that no plugin packed (unused inputs, constant result leaves) are declared and stored as a trailing pair of reals", floor=2)
    CAPI_ = "jax2onnx/converter/conversion_api.py"
    CTXF = "jax2onnx/converter/ir_context.py"
    m = idx.module(CAPI_)
    hosts = [fi for fi in m.funcs.values() if any(isinstance(c, ast.Call) and (call_name(c) or "").split(".")[-1] == "_lower_jaxpr_equations" for c in walk_no_nested(fi.node))
             and any(isinstance(c, ast.Call) and (call_name(c) or "").split(".")[-1] == "_bind_jaxpr_outputs" for c in walk_no_nested(fi.node))]
    if not hosts:
        raise AnalysisError("R-C05k: the function that lowers the top-level equations and binds the outputs was not found")

    def is_input_packer(fn: ast.AST) -> bool:
        loops = [lp for lp in ast.walk(fn) if isinstance(lp, ast.For) and src(lp.iter, 60).endswith("builder.inputs")]
        for lp in loops:
            sets = {t.attr for a in ast.walk(lp) if isinstance(a, ast.Assign) for t in a.targets if isinstance(t, ast.Attribute)}
            calls_pack = any(isinstance(c, ast.Call) and (call_name(c) or "").split(".")[-1] == "pack_native_complex" for c in ast.walk(lp))
            if _mentions_complex(lp) and ({"type", "shape"} <= sets or calls_pack):
                return True
        return False

    ctxm = idx.module(CTXF)
    for fi in hosts:
        key = f"{CAPI_}::{fi.qualname}::unconsumed-complex-inputs"
        found = None
        blocks = [b for n_ in ast.walk(fi.node) for b in (getattr(n_, "body", None), getattr(n_, "orelse", None), getattr(n_, "finalbody", None)) if isinstance(b, list)]
        for blk in blocks:
            names = [((call_name(s.value) or "").split(".")[-1] if isinstance(s, ast.Expr) and isinstance(s.value, ast.Call) else "") for s in blk]
            if "_lower_jaxpr_equations" not in names:
                continue
            i0 = names.index("_lower_jaxpr_equations")
            i1 = names.index("_bind_jaxpr_outputs") if "_bind_jaxpr_outputs" in names else len(blk)
            for s, nm in list(zip(blk, names))[i0 + 1:i1]:
                if not nm:
                    continue
                cands = [g for g in list(ctxm.funcs.values()) + list(m.funcs.values()) if g.name == nm]
                if any(is_input_packer(g.node) for g in cands):
                    found = (s, nm)
        creator = idx.func(CTXF, "IRContext.add_input_for_invar")
        if found:
            res.ok("R-C05k", f"{CAPI_}:{found[0].lineno}", key, f"`{found[1]}` re-types complex graph inputs that are still native after lowering, before the outputs are bound", fi.qualname)
        elif creator is not None and _mentions_complex(creator.node):
            res.ok("R-C05k", f"{CTXF}:{creator.node.lineno}", key, "graph inputs are declared as a pair of reals when they are created (add_input_for_invar tests for a complex element type)", fi.qualname)
        else:
            anywhere = [c for c in ast.walk(fi.node) if isinstance(c, ast.Call) and any(is_input_packer(g.node) for g in list(ctxm.funcs.values()) + list(m.funcs.values()) if g.name == (call_name(c) or "").split(".")[-1])]
            if anywhere:
                res.unresolved("R-C05k", f"{CAPI_}:{anywhere[0].lineno}", key, "a complex-input packing step exists but is not an unconditional statement between lowering and output binding", fi.qualname)
            else:
                res.violation("R-C05k", f"{CAPI_}:{fi.node.lineno}", key, "after the equations are lowered nothing re-types complex graph inputs that no plugin consumed: an unused complex argument stays a native COMPLEX64/128 input "
                              "(the property promises a trailing pair of reals; ONNX Runtime refuses the model)", fi.qualname)
    fout = idx.func(CTXF, "IRContext.add_outputs_from_vars")
    key = f"{CTXF}::{fout.qualname}::complex-constant-payload"
    branches = [i for i in ast.walk(fout.node) if isinstance(i, ast.If) and _mentions_complex(i.test) and any(isinstance(a, ast.Assign) and any(isinstance(t, ast.Attribute) and t.attr == "type" for t in a.targets) for a in ast.walk(i))]
    if not branches:
        raise AnalysisError("R-C05k: add_outputs_from_vars has no branch that declares complex results (moved?)")
    br = branches[0]

    def handles_payload(nodes: List[ast.AST], depth: int = 0) -> bool:
        for n_ in nodes:
            for x in ast.walk(n_):
                if isinstance(x, ast.Assign) and any(isinstance(t, ast.Attribute) and t.attr == "const_value" for t in x.targets):
                    return True
                if depth < 2 and isinstance(x, ast.Call):
                    nm = (call_name(x) or "").split(".")[-1]
                    for g in ctxm.funcs.values():
                        if g.name == nm and g is not fout and handles_payload(list(g.node.body), depth + 1):
                            return True
        return False

    if handles_payload(list(br.body)):
        res.ok("R-C05k", f"{CTXF}:{br.lineno}", key, "the complex branch stores a constant's payload as the pair it declares", fout.qualname)
    else:
        res.violation("R-C05k", f"{CTXF}:{br.lineno}", key, "the complex branch re-stamps type and shape of the result value only: a complex constant returned as a result leaf is declared FLOAT [..., 2] over a COMPLEX payload", fout.qualname)
