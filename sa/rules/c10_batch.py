"""C10 R-C10e — batching rules address the axes of ONE example (axis-label abstract evaluation).

Every batching rule a plugin installs for a primitive with axis-like parameters is interpreted (sa.batchsem) on
labelled arrays for every per-example rank 1..3, every position of the batch dimension and every in-range value of
the axis parameters (both signs, tuples, None where the parameter admits it).  A case is a VIOLATION when

  * a sink (re-bind on the batched operand / original function under jax.vmap / jax.lax call) acts on the batch axis,
  * jax.vmap maps over an axis that is not the batch axis,
  * the returned batch dimension does not name the batch axis of the result, or
  * the result, with the batch axis taken out, is laid out differently from the per-example call's result.

Which values reach the primitive is read from the wrapper's own bind site: a parameter that is handed on as the
caller wrote it (`axis=int(axis)`) can be negative; one that is visibly canonicalised (`% rank`, `+= rank`,
`_normalize_axis(…)`) cannot; anything else leaves the negative classes UNRESOLVED instead of alarming.
"""
from __future__ import annotations

import ast
import itertools
import re
from typing import Any, Dict, Iterable, List, Optional, Sequence, Set, Tuple

from ..batchsem import Opaque, Spec, run_rule
from ..flow import defuse, names_in
from ..guards import path_conditions, src
from ..index import AnalysisError, FuncInfo, Index, call_name, dotted, parents, walk_no_nested
from ..report import Results

PJ = "jax2onnx/plugins/jax/"

# file -> (Spec, domain kind, domain parameter(s), fixed extra parameters)
RULES: Dict[str, Dict[str, Any]] = {
    PJ + "nn/glu.py": dict(spec=Spec("preserve", {"axis": "axis"}), dom="axis", param="axis"),
    PJ + "nn/softmax.py": dict(spec=Spec("preserve", {"axis": "axis"}), dom="axis", param="axis", extra={"has_where": False}),
    PJ + "nn/log_softmax.py": dict(spec=Spec("preserve", {"axis": "axis"}), dom="axis", param="axis"),
    PJ + "nn/hardmax.py": dict(spec=Spec("preserve", {"axis": "axis"}), dom="axis", param="axis"),
    PJ + "nn/one_hot.py": dict(spec=Spec("insert", {"axis": "axis"}), dom="axis_out", param="axis", extra={"num_classes": 13}),
    PJ + "nn/logsumexp.py": dict(spec=Spec("reduce", {"axes": "axes", "keepdims": "keepdims"}, orig={"axis": "axes", "keepdims": "keepdims"}), dom="axes", param="axes"),
    PJ + "nn/logmeanexp.py": dict(spec=Spec("reduce", {"axes": "axes", "keepdims": "keepdims"}, orig={"axis": "axes", "keepdims": "keepdims"}), dom="axes", param="axes"),
    PJ + "numpy/mean.py": dict(spec=Spec("reduce", {"axes": "axes", "keepdims": "keepdims"}, orig={"axis": "axes", "keepdims": "keepdims"}), dom="axes", param="axes"),
    PJ + "numpy/prod.py": dict(spec=Spec("reduce", {"axes": "axes", "keepdims": "keepdims"}, orig={"axis": "axes", "keepdims": "keepdims"}), dom="axes", param="axes"),
    PJ + "numpy/_reduction_utils.py": dict(spec=Spec("reduce", {"axes": "axes", "keepdims": "keepdims"}, orig={"axis": "axes", "keepdims": "keepdims"}), dom="axes", param="axes", nested="_batch_rule"),
    PJ + "numpy/linalg_norm.py": dict(spec=Spec("reduce", {"axes": "axes", "keepdims": "keepdims"}, orig={"axis": "axes", "keepdims": "keepdims"}), dom="axes", param="axes", no_none=True),
    PJ + "numpy/argmax.py": dict(spec=Spec("reduce", {"axes": "axes", "keepdims": "keepdims"}, orig={"axis": "axes", "keepdims": "keepdims"}), dom="axes1", param="axes"),
    PJ + "numpy/argmin.py": dict(spec=Spec("reduce", {"axes": "axes", "keepdims": "keepdims"}, orig={"axis": "axes", "keepdims": "keepdims"}), dom="axes1", param="axes"),
    PJ + "numpy/size.py": dict(spec=Spec("size", {"axes": "axes"}, orig={"axis": "axes"}), dom="axes", param="axes", result_unmapped_ok=True),
    PJ + "numpy/sort.py": dict(spec=Spec("preserve", {"axis": "axis"}), dom="axis", param="axis"),
    PJ + "numpy/cumsum.py": dict(spec=Spec("preserve", {"axis": "axis"}, const={"_none_all": True}), dom="axis", param="axis", none=True),
    PJ + "numpy/cumprod.py": dict(spec=Spec("preserve", {"axis": "axis"}, const={"_none_flattens": True}), dom="axis", param="axis", none=True),
    PJ + "numpy/nancumprod.py": dict(spec=Spec("preserve", {"axis": "axis"}, const={"_none_flattens": True}), dom="axis", param="axis", none=True),
    PJ + "numpy/concatenate.py": dict(spec=Spec("concat", {"dimension": "axis", "axis": "axis"}, orig={"axis": "axis"}), dom="axis", param="dimension", operands=2),
    PJ + "numpy/stack.py": dict(spec=Spec("stack", {"axis": "axis"}), dom="axis_out", param="axis", operands=2),
    PJ + "numpy/squeeze.py": dict(spec=Spec("squeeze", {"dimensions": "axes", "axes": "axes", "axis": "axes"}, orig={"axis": "axes"}), dom="squeeze", param="dimensions"),
    PJ + "numpy/transpose.py": dict(spec=Spec("transpose", {"permutation": "axes", "axes": "axes"}, orig={"axes": "axes"}), dom="perm", param="permutation"),
    PJ + "numpy/moveaxis.py": dict(spec=Spec("transpose", {"permutation": "axes"}), dom="perm", param="permutation"),
    PJ + "numpy/split.py": dict(spec=Spec("split", {"axis": "axis"}, const={"_n": 1}), dom="axis", param="axis", extra={"sizes": None, "indices_or_sections": 1}),
    PJ + "numpy/unstack.py": dict(spec=Spec("unstack", {"axis": "axis"}), dom="axis", param="axis"),
    PJ + "numpy/take.py": dict(spec=Spec("take", {"axis": "axis"}), dom="axis", param="axis", operands="take", none=True),
    PJ + "numpy/diagonal.py": dict(spec=Spec("diagonal", {"axis1": "axis1", "axis2": "axis2"}), dom="axis12", param="axis1"),
    PJ + "numpy/linspace.py": dict(spec=Spec("linspace", {"axis": "axis"}), dom="axis_out", param="axis", operands="linspace"),
}

_CANON_CALL = re.compile(r"normal|canonical|_resolve|validate_axis|_axis_arg", re.I)


def _rule_functions(idx: Index, rel: str, entry: Dict[str, Any]) -> List[FuncInfo]:
    m = idx.by_rel.get(rel)
    if m is None:
        return []
    out: List[FuncInfo] = []
    if entry.get("nested"):
        out = [f for q, f in m.funcs.items() if q.endswith(".<locals>." + entry["nested"])]
        return out
    names: Set[str] = set()
    for n in ast.walk(m.tree):
        if isinstance(n, ast.Assign) and len(n.targets) == 1 and isinstance(n.targets[0], ast.Subscript) and "primitive_batchers" in (dotted(n.targets[0].value) or ""):
            if isinstance(n.value, ast.Name):
                names.add(n.value.id)
    for nm in sorted(names):
        f = m.funcs.get(nm)
        if f is not None:
            out.append(f)
    return out


def bind_domain(idx: Index, rel: str, rule_fns: List[FuncInfo], prim_params: Iterable[str]) -> Tuple[str, str, bool]:
    """How the wrapper hands the axis parameter to the primitive: ("passthrough" | "canonical" | "unknown", site, None can be bound)."""
    m = idx.by_rel[rel]
    rule_nodes = {id(f.node) for f in rule_fns}
    verdicts: List[Tuple[str, str, bool]] = []
    keys = set(prim_params)
    for fi in m.funcs.values():
        if id(fi.node) in rule_nodes or any(id(p) in rule_nodes for p in parents(fi.node)):
            continue
        for c in walk_no_nested(fi.node):
            if not (isinstance(c, ast.Call) and isinstance(c.func, ast.Attribute) and c.func.attr == "bind" and (dotted(c.func.value) or "").endswith("_PRIM")):
                continue
            for k in c.keywords:
                if k.arg not in keys:
                    continue
                du = defuse(fi.node)
                clo = du.closure(names_in(k.value)) | names_in(k.value)
                exprs: List[ast.AST] = [k.value]
                aug = False
                for nm in clo:
                    for d in du.defs.get(nm, []):
                        if d.value is not None:
                            exprs.append(d.value)
                        if d.kind == "aug":
                            aug = True
                canonical = aug
                plain = True
                for e in exprs:
                    for x in ast.walk(e):
                        if isinstance(x, ast.BinOp) and isinstance(x.op, ast.Mod):
                            canonical = True
                        if isinstance(x, ast.BinOp) and isinstance(x.op, ast.Add) and re.search(r"rank|ndim|len\(", ast.unparse(x)):
                            canonical = True
                        if isinstance(x, ast.Call):
                            cn = call_name(x) or ""
                            if _CANON_CALL.search(cn):
                                canonical = True
                            if cn.split(".")[-1] not in ("int", "tuple", "list", "index", "asarray", "bool"):
                                plain = False
                        if isinstance(x, (ast.BinOp, ast.Subscript, ast.ListComp, ast.GeneratorExp)) and not (isinstance(x, ast.Subscript)):
                            if isinstance(x, ast.BinOp):
                                plain = False
                # a guard that compares the value with a canonical range counts as canonicalisation
                for t, want in path_conditions(c):
                    if names_in(t) & clo and re.search(r"range\(", ast.unparse(t)):
                        canonical = True
                none_ok = True
                for t, want in path_conditions(c):
                    if isinstance(t, ast.Compare) and len(t.ops) == 1 and isinstance(t.comparators[0], ast.Constant) and t.comparators[0].value is None and names_in(t.left) & clo:
                        if (isinstance(t.ops[0], ast.Is) and not want) or (isinstance(t.ops[0], ast.IsNot) and want):
                            none_ok = False
                site = f"{rel}:{c.lineno}"
                verdicts.append(("canonical" if canonical else ("passthrough" if plain else "unknown"), site, none_ok))
    if not verdicts:
        return "unknown", f"{rel}:1", False
    for want in ("passthrough", "unknown", "canonical"):
        hit = [v for v in verdicts if v[0] == want]
        if hit:
            return want, hit[0][1], any(v[2] for v in verdicts)
    return "unknown", verdicts[0][1], False


def _ex_labels(r: int) -> Tuple[str, ...]:
    return tuple(f"e{i}" for i in range(r))


def _cases(entry: Dict[str, Any], fi: FuncInfo) -> Iterable[Tuple[List[Optional[Tuple[str, ...]]], List[Optional[int]], Dict[str, Any], str]]:
    """(example labels per operand, batch dims, parameters, axis class)"""
    dom, param = entry["dom"], entry["param"]
    a = fi.node.args  # type: ignore[attr-defined]
    kwonly = {x.arg: d for x, d in zip(a.kwonlyargs, a.kw_defaults)}
    has_keepdims = "keepdims" in kwonly or a.kwarg is not None and entry["spec"].kind == "reduce"
    base: Dict[str, Any] = {}
    for nm, d in kwonly.items():
        if d is None and nm != param and nm != "keepdims":
            base[nm] = Opaque(nm)
    base.update(entry.get("extra", {}))

    def cls_of(v: Any) -> str:
        if v is None:
            return "none"
        vs = v if isinstance(v, (tuple, list)) else (v,)
        return "negative" if any(isinstance(x, int) and x < 0 for x in vs) else "nonneg"

    for r in (1, 2, 3):
        L = _ex_labels(r)
        ops: List[Tuple[List[Optional[Tuple[str, ...]]], List[List[Optional[int]]]]] = []
        kind_ops = entry.get("operands", 1)
        if kind_ops == 1:
            ops = [([L], [[bd] for bd in range(r + 1)])]
        elif kind_ops == 2:
            bds = [[b0, b1] for b0 in list(range(r + 1)) + [None] for b1 in list(range(r + 1)) + [None] if not (b0 is None and b1 is None)]
            ops = [([L, L], bds)]
        elif kind_ops == "take":
            I = ("i0",)
            bds = [[b0, b1] for b0 in list(range(r + 1)) + [None] for b1 in (0, 1, None) if not (b0 is None and b1 is None)]
            ops = [([L, I], bds)]
        elif kind_ops == "linspace":
            if r > 2:
                continue
            S = _ex_labels(r - 1)
            bds = [[b0, b1] for b0 in list(range(r)) + [None] for b1 in list(range(r)) + [None] if not (b0 is None and b1 is None)]
            ops = [([S, S], bds)]
            L = S
        vals: List[Any]
        rr = len(L)
        if dom == "axis":
            vals = list(range(-rr, rr)) + ([None] if entry.get("none") else [])
        elif dom == "axis_out":
            vals = list(range(-rr - 1, rr + 1))
        elif dom == "axes1":
            vals = [(x,) for x in range(-rr, rr)]
        elif dom == "axes":
            vals = [(x,) for x in range(-rr, rr)]
            vals += [(x, y) for x in range(-rr, rr) for y in range(-rr, rr) if x % rr != y % rr][:12]
            if not entry.get("no_none"):
                vals.append(None)
        elif dom == "perm":
            vals = [tuple(p) for p in itertools.permutations(range(rr))]
            vals += [tuple(x - rr for x in p) for p in list(itertools.permutations(range(rr)))[:2]]
        elif dom == "axis12":
            if rr < 2:
                continue
            vals = [(x, y) for x in range(-rr, rr) for y in range(-rr, rr) if x % rr != y % rr]
        elif dom == "squeeze":
            vals = []
        else:
            raise AnalysisError(f"unknown domain kind {dom}")
        if dom == "squeeze":
            # per-example layouts with unit axes
            layouts = [("u0", "e0"), ("e0", "u0"), ("e0", "u0", "e1"), ("u0", "e0", "u1")]
            for Lq in layouts:
                if len(Lq) != r + 1 and not (r == 1 and len(Lq) == 2):
                    continue
                units = [i for i, l in enumerate(Lq) if l.startswith("u")]
                sels: List[Any] = [None] + [(u,) for u in units] + [(u - len(Lq),) for u in units] + ([tuple(units)] if len(units) > 1 else [])
                for bd in range(len(Lq) + 1):
                    for v in sels:
                        p = dict(base)
                        p[param] = v
                        yield [Lq], [bd], p, cls_of(v)
            continue
        for labels, bdlist in ops:
            for bds in bdlist:
                for v in vals:
                    kd = (False, True) if has_keepdims and entry["spec"].kind == "reduce" else (None,)
                    for k in kd:
                        p = dict(base)
                        if dom == "axis12":
                            p["axis1"], p["axis2"] = v
                            p.setdefault("offset", 0)
                        else:
                            p[param] = v
                        if k is not None:
                            p["keepdims"] = k
                        yield labels, bds, p, cls_of(v)


def run_batch_rules(res: Results, idx: Index, tier: str) -> None:
    res.rule("R-C10e", "batching rules address the axes of one example: no sink acts on the batch axis, the returned batch dimension names it, and the per-example layout of the result equals the original call's (axis-label abstract evaluation, ranks 1..3)", floor=60)
    res.assumptions += ["R-C10e: per-example ranks 1..3, one batch axis; axis arithmetic is evaluated exactly on that domain, values computed by the operators are not"]
    n_rules = 0
    n_cases = 0
    for rel, entry in sorted(RULES.items()):
        fns = _rule_functions(idx, rel, entry)
        if not fns:
            if idx.by_rel.get(rel) is None:
                continue
            res.unresolved("R-C10e", f"{rel}:1", f"{rel}::<no-rule>", "no batching rule registered by name in this module any more", "<module>")
            continue
        status, bsite, none_bound = bind_domain(idx, rel, fns, [k for k, v in entry["spec"].prim.items() if v in ("axis", "axes", "axis1", "axis2")])
        for fi in fns:
            n_rules += 1
            buckets: Dict[Tuple[str, str], Dict[str, List[str]]] = {}
            for labels, bds, p, acls in _cases(entry, fi):
                mapped = [b for b in bds if b is not None]
                bcls = "front" if all(b == 0 for b in mapped) else "inner"
                st, de = run_rule(idx, fi, entry["spec"], labels, bds, p)
                n_cases += 1
                if st == "VIOLATION" and entry.get("result_unmapped_ok") and "reports it as not mapped" in de:
                    st = "OK"
                shown = {k: v for k, v in p.items() if not isinstance(v, Opaque)}
                buckets.setdefault((acls, bcls), {}).setdefault(st, []).append(f"example axes {labels[0]}{'/' + str(labels[1]) if len(labels) > 1 else ''}, batch dims {tuple(bds)}, {', '.join(f'{k}={v!r}' for k, v in sorted(shown.items()))}: {de}")
            for (acls, bcls), by in sorted(buckets.items()):
                key = f"{rel}::{fi.name}::{entry['param']}::{acls}::{bcls}"
                site = fi.site
                n_ok = len(by.get("OK", []))
                if by.get("VIOLATION"):
                    ex = by["VIOLATION"]
                    msg = f"{len(ex)} of {sum(len(v) for v in by.values())} cases wrong, e.g. " + " | ".join(ex[:2])
                    reach = True
                    why = ""
                    if acls == "negative" and status != "passthrough":
                        reach, why = False, (f"the wrapper canonicalises the parameter before binding ({bsite})" if status == "canonical" else f"whether negative values reach the primitive is not visible at the bind site ({bsite})")
                    if acls == "none" and not (status == "passthrough" and none_bound):
                        reach, why = False, f"whether None reaches the primitive is not visible at the bind site ({bsite})"
                    if reach:
                        res.violation("R-C10e", site, key, msg + (f" — the wrapper binds the caller's value unchanged at {bsite}" if acls != "nonneg" else ""), fi.qualname)
                    elif status == "canonical" and acls == "negative":
                        res.ok("R-C10e", site, key, f"negative values do not reach the rule: {why}", fi.qualname)
                    else:
                        res.unresolved("R-C10e", site, key, f"{msg} — {why}", fi.qualname)
                elif by.get("UNRESOLVED"):
                    res.unresolved("R-C10e", site, key, by["UNRESOLVED"][0], fi.qualname)
                elif n_ok:
                    res.ok("R-C10e", site, key, f"{n_ok} cases; e.g. {by['OK'][0][:200]}", fi.qualname)
    res.analysed["batching_rules_evaluated"] = n_rules
    res.analysed["batching_rule_cases"] = n_cases
    if n_rules < 20:
        raise AnalysisError(f"only {n_rules} batching rules with axis parameters found (28 on the confirmed tree)")
    # positive control: a rule that shifts a non-negative axis but forgets negative ones
    ctl_src = (
        "def _ctl_rule(batched_args, batch_dims, *, axis=-1):\n"
        "    (x,), (bdim,) = batched_args, batch_dims\n"
        "    x_front = batching.bdim_at_front(x, bdim, x.shape[bdim])\n"
        "    return CtlPlugin._PRIM.bind(x_front, axis=axis + 1), 0\n")
    any_mod = next(iter(idx.by_rel.values()))
    node = ast.parse(ctl_src).body[0]
    cfi = FuncInfo(node=node, module=any_mod, qualname="_ctl_rule", cls=None, parent_func=None)
    st, de = run_rule(idx, cfi, Spec("preserve", {"axis": "axis"}), [("e0", "e1")], [0], {"axis": -1})
    st2, _ = run_rule(idx, cfi, Spec("preserve", {"axis": "axis"}), [("e0", "e1")], [0], {"axis": 1})
    res.control("R-C10e", "a synthetic rule that shifts the axis by one without canonicalising a negative value is reported for axis=-1 and accepted for axis=1", st == "VIOLATION" and st2 == "OK", de)
