"""C10 R-C10e — batching rules address the axes of ONE example (axis-label abstract evaluation).

Every batching rule a plugin installs for a primitive with axis-like parameters is interpreted (sa.batchsem) on
labelled arrays for every per-example rank 1..3, every position of the batch dimension and every in-range value of
the axis parameters (both signs, tuples, None where the parameter admits it).  A case is a VIOLATION when

  * a sink (re-bind on the batched operand / original function under jax.vmap / jax.lax call) acts on the batch axis,
  * jax.vmap maps over an axis that is not the batch axis,
  * the returned batch dimension does not name the batch axis of the result, or
  * the result, with the batch axis taken out, is laid out differently from the per-example call's result.

Which values reach the primitive is read from the wrapper's own bind site: a parameter that is handed on as the
caller wrote it (`axis=int(axis)`) can be negative; one that is visibly canonicalised (`% rank`, `+= rank`,
`_normalize_axis(…)`) cannot; anything else leaves the negative classes UNRESOLVED instead of alarming.
"""
from __future__ import annotations

import ast
import itertools
import re
from typing import Any, Dict, Iterable, List, Optional, Sequence, Set, Tuple

from ..batchsem import Opaque, Spec, run_rule
from ..flow import defuse, names_in
from ..guards import path_conditions, src
from ..index import AnalysisError, FuncInfo, Index, call_name, dotted, parents, walk_no_nested
from ..report import Results

PJ = "jax2onnx/plugins/jax/"
PE = "jax2onnx/plugins/equinox/eqx/nn/"

# file -> (Spec, domain kind, domain parameter(s), fixed extra parameters)
RULES: Dict[str, Dict[str, Any]] = {
    PJ + "nn/glu.py": dict(spec=Spec("preserve", {"axis": "axis"}), dom="axis", param="axis"),
    PJ + "nn/softmax.py": dict(spec=Spec("preserve", {"axis": "axis"}), dom="axis", param="axis", extra={"has_where": False}),
    PJ + "nn/log_softmax.py": dict(spec=Spec("preserve", {"axis": "axis"}), dom="axis", param="axis"),
    PJ + "nn/hardmax.py": dict(spec=Spec("preserve", {"axis": "axis"}), dom="axis", param="axis"),
    PJ + "nn/one_hot.py": dict(spec=Spec("insert", {"axis": "axis"}), dom="axis_out", param="axis", extra={"num_classes": 13}),
    PJ + "nn/logsumexp.py": dict(spec=Spec("reduce", {"axes": "axes", "keepdims": "keepdims"}, orig={"axis": "axes", "keepdims": "keepdims"}), dom="axes", param="axes"),
    PJ + "nn/logmeanexp.py": dict(spec=Spec("reduce", {"axes": "axes", "keepdims": "keepdims"}, orig={"axis": "axes", "keepdims": "keepdims"}), dom="axes", param="axes"),
    PJ + "numpy/mean.py": dict(spec=Spec("reduce", {"axes": "axes", "keepdims": "keepdims"}, orig={"axis": "axes", "keepdims": "keepdims"}), dom="axes", param="axes"),
    PJ + "numpy/prod.py": dict(spec=Spec("reduce", {"axes": "axes", "keepdims": "keepdims"}, orig={"axis": "axes", "keepdims": "keepdims"}), dom="axes", param="axes"),
    PJ + "numpy/_reduction_utils.py": dict(spec=Spec("reduce", {"axes": "axes", "keepdims": "keepdims"}, orig={"axis": "axes", "keepdims": "keepdims"}), dom="axes", param="axes", nested="_batch_rule"),
    PJ + "numpy/linalg_norm.py": dict(spec=Spec("reduce", {"axes": "axes", "keepdims": "keepdims"}, orig={"axis": "axes", "keepdims": "keepdims"}), dom="axes", param="axes", no_none=True),
    PJ + "numpy/argmax.py": dict(spec=Spec("reduce", {"axes": "axes", "keepdims": "keepdims"}, orig={"axis": "axes", "keepdims": "keepdims"}), dom="axes1", param="axes"),
    PJ + "numpy/argmin.py": dict(spec=Spec("reduce", {"axes": "axes", "keepdims": "keepdims"}, orig={"axis": "axes", "keepdims": "keepdims"}), dom="axes1", param="axes"),
    PJ + "numpy/size.py": dict(spec=Spec("size", {"axes": "axes"}, orig={"axis": "axes"}), dom="axes", param="axes", result_unmapped_ok=True),
    PJ + "numpy/sort.py": dict(spec=Spec("preserve", {"axis": "axis"}), dom="axis", param="axis"),
    PJ + "numpy/cumsum.py": dict(spec=Spec("preserve", {"axis": "axis"}, const={"_none_all": True}), dom="axis", param="axis", none=True),
    PJ + "numpy/cumprod.py": dict(spec=Spec("preserve", {"axis": "axis"}, const={"_none_flattens": True}), dom="axis", param="axis", none=True),
    PJ + "numpy/nancumprod.py": dict(spec=Spec("preserve", {"axis": "axis"}, const={"_none_flattens": True}), dom="axis", param="axis", none=True),
    PJ + "numpy/concatenate.py": dict(spec=Spec("concat", {"dimension": "axis", "axis": "axis"}, orig={"axis": "axis"}), dom="axis", param="dimension", operands=2),
    PJ + "numpy/stack.py": dict(spec=Spec("stack", {"axis": "axis"}), dom="axis_out", param="axis", operands=2),
    PJ + "numpy/squeeze.py": dict(spec=Spec("squeeze", {"dimensions": "axes", "axes": "axes", "axis": "axes"}, orig={"axis": "axes"}), dom="squeeze", param="dimensions"),
    PJ + "numpy/transpose.py": dict(spec=Spec("transpose", {"permutation": "axes", "axes": "axes"}, orig={"axes": "axes"}), dom="perm", param="permutation"),
    PJ + "numpy/moveaxis.py": dict(spec=Spec("transpose", {"permutation": "axes"}), dom="perm", param="permutation"),
    PJ + "numpy/split.py": dict(spec=Spec("split", {"axis": "axis"}, const={"_n": 1}), dom="axis", param="axis", extra={"sizes": None, "indices_or_sections": 1}),
    PJ + "numpy/unstack.py": dict(spec=Spec("unstack", {"axis": "axis"}), dom="axis", param="axis"),
    PJ + "numpy/take.py": dict(spec=Spec("take", {"axis": "axis"}), dom="axis", param="axis", operands="take", none=True),
    PJ + "numpy/diagonal.py": dict(spec=Spec("diagonal", {"axis1": "axis1", "axis2": "axis2"}), dom="axis12", param="axis1"),
    PJ + "nn/standardize.py": dict(spec=Spec("along", {"axis": "axes"}), dom="axes", param="axis"),
    # modules whose operand's trailing axes carry meaning (normalised shape, contracted feature axis, channel / spatial axes):
    PE + "layer_norm.py": dict(spec=Spec("trailing", {}), dom="none", param="-", operands="x+params"),
    PE + "rms_norm.py": dict(spec=Spec("trailing", {}), dom="none", param="-", operands="x+params"),
    PE + "linear.py": dict(spec=Spec("trailing", {}, const={"_k": 1}), dom="none", param="-", operands="x+params"),
    PE + "conv.py": dict(spec=Spec("trailing", {}), dom="none", param="-", operands="x+params"),
    PE + "pool.py": dict(spec=Spec("trailing", {}), dom="none", param="-", operands="x+params"),
    PE + "max_pool.py": dict(spec=Spec("trailing", {}), dom="none", param="-", operands="x+params"),
    PE + "avg_pool.py": dict(spec=Spec("trailing", {}), dom="none", param="-", operands="x+params"),
    PE + "adaptive_pool.py": dict(spec=Spec("trailing", {}), dom="none", param="-", operands="x+params", extra={"target_shape": (2,)}),
    PE + "rotary_positional_embedding.py": dict(spec=Spec("trailing", {}), dom="none", param="-", operands="x+params"),
    "jax2onnx/plugins/dm_pix/depth_to_space.py": dict(spec=Spec("trailing", {}, const={"_opaque_callee": ("_depth_to_space_impl",)}), dom="none", param="-", operands="x+params", extra={"block_size": 2}),
    "jax2onnx/plugins/dm_pix/space_to_depth.py": dict(spec=Spec("trailing", {}, const={"_opaque_callee": ("_space_to_depth_impl",)}), dom="none", param="-", operands="x+params", extra={"block_size": 2}),
    PJ + "numpy/matmul.py": dict(spec=Spec("matmul", {}), dom="none", param="-", operands="contract"),
    PJ + "numpy/dot.py": dict(spec=Spec("dot", {}), dom="none", param="-", operands="contract"),
    PJ + "numpy/trilu.py": dict(spec=Spec("trailing", {}, const={"_k": 2}), dom="none", param="-", operands="x+params"),
    PJ + "numpy/pad.py": dict(spec=Spec("whole", {}), dom="none", param="-", operands="x+params", extra={"pad_width": ((1, 1),), "constant_value": 0}),
    PJ + "numpy/diag.py": dict(spec=Spec("diag", {}), dom="none", param="-", operands="x+params"),
    PJ + "numpy/outer.py": dict(spec=Spec("outer", {}), dom="none", param="-", operands="pair"),
    PJ + "numpy/searchsorted.py": dict(spec=Spec("second", {}), dom="none", param="-", operands="table+queries"),
    # @onnx_function primitives: the original callable is evaluated per example under jax.vmap (C10 anchor `FunctionPlugin._batching_rule`)
    "jax2onnx/plugins/plugin_system.py": dict(spec=Spec("elementwise", {}, const={"_opaque_callee": ("original_fn",)}), dom="none", param="-", operands="two-any", func="FunctionPlugin._batching_rule"),
    PJ + "nn/dot_product_attention.py": dict(spec=Spec("attention", {"has_bias": "has_bias", "has_mask": "has_mask"}, const={"_stretch_names": {41: "n0"}}), dom="none", param="-", operands="attention"),
    PJ + "numpy/einsum.py": dict(spec=Spec("einsum", {"equation": "equation"}, orig={}, orig_pos=("equation",), const={"_stretch_names": {7: "B"}}), dom="none", param="-", operands="einsum"),
    PJ + "numpy/tile.py": dict(spec=Spec("tile", {"reps": "reps", "repeats": "reps"}), dom="reps", param="reps"),
    PE + "group_norm.py": dict(spec=Spec("preserve", {"channel_axis": "axis"}), dom="axis", param="channel_axis", operands="x+params", extra={"batch_rank": 0, "num_groups": 1, "epsilon": 1e-5}),
    PE + "multihead_attention.py": dict(spec=Spec("trailing_all", {}), dom="none", param="-", operands="mha"),
    PJ + "numpy/linspace.py": dict(spec=Spec("linspace", {"axis": "axis"}), dom="axis_out", param="axis", operands="linspace"),
}

_CANON_CALL = re.compile(r"normal|canonical|_resolve|validate_axis|_axis_arg", re.I)


def _rule_functions(idx: Index, rel: str, entry: Dict[str, Any]) -> List[FuncInfo]:
    m = idx.by_rel.get(rel)
    if m is None:
        return []
    out: List[FuncInfo] = []
    if entry.get("func"):
        f = m.funcs.get(entry["func"])
        return [f] if f is not None else []
    if entry.get("nested"):
        out = [f for q, f in m.funcs.items() if q.endswith(".<locals>." + entry["nested"])]
        return out
    names: Set[str] = set()
    for n in ast.walk(m.tree):
        if isinstance(n, ast.Assign) and len(n.targets) == 1 and isinstance(n.targets[0], ast.Subscript) and "primitive_batchers" in (dotted(n.targets[0].value) or ""):
            if isinstance(n.value, ast.Name):
                names.add(n.value.id)
    for nm in sorted(names):
        f = m.funcs.get(nm)
        if f is not None:
            out.append(f)
    return out


def bind_domain(idx: Index, rel: str, rule_fns: List[FuncInfo], prim_params: Iterable[str]) -> Tuple[str, str, bool]:
    """How the wrapper hands the axis parameter to the primitive: ("passthrough" | "canonical" | "unknown", site, None can be bound)."""
    m = idx.by_rel[rel]
    rule_nodes = {id(f.node) for f in rule_fns}
    verdicts: List[Tuple[str, str, bool]] = []
    keys = set(prim_params)
    for fi in m.funcs.values():
        if id(fi.node) in rule_nodes or any(id(p) in rule_nodes for p in parents(fi.node)):
            continue
        for c in walk_no_nested(fi.node):
            if not (isinstance(c, ast.Call) and isinstance(c.func, ast.Attribute) and c.func.attr == "bind" and (dotted(c.func.value) or "").endswith("_PRIM")):
                continue
            for k in c.keywords:
                if k.arg not in keys:
                    continue
                du = defuse(fi.node)
                clo = du.closure(names_in(k.value)) | names_in(k.value)
                exprs: List[ast.AST] = [k.value]
                aug = False
                for nm in clo:
                    for d in du.defs.get(nm, []):
                        if d.value is not None:
                            exprs.append(d.value)
                        if d.kind == "aug":
                            aug = True
                canonical = aug
                plain = True
                for e in exprs:
                    for x in ast.walk(e):
                        if isinstance(x, ast.BinOp) and isinstance(x.op, ast.Mod):
                            canonical = True
                        if isinstance(x, ast.BinOp) and isinstance(x.op, ast.Add) and re.search(r"rank|ndim|len\(", ast.unparse(x)):
                            canonical = True
                        if isinstance(x, ast.Call):
                            cn = call_name(x) or ""
                            if _CANON_CALL.search(cn):
                                canonical = True
                            # dict plumbing (`given = dict(zip(names, rest)); axis = given.get("axis", axis)`) hands values on unchanged
                            if cn.split(".")[-1] not in ("int", "tuple", "list", "index", "asarray", "bool", "get", "pop", "dict", "zip"):
                                plain = False
                        if isinstance(x, (ast.BinOp, ast.Subscript, ast.ListComp, ast.GeneratorExp)) and not (isinstance(x, ast.Subscript)):
                            if isinstance(x, ast.BinOp):
                                plain = False
                # a guard that compares the value with a canonical range counts as canonicalisation
                for t, want in path_conditions(c):
                    if names_in(t) & clo and re.search(r"range\(", ast.unparse(t)):
                        canonical = True
                none_ok = True
                for t, want in path_conditions(c):
                    if isinstance(t, ast.Compare) and len(t.ops) == 1 and isinstance(t.comparators[0], ast.Constant) and t.comparators[0].value is None and names_in(t.left) & clo:
                        if (isinstance(t.ops[0], ast.Is) and not want) or (isinstance(t.ops[0], ast.IsNot) and want):
                            none_ok = False
                site = f"{rel}:{c.lineno}"
                verdicts.append(("canonical" if canonical else ("passthrough" if plain else "unknown"), site, none_ok))
    if not verdicts:
        return "unknown", f"{rel}:1", False
    for want in ("passthrough", "unknown", "canonical"):
        hit = [v for v in verdicts if v[0] == want]
        if hit:
            return want, hit[0][1], any(v[2] for v in verdicts)
    return "unknown", verdicts[0][1], False


def _ex_labels(r: int) -> Tuple[str, ...]:
    return tuple(f"e{i}" for i in range(r))


def _cases(entry: Dict[str, Any], fi: FuncInfo) -> Iterable[Tuple[List[Optional[Tuple[str, ...]]], List[Optional[int]], Dict[str, Any], str]]:
    """(example labels per operand, batch dims, parameters, axis class)"""
    dom, param = entry["dom"], entry["param"]
    a = fi.node.args  # type: ignore[attr-defined]
    kwonly = {x.arg: d for x, d in zip(a.kwonlyargs, a.kw_defaults)}
    has_keepdims = "keepdims" in kwonly or a.kwarg is not None and entry["spec"].kind == "reduce"
    base: Dict[str, Any] = {}
    for nm, d in kwonly.items():
        if d is None and nm != param and nm != "keepdims":
            base[nm] = Opaque(nm)
    base.update(entry.get("extra", {}))

    def cls_of(v: Any) -> str:
        if v is None:
            return "none"
        if v == "-":
            return "any"
        vs = v if isinstance(v, (tuple, list)) else (v,)
        return "negative" if any(isinstance(x, int) and x < 0 for x in vs) else "nonneg"

    for r in (1, 2, 3):
        L = _ex_labels(r)
        ops: List[Tuple[List[Optional[Tuple[str, ...]]], List[List[Optional[int]]]]] = []
        kind_ops = entry.get("operands", 1)
        if kind_ops == 1:
            ops = [([L], [[bd] for bd in range(r + 1)])]
        elif kind_ops == 2:
            bds = [[b0, b1] for b0 in list(range(r + 1)) + [None] for b1 in list(range(r + 1)) + [None] if not (b0 is None and b1 is None)]
            ops = [([L, L], bds)]
        elif kind_ops == "x+params":
            a0 = fi.node.args.args[0].arg  # type: ignore[attr-defined]
            n_ops = 1
            for st in fi.node.body:  # type: ignore[attr-defined]
                if isinstance(st, ast.Assign) and isinstance(st.value, ast.Name) and st.value.id == a0 and isinstance(st.targets[0], (ast.Tuple, ast.List)):
                    n_ops = len(st.targets[0].elts)
                if isinstance(st, ast.Assign) and isinstance(st.value, ast.Tuple) and st.value.elts and isinstance(st.value.elts[0], ast.Name) and st.value.elts[0].id == a0 \
                        and isinstance(st.targets[0], ast.Tuple) and isinstance(st.targets[0].elts[0], (ast.Tuple, ast.List)):
                    n_ops = len(st.targets[0].elts[0].elts)
            W = tuple(f"w{i}" for i in range(r))
            ops = [([L] + [W] * (n_ops - 1), [[bd] + [None] * (n_ops - 1) for bd in range(r + 1)])]
        elif kind_ops == "mha":
            if r != 2:
                continue
            W = ("w0", "w1")
            ops = [([L, L, L] + [W] * 8, [[bd, bd, bd] + [None] * 8 for bd in range(r + 1)])]
        elif kind_ops == "two-any":
            ops = [([L, L], [[b0, b1] for b0 in list(range(r + 1)) + [None] for b1 in list(range(r + 1)) + [None] if not (b0 is None and b1 is None)])]
        elif kind_ops == "pair":
            bds = [[b0, b1] for b0 in list(range(r + 1)) + [None] for b1 in (0, 1, None) if not (b0 is None and b1 is None)]
            ops = [([L, ("i0",)], bds)]
        elif kind_ops == "table+queries":
            ops = [([("k",), L], [[None, b] for b in range(r + 1)])]
        elif kind_ops == "attention":
            if r != 1:
                continue
            ops = []
            for lead in ((), ("n0",)):
                q_, k_ = lead + ("T", "N", "H"), lead + ("S", "N", "H")
                rq = len(q_)
                qkv_bds = [[b, b, b] for b in (0, 1, rq)]
                ops.append(([q_, k_, k_], qkv_bds))
                for side in (("T", "S"), ("N", "T", "S")) + ((lead + ("N", "T", "S"),) if lead else ()):
                    sb = [0, len(side), None]
                    ops.append(([q_, k_, k_, side], [[b, b, b, s] for b in (0, rq) for s in sb]))
        elif kind_ops == "einsum":
            if r != 1:
                continue
            ops = []
            for eq, labs in (("ij,jk->ik", [("e0", "k"), ("k", "e1")]), ("i,i->", [("k",), ("k",)]), ("nij,njk->nik", [("n0", "e0", "k"), ("n0", "k", "e1")]), ("ij->ji", [("e0", "e1")])):
                choices = [list(range(len(L_) + 1)) + [None] for L_ in labs]
                bdl = [list(c) for c in itertools.product(*choices) if not all(b is None for b in c)]
                ops.append((list(labs) + [eq], bdl))
        elif kind_ops == "contract":
            if r != 1:
                continue
            pairs = [(("k",), ("k",)), (("e0", "k"), ("k",)), (("k",), ("k", "e1")), (("e0", "k"), ("k", "e1")), (("b0", "k"), ("k", "b0"))]
            if entry["spec"].kind == "matmul":
                pairs.append((("e2", "e0", "k"), ("k", "e1")))
            ops = [([a_, b_], [[x, y] for x in list(range(len(a_) + 1)) + [None] for y in list(range(len(b_) + 1)) + [None] if not (x is None and y is None)]) for a_, b_ in pairs]
        elif kind_ops == "take":
            I = ("i0",)
            bds = [[b0, b1] for b0 in list(range(r + 1)) + [None] for b1 in (0, 1, None) if not (b0 is None and b1 is None)]
            ops = [([L, I], bds)]
        elif kind_ops == "linspace":
            if r > 2:
                continue
            S = _ex_labels(r - 1)
            bds = [[b0, b1] for b0 in list(range(r)) + [None] for b1 in list(range(r)) + [None] if not (b0 is None and b1 is None)]
            ops = [([S, S], bds)]
            L = S
        vals: List[Any]
        rr = len(L)
        if dom == "axis":
            vals = list(range(-rr, rr)) + ([None] if entry.get("none") else [])
        elif dom == "axis_out":
            vals = list(range(-rr - 1, rr + 1))
        elif dom == "axes1":
            vals = [(x,) for x in range(-rr, rr)]
        elif dom == "axes":
            vals = [(x,) for x in range(-rr, rr)]
            vals += [(x, y) for x in range(-rr, rr) for y in range(-rr, rr) if x % rr != y % rr][:12]
            if not entry.get("no_none"):
                vals.append(None)
        elif dom == "perm":
            vals = [tuple(p) for p in itertools.permutations(range(rr))]
            vals += [tuple(x - rr for x in p) for p in list(itertools.permutations(range(rr)))[:2]]
        elif dom == "axis12":
            if rr < 2:
                continue
            vals = [(x, y) for x in range(-rr, rr) for y in range(-rr, rr) if x % rr != y % rr]
        elif dom == "squeeze":
            vals = []
        elif dom == "none":
            vals = ["-"]
        elif dom == "reps":
            vals = [tuple([2] * k) for k in range(1, rr + 2)] + [tuple([1] * (rr - 1) + [3])]
        else:
            raise AnalysisError(f"unknown domain kind {dom}")
        if dom == "squeeze":
            # per-example layouts with unit axes
            layouts = [("u0", "e0"), ("e0", "u0"), ("e0", "u0", "e1"), ("u0", "e0", "u1")]
            for Lq in layouts:
                if len(Lq) != r + 1 and not (r == 1 and len(Lq) == 2):
                    continue
                units = [i for i, l in enumerate(Lq) if l.startswith("u")]
                sels: List[Any] = [None] + [(u,) for u in units] + [(u - len(Lq),) for u in units] + ([tuple(units)] if len(units) > 1 else [])
                for bd in range(len(Lq) + 1):
                    for v in sels:
                        p = dict(base)
                        p[param] = v
                        yield [Lq], [bd], p, cls_of(v)
            continue
        for labels, bdlist in ops:
            eq_ = None
            if labels and isinstance(labels[-1], str):
                eq_, labels = labels[-1], labels[:-1]
            for bds in bdlist:
                for v in vals:
                    kd = (False, True) if has_keepdims and entry["spec"].kind == "reduce" else (None,)
                    for k in kd:
                        p = dict(base)
                        if dom == "axis12":
                            p["axis1"], p["axis2"] = v
                            p.setdefault("offset", 0)
                        elif dom != "none":
                            p[param] = v
                        if k is not None:
                            p["keepdims"] = k
                        if eq_ is not None:
                            p["equation"] = eq_
                        if kind_ops == "attention":
                            p["has_bias"] = len(labels) == 4
                        yield labels, bds, p, cls_of(v)


def run_batch_rules(res: Results, idx: Index, tier: str) -> None:
    res.rule("R-C10e", "batching rules address the axes of one example: no sink acts on the batch axis, the returned batch dimension names it, and the per-example layout of the result equals the original call's (axis-label abstract evaluation, ranks 1..3)", floor=130)
    res.assumptions += ["R-C10e: per-example ranks 1..3, one batch axis; axis arithmetic is evaluated exactly on that domain, values computed by the operators are not"]
    n_rules = 0
    n_cases = 0
    for rel, entry in sorted(RULES.items()):
        fns = _rule_functions(idx, rel, entry)
        if not fns:
            if idx.by_rel.get(rel) is None:
                continue
            res.unresolved("R-C10e", f"{rel}:1", f"{rel}::<no-rule>", "no batching rule registered by name in this module any more", "<module>")
            continue
        status, bsite, none_bound = bind_domain(idx, rel, fns, [k for k, v in entry["spec"].prim.items() if v in ("axis", "axes", "axis1", "axis2")])
        owners_by_rule: Dict[str, Set[str]] = {}
        for node in ast.walk(idx.by_rel[rel].tree):
            if isinstance(node, ast.Assign) and len(node.targets) == 1 and isinstance(node.targets[0], ast.Subscript) and "primitive_batchers" in (dotted(node.targets[0].value) or "") and isinstance(node.value, ast.Name):
                o = _prim_owner_name(node.targets[0].slice)
                if o:
                    owners_by_rule.setdefault(node.value.id, set()).add(o)
        for fi in fns:
            n_rules += 1
            buckets: Dict[Tuple[str, str], Dict[str, List[str]]] = {}
            for labels, bds, p, acls in _cases(entry, fi):
                mapped = [b for b in bds if b is not None]
                bcls = "front" if all(b == 0 for b in mapped) else "inner"
                st, de = run_rule(idx, fi, entry["spec"], labels, bds, p, owners=owners_by_rule.get(fi.name))
                n_cases += 1
                if st == "VIOLATION" and entry.get("result_unmapped_ok") and "reports it as not mapped" in de:
                    st = "OK"
                shown = {k: v for k, v in p.items() if not isinstance(v, Opaque)}
                buckets.setdefault((acls, bcls), {}).setdefault(st, []).append(f"example axes {labels[0]}{'/' + str(labels[1]) if len(labels) > 1 else ''}, batch dims {tuple(bds)}, {', '.join(f'{k}={v!r}' for k, v in sorted(shown.items()))}: {de}")
            for (acls, bcls), by in sorted(buckets.items()):
                key = f"{rel}::{fi.name}::{entry['param']}::{acls}::{bcls}"
                site = fi.site
                n_ok = len(by.get("OK", []))
                if by.get("VIOLATION"):
                    ex = by["VIOLATION"]
                    msg = f"{len(ex)} of {sum(len(v) for v in by.values())} cases wrong, e.g. " + " | ".join(ex[:2])
                    reach = True
                    why = ""
                    if acls == "negative" and status != "passthrough":
                        reach, why = False, (f"the wrapper canonicalises the parameter before binding ({bsite})" if status == "canonical" else f"whether negative values reach the primitive is not visible at the bind site ({bsite})")
                    if acls == "none" and not (status == "passthrough" and none_bound):
                        reach, why = False, f"whether None reaches the primitive is not visible at the bind site ({bsite})"
                    if reach:
                        res.violation("R-C10e", site, key, msg + (f" — the wrapper binds the caller's value unchanged at {bsite}" if acls != "nonneg" else ""), fi.qualname)
                    elif status == "canonical" and acls == "negative":
                        res.ok("R-C10e", site, key, f"negative values do not reach the rule: {why}", fi.qualname)
                    else:
                        res.unresolved("R-C10e", site, key, f"{msg} — {why}", fi.qualname)
                elif by.get("UNRESOLVED"):
                    res.unresolved("R-C10e", site, key, by["UNRESOLVED"][0], fi.qualname)
                elif n_ok or by.get("REJECTED"):
                    n_rej = len(by.get("REJECTED", []))
                    if not n_ok:
                        res.ok("R-C10e", site, key, f"{n_rej} cases rejected loudly; e.g. {by['REJECTED'][0][:200]}", fi.qualname)
                        continue
                    res.ok("R-C10e", site, key, f"{n_ok} cases; e.g. {by['OK'][0][:200]}", fi.qualname)
    # rules that hand the operands to the shared broadcasting batcher: the batcher itself is evaluated through each of
    # them with operands of equal and of different rank (numpy broadcasting aligns trailing axes)
    bspec = Spec("broadcast", {})
    n_b = 0
    for m in idx.product_modules():
        if ".plugins." not in m.name or "primitive_batchers" not in m.src:
            continue
        for node in ast.walk(m.tree):
            if not (isinstance(node, ast.Assign) and len(node.targets) == 1 and isinstance(node.targets[0], ast.Subscript) and "primitive_batchers" in (dotted(node.targets[0].value) or "")):
                continue
            v = node.value
            rule = m.funcs.get(v.id) if isinstance(v, ast.Name) else None
            if isinstance(v, ast.Call) and isinstance(v.func, ast.Name) and m.funcs.get(v.func.id) is not None:
                inner = [f for q, f in m.funcs.items() if q.startswith(m.funcs[v.func.id].qualname + ".<locals>.")]
                rule = inner[0] if inner else None
            if rule is None or not _delegates_to_generic(rule) or m.rel in RULES:
                continue
            owner = _prim_owner_name(node.targets[0].slice) or "?"
            n_b += 1
            buckets2: Dict[str, Dict[str, List[str]]] = {}
            E2, E1, E0 = ("e0", "e1"), ("e1",), ()
            EB = ("b0", "e1")   # an extent equal to the batch size: equal shapes do not imply equal layouts
            for labels in ([E2, E2], [E2, E1], [E1, E2], [E2, E0], [E1, E1], [E2, E1, E2], [E2, E2, E1], [EB, EB]):
                choices = [list(range(len(L) + 1)) + [None] for L in labels]
                for bds in itertools.product(*choices):
                    if all(b is None for b in bds):
                        continue
                    st, de = run_rule(idx, rule, bspec, list(labels), list(bds), {})
                    n_cases += 1
                    cls = "equal-rank" if len({len(L) for L in labels}) == 1 else "mixed-rank"
                    buckets2.setdefault(cls, {}).setdefault(st, []).append(f"example axes {' / '.join(str(L) for L in labels)}, batch dims {tuple(bds)}: {de}")
            for cls, by in sorted(buckets2.items()):
                key = f"{m.rel}::{rule.name}::{owner}::broadcast::{cls}"
                if by.get("VIOLATION"):
                    ex = by["VIOLATION"]
                    res.violation("R-C10e", rule.site, key, f"{len(ex)} of {sum(len(x) for x in by.values())} cases wrong, e.g. " + " | ".join(ex[:2]), rule.qualname)
                elif by.get("UNRESOLVED"):
                    res.unresolved("R-C10e", rule.site, key, by["UNRESOLVED"][0], rule.qualname)
                else:
                    res.ok("R-C10e", rule.site, key, f"{len(by.get('OK', []))} cases; e.g. {by['OK'][0][:200]}", rule.qualname)
    res.analysed["broadcast_batcher_rules_evaluated"] = n_b
    res.analysed["batching_rules_evaluated"] = n_rules
    res.analysed["batching_rule_cases"] = n_cases
    if n_rules < 20:
        raise AnalysisError(f"only {n_rules} batching rules with axis parameters found (28 on the confirmed tree)")
    # positive control: a rule that shifts a non-negative axis but forgets negative ones
    ctl_src = (
        "def _ctl_rule(batched_args, batch_dims, *, axis=-1):\n"
        "    (x,), (bdim,) = batched_args, batch_dims\n"
        "    x_front = batching.bdim_at_front(x, bdim, x.shape[bdim])\n"
        "    return CtlPlugin._PRIM.bind(x_front, axis=axis + 1), 0\n")
    any_mod = next(iter(idx.by_rel.values()))
    node = ast.parse(ctl_src).body[0]
    cfi = FuncInfo(node=node, module=any_mod, qualname="_ctl_rule", cls=None, parent_func=None)
    st, de = run_rule(idx, cfi, Spec("preserve", {"axis": "axis"}), [("e0", "e1")], [0], {"axis": -1})
    st2, _ = run_rule(idx, cfi, Spec("preserve", {"axis": "axis"}), [("e0", "e1")], [0], {"axis": 1})
    res.control("R-C10e", "a synthetic rule that shifts the axis by one without canonicalising a negative value is reported for axis=-1 and accepted for axis=1", st == "VIOLATION" and st2 == "OK", de)


# ---------------------------------------------------------------------------------------------- R-C10f
# Operators whose result at one position depends on other positions along some axis: a primitive lowered to one of
# them is not position-independent, so a batching rule that leaves the batch dimension where it is (or only broadcasts
# the operands) applies the operation across examples for some in_axes.  From the operator specification.
AXIS_DEPENDENT_OPS = {
    "ReduceSum", "ReduceMean", "ReduceMax", "ReduceMin", "ReduceProd", "ReduceL1", "ReduceL2", "ReduceLogSum", "ReduceLogSumExp", "ReduceSumSquare",
    "Softmax", "LogSoftmax", "Hardmax", "MatMul", "Gemm", "Einsum", "Conv", "ConvTranspose", "MaxPool", "AveragePool", "GlobalAveragePool", "GlobalMaxPool", "LpPool",
    "LayerNormalization", "RMSNormalization", "GroupNormalization", "InstanceNormalization", "BatchNormalization", "LpNormalization", "MeanVarianceNormalization",
    "CumSum", "ArgMax", "ArgMin", "TopK", "Transpose", "OneHot", "Trilu", "Pad", "Tile", "Resize", "DepthToSpace", "SpaceToDepth", "Attention", "RotaryEmbedding",
    "Unique", "NonZero", "Det", "ReverseSequence", "Compress", "Flatten",
}
# shape plumbing: whether these act on data positions depends on how they are used
PLUMBING_OPS = {"Reshape", "Unsqueeze", "Squeeze", "Concat", "Gather", "GatherND", "GatherElements", "Slice", "Split", "ScatterND", "ScatterElements", "Expand", "Shape", "Size", "Range",
                "Constant", "ConstantOfShape"}
GENERIC_REGISTRARS = {"register_unary_elementwise_batch_rule"}
GENERIC_BATCHERS = {"broadcast_batcher_compat"}


def _prim_owner_name(e: ast.AST) -> Optional[str]:
    d = dotted(e) or ""
    return d[: -len("._PRIM")] if d.endswith("._PRIM") else None


def _delegates_to_generic(fi: FuncInfo) -> bool:
    """`return broadcast_batcher_compat(P._PRIM, args, dims, **params)` as the whole body (imports / docstring aside)"""
    rets = [n for n in walk_no_nested(fi.node) if isinstance(n, ast.Return) and n.value is not None]

    def core(v: ast.AST) -> ast.AST:
        while isinstance(v, ast.Call) and (call_name(v) or "").split(".")[-1] == "cast" and len(v.args) == 2:
            v = v.args[1]
        return v
    return bool(rets) and all(isinstance(core(r.value), ast.Call) and (call_name(core(r.value)) or "").split(".")[-1] in GENERIC_BATCHERS for r in rets)


def _passthrough_rule(idx: Index, fi: FuncInfo) -> Optional[bool]:
    """Does the rule re-bind the operand with the batch dimension left where it is and hand that dimension back?
    Decided by evaluating it on a labelled operand whose batch axis is in the middle."""
    from ..batchsem import BatchEval, arr, is_arr, labels_of
    from ..symeval import Closure, EvalRaise, Unsupported
    spec = Spec("elementwise", {})
    a = fi.node.args  # type: ignore[attr-defined]
    n_ops = 1
    for st in fi.node.body:  # type: ignore[attr-defined]
        if isinstance(st, ast.Assign) and isinstance(st.value, ast.Name) and st.value.id == a.args[0].arg and isinstance(st.targets[0], (ast.Tuple, ast.List)):
            n_ops = len(st.targets[0].elts)
        if isinstance(st, ast.Assign) and isinstance(st.value, ast.Tuple) and st.value.elts and isinstance(st.value.elts[0], ast.Name) and st.value.elts[0].id == a.args[0].arg and isinstance(st.targets[0], ast.Tuple) and isinstance(st.targets[0].elts[0], (ast.Tuple, ast.List)):
            n_ops = len(st.targets[0].elts[0].elts)
    ops = [arr(("e0", "B", "e1"))] + [arr((f"w{i}",)) for i in range(n_ops - 1)]
    bds: List[Optional[int]] = [1] + [None] * (n_ops - 1)
    kw = {x.arg: Opaque(x.arg) for x, d in zip(a.kwonlyargs, a.kw_defaults) if d is None}
    ev = BatchEval(idx, spec)
    try:
        r = Closure(ev, fi.node, {}, fi, 0)(tuple(ops), tuple(bds), **kw)
    except (Unsupported, EvalRaise, Exception):
        return None
    if not (isinstance(r, (tuple, list)) and len(r) == 2 and is_arr(r[0])):
        return None
    sink_layouts = [l for _, _, l, _ in ev.sinks]
    return r[1] == 1 and labels_of(r[0]) == ("e0", "B", "e1") and all(l == ("e0", "B", "e1") for l in sink_layouts) and bool(sink_layouts)


# Library callables (by the name a plugin patches) whose result at one position depends on that position of the operand
# only.  numpy's own element-wise ufuncs are recognised from the installed numpy; this table adds what numpy does not
# define.  One line of reason per family.
ELEMENTWISE_TABLE = {
    # jax.nn activations: scalar functions applied to every element
    "relu", "relu6", "sigmoid", "silu", "swish", "gelu", "elu", "celu", "selu", "softplus", "softsign", "tanh", "leaky_relu", "hard_sigmoid", "hard_swish", "hard_silu",
    "hard_tanh", "mish", "log_sigmoid", "sparse_plus", "sparse_sigmoid", "squareplus", "thresholded_relu", "identity", "log1mexp", "soft_sign",
    # selection / clamping with numpy broadcasting
    "where", "select", "clip", "prelu",
    # each element of x is located in a table that is not batched (the rule rejects batched tables)
    "digitize", "interp",
    # jax.numpy spellings of numpy ufuncs under another name
    "pow", "bitwise_left_shift", "bitwise_right_shift", "bitwise_invert", "invert", "acos", "acosh", "asin", "asinh", "atan", "atanh", "atan2", "spacing",
    # modules that apply a scalar function / nothing per element
    "Identity", "Dropout", "Lambda", "PReLU",
    # every index is looked up on its own; the embedding axis is appended behind the operand's axes
    "Embedding",
}
# Library callables with core dimensions (the operand's LAST axes carry meaning): a rule that leaves the batch
# dimension where it is is right only for in_axes that keep those axes in place.
CORE_DIMS_TABLE = {
    "dot": "contracts the last axis of a with the second-to-last of b",
    "matmul": "numpy generalised ufunc (n?,k),(k,m?)->(n?,m?)",
    "vdot": "contracts flattened operands", "inner": "contracts last axes", "outer": "flattens both operands", "tensordot": "contracts named axes",
    "LayerNorm": "normalises over the trailing axes matching `shape`", "RMSNorm": "normalises over the trailing axes matching `shape`", "Linear": "contracts the last axis with the weight",
    "GroupNorm": "groups the channel axis", "Conv": "channel and spatial axes by position",
}
AXIS_PARAMS = {"axis", "axes", "dimension", "dimensions", "dims", "axis1", "axis2"}


def _library_verdict(target: Optional[str], attr: Optional[str]) -> Tuple[str, str]:
    """(OK | VIOLATION | UNRESOLVED, reason) for "is this library callable position-independent in its operand?" """
    import inspect
    import numpy as _np
    if not attr:
        return "UNRESOLVED", "patched library callable not resolved"
    name = attr if attr != "__call__" else (target or "").split(".")[-1]
    uf = getattr(_np, name, None)
    if isinstance(uf, _np.ufunc):
        if uf.signature is None:
            return "OK", f"numpy.{name} is an element-wise ufunc"
        return "VIOLATION", f"numpy.{name} is a generalised ufunc with core dimensions {uf.signature}"
    if name in CORE_DIMS_TABLE:
        return "VIOLATION", f"`{name}` {CORE_DIMS_TABLE[name]}"
    try:
        from ..sigs import library_object
        obj, _ = library_object(target, attr)
        ps = set(inspect.signature(obj).parameters) if obj is not None else set()
    except Exception:
        ps = set()
    hit = sorted(ps & AXIS_PARAMS)
    if hit:
        return "VIOLATION", f"`{(target or '?')}.{attr}` takes `{hit[0]}`: it acts along an axis of the operand"
    if name in ELEMENTWISE_TABLE:
        return "OK", f"`{name}` is element-wise (reference table)"
    return "UNRESOLVED", f"`{(target or '?')}.{attr}` is in neither reference table"


def run_generic_batchers(res: Results, idx: Index, tier: str) -> None:
    from ..callgraph import get_callgraph
    from ..emit import enumerate_sites
    from ..tables.onnx_ops import get_history
    from .c02 import POINTWISE_OPS
    res.rule("R-C10f", "batching rules that leave the batch dimension where it is (generic element-wise / broadcasting batchers, plain re-binds) are installed only for primitives whose lowering is point-wise", floor=60)
    cg = get_callgraph(idx)
    hist = get_history()
    sites, _ = enumerate_sites(idx, cg, set(hist.hist))
    by_func: Dict[int, List[Any]] = {}
    for s in sites:
        # an operator name that travels through helper parameters belongs to the function that supplied it
        f = s.origin_func if s.chain else s.func
        if f is not None:
            by_func.setdefault(id(f.node), []).append(s)
    n = 0
    from ..patchspecs import collect_specs
    specs, _ = collect_specs(idx)
    spec_of: Dict[Tuple[str, str], Tuple[Optional[str], Optional[str]]] = {}
    for sp in specs:
        if sp.cls is not None and sp.target and sp.attr:
            spec_of.setdefault((sp.module.rel, sp.cls.name), (sp.target, sp.attr))
    for m in idx.product_modules():
        if ".plugins." not in m.name:
            continue
        regs: List[Tuple[str, str, int, Optional[FuncInfo]]] = []   # (owner class, style, line, rule)
        for node in ast.walk(m.tree):
            if isinstance(node, ast.Call) and (call_name(node) or "").split(".")[-1] in GENERIC_REGISTRARS and node.args:
                o = _prim_owner_name(node.args[0])
                if o:
                    regs.append((o, "generic unary element-wise batcher", node.lineno, None))
            if isinstance(node, ast.Assign) and len(node.targets) == 1 and isinstance(node.targets[0], ast.Subscript) and "primitive_batchers" in (dotted(node.targets[0].value) or ""):
                o = _prim_owner_name(node.targets[0].slice)
                if not o:
                    continue
                v = node.value
                rule = m.funcs.get(v.id) if isinstance(v, ast.Name) else None
                if isinstance(v, ast.Call) and isinstance(v.func, ast.Name):
                    maker = m.funcs.get(v.func.id)
                    inner = [f for q, f in m.funcs.items() if maker is not None and q.startswith(maker.qualname + ".<locals>.")]
                    rule = inner[0] if inner else None
                if rule is None:
                    continue
                if _delegates_to_generic(rule):
                    regs.append((o, "broadcasting batcher (broadcast_batcher_compat)", node.lineno, rule))
                else:
                    pt = _passthrough_rule(idx, rule)
                    if pt:
                        regs.append((o, f"`{rule.name}` re-binds the operand and returns the incoming batch dimension", node.lineno, rule))
        for owner, style, line, rule in regs:
            c = m.classes.get(owner)
            if c is None:
                continue
            lower = idx.resolve_method(c, "lower")
            key = f"{m.rel}::{owner}::position-independent-batcher"
            site = f"{m.rel}:{line}"
            n += 1
            if lower is None:
                res.unresolved("R-C10f", site, key, "the plugin has no lower() to read the operators from", owner)
                continue
            # the loop-extent override helpers (_axis0_utils) are shared by every binary operator and decided by C06 R-C06g
            funcs = [f for f in cg.reachable_from(lower, depth=4) if not f.module.rel.endswith(("_axis0_utils.py", "_loop_extent_meta.py"))]
            for f in list(funcs):
                funcs.extend(f.nested().values())
            ops: Set[str] = set()
            dyn = 0
            for f in funcs:
                for s in by_func.get(id(f.node), []):
                    if s.op is None:
                        dyn += 1
                    else:
                        ops.add(s.op)
            axis_ops = sorted(ops & AXIS_DEPENDENT_OPS)
            tgt = spec_of.get((m.rel, owner))
            if tgt is None:
                fn_name = next((st.value.value for st in c.node.body if isinstance(st, (ast.Assign, ast.AnnAssign)) and isinstance(st.value, ast.Constant) and isinstance(st.value.value, str)
                                and "_FUNC_NAME" in ast.unparse(st.targets[0] if isinstance(st, ast.Assign) else st.target)), None)
                if fn_name:
                    tgt = ("jax.numpy" if "/numpy/" in m.rel else "jax.nn" if "/nn/" in m.rel else None, fn_name)
            st, why = _library_verdict(*(tgt or (None, None)))
            extra = f"; its lowering emits {', '.join(axis_ops)}" if axis_ops else ""
            if st == "VIOLATION":
                res.violation("R-C10f", site, key, f"{style}, but {why}{extra}: with the batch dimension left where it is the operation is applied across examples for some vmap in_axes / operand ranks", owner)
            elif st == "OK":
                res.ok("R-C10f", site, key, f"{style}; {why}", owner)
            else:
                res.unresolved("R-C10f", site, key, f"{style}; {why}{extra}", owner)
    res.analysed["position_independent_batchers"] = n


# ---------------------------------------------------------------------------------------------- R-C10g
def run_param_fallbacks(res: Results, idx: Index) -> None:
    """A transformation rule receives the primitive's parameters as they were bound.  `v = float(p) if isinstance(p, (int,
    float)) else <default>` silently replaces a parameter of another numeric type (np.float32 is not a Python float) by
    the default: the exported derivative uses another hyper-parameter than the primal function.  In plugin functions that
    read a parameter from a params mapping, an isinstance-guarded conditional whose other branch is a numeric constant is
    a violation; raising, or converting unconditionally, is fine."""
    res.rule("R-C10g", "transformation rules never substitute a constant for a bound parameter whose type they do not recognise", floor=1)
    n = 0
    hits = 0
    for m in idx.product_modules():
        if ".plugins." not in m.name:
            continue
        for fi in m.funcs.values():
            a = fi.node.args  # type: ignore[attr-defined]
            if a.kwarg is None and not any(x.arg == "params" for x in a.args + a.kwonlyargs):
                continue
            du = defuse(fi.node)
            from_params = {nm for nm, ds in du.defs.items() for d in ds if d.value is not None and isinstance(d.value, (ast.Call, ast.Subscript))
                           and any(isinstance(x, ast.Name) and x.id in ((a.kwarg.arg if a.kwarg else ""), "params") for x in ast.walk(d.value))}
            if not from_params:
                continue
            n += 1
            for x in walk_no_nested(fi.node):
                test = other = None
                if isinstance(x, ast.IfExp):
                    test, other, chosen = x.test, x.orelse, x.body
                if test is None:
                    continue
                iso = [c for c in ast.walk(test) if isinstance(c, ast.Call) and (call_name(c) or "") == "isinstance" and c.args and isinstance(c.args[0], ast.Name) and c.args[0].id in from_params]
                if not iso:
                    continue
                hits += 1
                key = f"{m.rel}::{fi.qualname}::param-fallback::{iso[0].args[0].id}"
                site = f"{m.rel}:{x.lineno}"
                if isinstance(other, ast.Constant) and isinstance(other.value, (int, float)) and not isinstance(other.value, bool):
                    res.violation("R-C10g", site, key, f"`{src(x, 80)}`: a bound parameter whose type is not in the isinstance list (e.g. np.float32) is silently replaced by {other.value!r}; "
                                  "the rule then differentiates / batches another function than the one that was traced", fi.qualname)
                else:
                    res.ok("R-C10g", site, key, f"`{src(x, 60)}` does not fall back to a constant", fi.qualname)
    # a rule that takes a bound parameter out of its params mapping and throws it away
    for m in idx.product_modules():
        if ".plugins." not in m.name:
            continue
        for fi in m.funcs.values():
            a = fi.node.args  # type: ignore[attr-defined]
            if a.kwarg is None or not any(k in fi.name.lower() for k in ("batch", "jvp", "transpose", "vjp")):
                continue
            for st in walk_no_nested(fi.node):
                if isinstance(st, ast.Expr) and isinstance(st.value, ast.Call) and isinstance(st.value.func, ast.Attribute) and st.value.func.attr == "pop" and isinstance(st.value.func.value, ast.Name) \
                        and st.value.func.value.id == a.kwarg.arg and st.value.args and isinstance(st.value.args[0], ast.Constant):
                    hits += 1
                    k_ = st.value.args[0].value
                    res.violation("R-C10g", f"{m.rel}:{st.lineno}", f"{m.rel}::{fi.qualname}::discarded::{k_}", f"`{src(st, 60)}` takes the bound parameter `{k_}` out of the mapping and discards it: the rule then evaluates "
                                  "the function as if the parameter had not been given (for @onnx_function classes: the instance bound last instead of the instance of this call)", fi.qualname)
    if hits == 0:
        # nothing of that shape in the tree: keep the rule alive with the scan count and a positive control
        res.ok("R-C10g", "jax2onnx/plugins:1", "param-fallback::none", f"{n} parameter-reading rule functions scanned; none guards a parameter by isinstance with a constant fallback", "<scan>")
    res.analysed["param_reading_rule_functions"] = n
    ctl = ast.parse("def r(primals, tangents, **params):\n    p = params.get('alpha', 1.0)\n    a = float(p) if isinstance(p, (int, float)) else 1.0\n    return a\n").body[0]
    fired = any(isinstance(x, ast.IfExp) and isinstance(x.orelse, ast.Constant) for x in ast.walk(ctl))
    res.control("R-C10g", "isinstance-guarded constant fallback on a params-derived name is recognised", fired, "synthetic rule")


# ---------------------------------------------------------------------------------------------- R-C10h
def run_forwarded_rule_params(res: Results, idx: Index) -> None:
    """A transformation rule taken from JAX's registries for a lax primitive and installed on a plugin primitive
    (`register_*_rule_forwarding(orig_prim=lax.X_p, new_prim=P._PRIM)`, `register_reduction_batch_rule(P._PRIM, lax.X_p)`, or a
    direct copy `batching.<table>[P._PRIM] = batching.<table>.get(lax.X_p)`) is later called with the parameters the PLUGIN
    binds.  Every keyword-only parameter without default of the JAX rule (its functools.partial layers unwrapped) must be
    among the keys of the plugin's `bind(...)` calls, otherwise vmap / grad of the substitute raises a TypeError where plain
    JAX evaluates the function.  The JAX rule's signature is read from the installed jax (third-party introspection)."""
    import functools
    import importlib
    import inspect
    res.rule("R-C10h", "rules forwarded from a lax primitive only require parameters the substitute primitive binds", floor=10)
    res.trusted.append("signatures of the batching / JVP / transpose rules registered in the installed jax for lax primitives (inspect.signature)")

    def lax_prim(expr: ast.AST):
        d = dotted(expr) or ""
        name = d.split(".")[-1]
        if not name.endswith("_p"):
            return None, name
        for modname in ("jax.lax", "jax._src.lax.lax", "jax._src.lax.slicing", "jax._src.lax.control_flow", "jax._src.lax.windowed_reductions", "jax._src.lax.other", "jax._src.lax.special"):
            try:
                mod = importlib.import_module(modname)
            except Exception:
                continue
            if hasattr(mod, name):
                return getattr(mod, name), name
        return None, name

    def required(fn) -> Optional[Set[str]]:
        given: Set[str] = set()
        while isinstance(fn, functools.partial):
            given |= set(fn.keywords or {})
            fn = fn.func
        r0 = _required0(fn)
        return None if r0 is None else r0 - given

    def _required0(fn) -> Optional[Set[str]]:
        try:
            sig = inspect.signature(fn)
        except (TypeError, ValueError):
            return None
        return {p.name for p in sig.parameters.values() if p.kind == p.KEYWORD_ONLY and p.default is p.empty}

    from jax._src.interpreters import ad as _ad, batching as _bt
    n = 0
    for m in idx.product_modules():
        if "/plugins/" not in m.rel or "_p" not in m.src:
            continue
        pairs: List[Tuple[str, ast.AST, int, Tuple[str, ...]]] = []   # (owner, lax prim expr, line, which tables)
        for st in ast.walk(m.tree):
            if isinstance(st, ast.Call):
                cn = (call_name(st) or "").split(".")[-1]
                kw = {k.arg: k.value for k in st.keywords}
                if cn.endswith("rule_forwarding") and kw.get("new_prim") is not None and kw.get("orig_prim") is not None:
                    o = _prim_owner_name(kw["new_prim"])
                    fb = kw.get("forward_batching")
                    tables = ("jvp", "transpose") + (() if isinstance(fb, ast.Constant) and fb.value is False else ("batch",))
                    if o:
                        pairs.append((o, kw["orig_prim"], st.lineno, tables))
                if cn == "register_reduction_batch_rule" and len(st.args) >= 2:
                    o = _prim_owner_name(st.args[0])
                    if o:
                        pairs.append((o, st.args[1], st.lineno, ("batch",)))
            if isinstance(st, ast.Assign) and len(st.targets) == 1 and isinstance(st.targets[0], ast.Subscript):
                tab = (dotted(st.targets[0].value) or "").split(".")[-1]
                o = _prim_owner_name(st.targets[0].slice)
                if o and tab in ("primitive_batchers", "fancy_primitive_batchers", "primitive_jvps", "primitive_transposes"):
                    v = st.value
                    supplied: Tuple[str, ...] = ()
                    if isinstance(v, ast.Call) and (call_name(v) or "").split(".")[-1] == "partial" and v.args:
                        supplied = tuple(k.arg for k in v.keywords if k.arg)
                        v = v.args[0]
                    srcs = [v] + ([d.value for d in defuse(m.tree).defs.get(v.id, []) if d.value is not None] if isinstance(v, ast.Name) else [])
                    for s_ in srcs:
                        for c in ast.walk(s_):
                            arg = None
                            if isinstance(c, ast.Call) and isinstance(c.func, ast.Attribute) and c.func.attr == "get" and (dotted(c.func.value) or "").split(".")[-1].startswith(("primitive_", "fancy_primitive_")) and c.args:
                                arg = c.args[0]
                            if isinstance(c, ast.Subscript) and (dotted(c.value) or "").split(".")[-1].startswith(("primitive_", "fancy_primitive_")) and c is not st.targets[0]:
                                arg = c.slice
                            if arg is not None and (dotted(arg) or "").endswith("_p"):
                                pairs.append((o, arg, st.lineno, ({"primitive_jvps": "jvp", "primitive_transposes": "transpose"}.get(tab, "batch"),) + tuple("+" + s for s in supplied)))
        for owner, pexpr, line, tables in pairs:
            n += 1
            prim, pname = lax_prim(pexpr)
            key = f"{m.rel}::{owner}::forwarded-params::{pname}"
            site = f"{m.rel}:{line}"
            if prim is None:
                res.unresolved("R-C10h", site, key, f"`{src(pexpr, 40)}` is not a primitive of the installed jax.lax", owner)
                continue
            bound: Set[str] = set()
            splat = False
            n_bind = 0
            for c in ast.walk(m.tree):
                if isinstance(c, ast.Call) and isinstance(c.func, ast.Attribute) and c.func.attr == "bind" and (dotted(c.func.value) or "").endswith("_PRIM") and (dotted(c.func.value) or "").split(".")[0] in (owner, "cls", "self"):
                    fi = m.func_containing(c)
                    if fi is not None and ("batch" in fi.name or "jvp" in fi.name or "transpose" in fi.name):
                        continue
                    n_bind += 1
                    for k in c.keywords:
                        if k.arg is None:
                            splat = True
                        else:
                            bound.add(k.arg)
            def reg(table, p_):
                try:
                    return table.get(p_)
                except Exception:
                    try:
                        return table[p_]
                    except Exception:
                        return None
            rules = {"jvp": reg(_ad.primitive_jvps, prim), "transpose": reg(_ad.primitive_transposes, prim),
                     "batch": reg(_bt.primitive_batchers, prim) or reg(getattr(_bt, "fancy_primitive_batchers", {}), prim)}
            missing: Dict[str, Set[str]] = {}
            unknown = False
            supplied_here = {x[1:] for x in tables if x.startswith("+")}
            tables = tuple(x for x in tables if not x.startswith("+"))
            for tname in tables:
                r_ = rules.get(tname)
                if r_ is None:
                    continue
                req = required(r_)
                if req is None:
                    unknown = True
                    continue
                lack = req - bound - supplied_here
                if lack:
                    missing[tname] = lack
            if n_bind == 0 or splat:
                res.unresolved("R-C10h", site, key, f"the keys `{owner}` binds are not visible ({'**-splat at a bind site' if splat else 'no bind site in the module'})", owner)
            elif missing:
                txt = "; ".join(f"the {t_} rule of {pname} requires {sorted(v)}" for t_, v in sorted(missing.items()))
                res.violation("R-C10h", site, key, f"{txt}, which `{owner}` never binds ({sorted(bound) or 'no keywords'}): the forwarded rule raises TypeError as soon as the substitute is used under that transformation", owner)
            elif unknown:
                res.unresolved("R-C10h", site, key, "a forwarded rule has no introspectable signature", owner)
            else:
                res.ok("R-C10h", site, key, f"{pname} rules ({', '.join(tables)}) need nothing beyond {sorted(bound) or 'the operands'}", owner)
    res.analysed["forwarded_rule_pairs"] = n


# ---------------------------------------------------------------------------------------------- R-C10j
# (lax primitive, parameter) -> what the primitive itself validates when a forwarded rule re-binds it with the substitute's parameters
FORWARDED_PARAM_DOMAINS = {
    ("reshape_p", "new_sizes"): ("-1", "lax.reshape_p requires all new_sizes positive; jnp.reshape's -1 (\"infer\") must be resolved before binding"),
}


def run_forwarded_param_domains(res: Results, idx: Index) -> None:
    """Rules forwarded from a lax primitive (JVP / transpose) re-bind THAT primitive with the parameters the substitute bound.  A
    value the library wrapper accepts but the lax primitive rejects (jnp.reshape's -1) therefore has to be normalised by the
    substitute before `bind`: otherwise the plain export works and every differentiated export of the same function raises."""
    res.rule("R-C10j", "parameters bound on a substitute whose rules are forwarded from a lax primitive are normalised into that primitive's own value domain", floor=1)
    n = 0
    for m in idx.product_modules():
        if "/plugins/" not in m.rel or "register_allowlisted_original_rule_forwarding" not in m.src:
            continue
        regs = [c for c in ast.walk(m.tree) if isinstance(c, ast.Call) and (call_name(c) or "").split(".")[-1] == "register_allowlisted_original_rule_forwarding"]
        for r in regs:
            orig = next((src(kw.value, 60) for kw in r.keywords if kw.arg == "orig_prim"), src(r.args[0], 60) if r.args else "")
            prim = orig.split(".")[-1]
            for (p_, param), (bad_lit, why) in FORWARDED_PARAM_DOMAINS.items():
                if prim != p_:
                    continue
                for fi in m.funcs.values():
                    du = None
                    for b in walk_no_nested(fi.node):
                        if not (isinstance(b, ast.Call) and isinstance(b.func, ast.Attribute) and b.func.attr == "bind"):
                            continue
                        kw = next((k for k in b.keywords if k.arg == param), None)
                        if kw is None:
                            continue
                        n += 1
                        du = du or defuse(fi.node)
                        key = f"{m.rel}::{fi.qualname}::forwarded-domain::{prim}.{param}"
                        site = f"{m.rel}:{b.lineno}"
                        clo = du.closure(names_in(kw.value)) | names_in(kw.value)
                        exprs = [kw.value] + [d.value for nm in clo for d in du.defs.get(nm, []) if d.value is not None]
                        normalised = False
                        for e in exprs:
                            for c in ast.walk(e):
                                if isinstance(c, ast.Call):
                                    g = idx.resolve_func(m, call_name(c) or "")
                                    if g is not None and any(isinstance(x, ast.Compare) and any(src(y, 5) == bad_lit for y in [x.left] + x.comparators) for x in ast.walk(g.node)):
                                        normalised = True
                        if normalised:
                            res.ok("R-C10j", site, key, f"`{param}` passes through a helper that treats {bad_lit} before the bind", fi.qualname)
                        else:
                            res.violation("R-C10j", site, key, f"`{param}={src(kw.value, 30)}` is bound as the caller wrote it: {why} — jax.grad / jax.jvp of the exported function re-bind {prim} and raise", fi.qualname)
    res.analysed["forwarded_param_domains"] = n
